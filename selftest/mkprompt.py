#!/usr/bin/env python3
"""Writes the prompt handed to a fresh sub-agent of a seeding round (development tool, not a check).
usage: mkprompt.py <property id> <worktree> > prompt.txt     - the prompt contains the property's text and the worktree, nothing from /verif."""
import json
import sys

pid, wt = sys.argv[1], sys.argv[2]
prop = [json.loads(l) for l in open("/verif/properties.jsonl") if json.loads(l)["id"] == pid][0]
print("""You are working on the Rust workspace dmntk (a DMN decision-model toolkit: FEEL lexer / LALR parser / evaluator, decimal numbers, temporal types, DMN XML model parser and
evaluator, HTTP server, recogniser of decision tables drawn as text). Your own scratch git worktree of it is %(wt)s - work ONLY there (never in /repo; do not read or write anything under /verif). There is no
network: use `cargo ... --offline` (set CARGO_NET_OFFLINE=true). Important quirk: every workspace member depends on the crates.io 0.0.46 copy of its sibling crates, NOT on the sibling
directories - a change in feel/ is invisible to feel-evaluator's own tests. A demonstration crate therefore needs a `[patch.crates-io]` section that points every dmntk-* crate it uses
(transitively) at the worktree directories (dmntk-common -> common, dmntk-feel -> feel, dmntk-feel-number -> feel-number, dmntk-feel-grammar -> feel-grammar, dmntk-feel-parser -> feel-parser,
dmntk-feel-evaluator -> feel-evaluator, dmntk-model -> model, dmntk-model-evaluator -> model-evaluator, dmntk-recognizer -> recognizer, dmntk-workspace -> workspace, dmntk-server -> server ...),
an empty `[workspace]` table, and dependencies written as `dmntk-feel = "0.0.46"`; copy %(wt)s/Cargo.lock into the demo crate before the first build. Only crates already in the cargo cache can be used.

The property (a statement the maintainers want to hold for EVERY input, not only the tested ones):

  %(id)s - %(title)s
  %(statement)s
  Quantifier: %(q)s

Deliver three things under %(wt)s/out/ :

(1) out/1/ and out/2/ : two DIFFERENT realistic changes to the library source (the kind of slip a maintainer makes while refactoring, optimising or "simplifying": a lost guard, a swapped
    operand, an off-by-one, a wrong variant in a copy-pasted arm, a loop that stops early, a merged case, a cache that goes stale, ...), each of which
      - BREAKS the property for some inputs,
      - still COMPILES, and leaves the result of `cargo test --offline --no-fail-fast` in every touched crate exactly as on the pristine tree (the same tests pass, the same - possibly
        pre-existing - tests fail; run it before and after and compare),
      - touches different functions / mechanisms than the other one; prefer places a reviewer would not look at first, and changes of 5-60 lines that look like honest work (comments included),
        not a one-token mutation of the most obvious line.
    Each directory holds: patch.diff (`git diff` of the worktree against HEAD, library sources only - no tests edited, no files under out/), demo/ (a small cargo crate as described above
    whose `cargo run --offline -q` exits 0 on the pristine tree and non-zero on the changed tree, printing the inputs that went wrong; it should sample many inputs, not one), and notes.md
    (which clause is broken, by what mechanism, for which inputs).
(2) out/b1/ : one behaviour-PRESERVING refactoring of 30-100 changed lines in the code this property is about (extract / inline helpers, loops <-> iterator chains, `if let` pyramids <-> `?` /
    let-else / combinators, merged arms, flags <-> enums, lookup tables, generic helpers with closure parameters ...) - patch.diff and notes.md (why nothing changes). The touched crates'
    test results must be identical and both demos of (1) must still exit 0 with only this patch applied.
(3) out/REMARKS.md : while reading, you will notice places where the PRISTINE tree already seems to violate this very property (an input for which the statement fails today). Do not fix them
    and do not use them for (1); list each with the concrete input, what comes out, what the statement demands, and the file / function. If you can, confirm each with a few lines in a demo.

Leave the worktree itself clean at the end (`git checkout -- .`; everything you deliver is under out/, which is untracked). In your final message give a short summary of the three deliverables and repeat the remarks of (3).""" % dict(
    wt=wt, id=prop["id"], title=prop["title"], statement=prop["statement"], q=prop["quantifier"]["text"]))
