#!/usr/bin/env python3
"""Both-ways test of the checkers against the seeded breaking changes kept under /verif/seeded.

Not a registered check: a development-time tool.  For every /verif/seeded/<name>/patch.diff it
  1. makes sure /repo's working tree is clean,
  2. applies the patch (git -C /repo apply), runs the quick (or the given) tier of the checks with the
     evidence redirected to a scratch directory (VERIF_OUT), records exit status and violation keys,
  3. restores the tree (git -C /repo checkout -- .) - also when interrupted.
and prints a table: which check fires on which change.  meta.json's "expect" (list of property ids that
must fire) is compared with what was observed.

usage: run.py [--tier quick|thorough] [--all-checks] [--jobs N] [name ...]

--jobs N: N workers, each with its own scratch worktree of /repo (git worktree under /tmp, removed afterwards) and its own fact cache
(DMNTK_REPO / VERIF_CACHE); inside a worker the checks of one seeded change run concurrently (they only read the fact base).
"""
import json
import os
import shutil
import subprocess
import sys
import tempfile

VERIF = os.path.dirname(os.path.dirname(os.path.abspath(__file__)))
REPO = os.environ.get("DMNTK_REPO", "/repo")


def sh(*a, **k):
    return subprocess.run(a, stdout=subprocess.PIPE, stderr=subprocess.STDOUT, text=True, **k)


def claimed():
    m = json.load(open(os.path.join(VERIF, "MANIFEST.json")))
    return [c["property_id"] for c in m["checks"]]


def main():
    args = sys.argv[1:]
    tier = "quick"
    allc = False
    jobs = 0
    names = []
    while args:
        a = args.pop(0)
        if a == "--tier":
            tier = args.pop(0)
        elif a == "--all-checks":
            allc = True
        elif a == "--jobs":
            jobs = int(args.pop(0))
        else:
            names.append(a)
    sdir = os.path.join(VERIF, "seeded")
    if not names:
        names = sorted(d for d in os.listdir(sdir) if os.path.exists(os.path.join(sdir, d, "patch.diff")))
    if jobs > 1:
        return parallel(names, jobs, tier, allc)
    if sh("git", "-C", REPO, "status", "--porcelain", "--untracked-files=no").stdout.strip():
        print("refusing: /repo has local modifications")
        return 2
    out = tempfile.mkdtemp(prefix="verif-selftest-")
    pids = claimed()
    results = {}
    bad = 0
    try:
        for name in names:
            d = os.path.join(sdir, name)
            meta = json.load(open(os.path.join(d, "meta.json")))
            r = sh("git", "-C", REPO, "apply", os.path.join(d, "patch.diff"))
            if r.returncode:
                print("%-12s patch does not apply: %s" % (name, r.stdout.strip()))
                bad += 1
                continue
            try:
                fired = {}
                todo = pids if (allc or meta.get("benign")) else [q for q in sorted(set([meta["property"]] + meta.get("expect", []))) if q in pids]
                env = dict(os.environ, VERIF_OUT=out)
                # the first check extracts the facts (under a lock); the others wait for it and then only read
                from concurrent.futures import ThreadPoolExecutor
                with ThreadPoolExecutor(max_workers=int(os.environ.get("SELFTEST_CHECK_JOBS", "6"))) as ex:
                    done = list(ex.map(lambda pid: (pid, sh("python3", os.path.join(VERIF, "engine", "check.py"), pid, tier, env=env)), todo))
                for pid, c in done:
                    if c.returncode == 1 and "VIOLATION property=" not in c.stdout:
                        fired[pid] = ["<check crashed: %s>" % (c.stdout.strip().splitlines()[-1:])]
                    elif c.returncode == 1:
                        rep = json.load(open(os.path.join(out, "reports", "%s-%s.json" % (pid, tier))))
                        fired[pid] = sorted({"%s:%s" % (v["rule"], v["key"]) for v in rep["violations"]})
                    elif c.returncode != 0:
                        fired[pid] = ["<check exited %d: %s>" % (c.returncode, c.stdout.strip().splitlines()[-1:] )]
            finally:
                sh("git", "-C", REPO, "checkout", "--", ".")
                sh("git", "-C", REPO, "clean", "-fdq")     # files a patch added
            results[name] = fired
            if meta.get("benign"):
                status = "silent" if not fired else ("ALARM (accepted: %s)" % meta["accepted_alarm"][:60] if meta.get("accepted_alarm") else "FALSE ALARM")
                bad += 1 if fired and not meta.get("accepted_alarm") else 0
            else:
                exp = meta.get("expect") or [meta["property"]]
                missing = [p for p in exp if p not in fired]
                if not fired:
                    status = "MISSED by every check" + (" (recorded as out of reach)" if meta.get("out_of_reach") else "")
                elif missing:
                    status = "MISSED by %s (reported by %s)" % (",".join(missing), ",".join(sorted(fired)))
                else:
                    status = "caught"
                if (missing or not fired) and not meta.get("out_of_reach"):
                    bad += 1
            print("%-12s %-8s %s" % (name, meta["property"], status))
            for pid, keys in fired.items():
                print("      %s fires: %s" % (pid, "; ".join(keys[:6]) + (" ..." if len(keys) > 6 else "")))
            sys.stdout.flush()
    finally:
        sh("git", "-C", REPO, "checkout", "--", ".")
        sh("git", "-C", REPO, "clean", "-fdq")
        shutil.rmtree(out, ignore_errors=True)
    if os.environ.get("SELFTEST_RESULTS"):
        json.dump(results, open(os.environ["SELFTEST_RESULTS"], "w"), indent=1, sort_keys=True)
    else:
        json.dump(results, open(os.path.join(VERIF, "selftest", "last_results.json"), "w"), indent=1, sort_keys=True)
    return 1 if bad else 0


def parallel(names, jobs, tier, allc):
    import threading
    root = tempfile.mkdtemp(prefix="verif-st-")
    outs = {}

    def worker(k):
        wt = os.path.join(root, "repo%d" % k)
        sh("git", "-C", "/repo", "worktree", "add", "--detach", wt)
        mine = names[k::jobs]
        env = dict(os.environ, DMNTK_REPO=wt, VERIF_CACHE=os.path.join(root, "cache%d" % k), SELFTEST_RESULTS=os.path.join(root, "res%d.json" % k))
        cmd = ["python3", os.path.abspath(__file__), "--tier", tier] + (["--all-checks"] if allc else []) + mine
        try:
            outs[k] = sh(*cmd, env=env) if mine else None
        finally:
            sh("git", "-C", "/repo", "worktree", "remove", "--force", wt)
    ts = [threading.Thread(target=worker, args=(k,)) for k in range(jobs)]
    for t in ts:
        t.start()
    for t in ts:
        t.join()
    results = {}
    lines = []
    rc = 0
    for k in range(jobs):
        if outs.get(k) is None:
            continue
        rc |= 1 if outs[k].returncode else 0
        lines += outs[k].stdout.splitlines()
        rp = os.path.join(root, "res%d.json" % k)
        if os.path.exists(rp):
            results.update(json.load(open(rp)))
    # regroup the table by change name
    blocks, cur = [], None
    for ln in lines:
        if ln.startswith("      ") and cur is not None:
            cur.append(ln)
        else:
            cur = [ln]
            blocks.append(cur)
    for b in sorted(blocks, key=lambda b: b[0]):
        print("\n".join(b))
    json.dump(results, open(os.path.join(VERIF, "selftest", "last_results.json"), "w"), indent=1, sort_keys=True)
    shutil.rmtree(root, ignore_errors=True)
    sh("git", "-C", "/repo", "worktree", "prune")
    return rc


if __name__ == "__main__":
    sys.exit(main())
