#!/usr/bin/env python3
"""Both-ways test of the checkers against the seeded breaking changes kept under /verif/seeded.

Not a registered check: a development-time tool.  For every /verif/seeded/<name>/patch.diff it
  1. makes sure /repo's working tree is clean,
  2. applies the patch (git -C /repo apply), runs the quick (or the given) tier of the checks with the
     evidence redirected to a scratch directory (VERIF_OUT), records exit status and violation keys,
  3. restores the tree (git -C /repo checkout -- .) - also when interrupted.
and prints a table: which check fires on which change.  meta.json's "expect" (list of property ids that
must fire) is compared with what was observed.

usage: run.py [--tier quick|thorough] [--all-checks] [name ...]
"""
import json
import os
import shutil
import subprocess
import sys
import tempfile

VERIF = os.path.dirname(os.path.dirname(os.path.abspath(__file__)))
REPO = "/repo"


def sh(*a, **k):
    return subprocess.run(a, stdout=subprocess.PIPE, stderr=subprocess.STDOUT, text=True, **k)


def claimed():
    m = json.load(open(os.path.join(VERIF, "MANIFEST.json")))
    return [c["property_id"] for c in m["checks"]]


def main():
    args = sys.argv[1:]
    tier = "quick"
    allc = False
    names = []
    while args:
        a = args.pop(0)
        if a == "--tier":
            tier = args.pop(0)
        elif a == "--all-checks":
            allc = True
        else:
            names.append(a)
    sdir = os.path.join(VERIF, "seeded")
    if not names:
        names = sorted(d for d in os.listdir(sdir) if os.path.exists(os.path.join(sdir, d, "patch.diff")))
    if sh("git", "-C", REPO, "status", "--porcelain", "--untracked-files=no").stdout.strip():
        print("refusing: /repo has local modifications")
        return 2
    out = tempfile.mkdtemp(prefix="verif-selftest-")
    pids = claimed()
    results = {}
    bad = 0
    try:
        for name in names:
            d = os.path.join(sdir, name)
            meta = json.load(open(os.path.join(d, "meta.json")))
            r = sh("git", "-C", REPO, "apply", os.path.join(d, "patch.diff"))
            if r.returncode:
                print("%-12s patch does not apply: %s" % (name, r.stdout.strip()))
                bad += 1
                continue
            try:
                fired = {}
                todo = pids if (allc or meta.get("benign")) else sorted(set([meta["property"]] + meta.get("expect", [])))
                for pid in todo:
                    env = dict(os.environ, VERIF_OUT=out)
                    c = sh("python3", os.path.join(VERIF, "engine", "check.py"), pid, tier, env=env)
                    if c.returncode == 1:
                        rep = json.load(open(os.path.join(out, "reports", "%s-%s.json" % (pid, tier))))
                        fired[pid] = sorted({"%s:%s" % (v["rule"], v["key"]) for v in rep["violations"]})
                    elif c.returncode != 0:
                        fired[pid] = ["<check exited %d: %s>" % (c.returncode, c.stdout.strip().splitlines()[-1:] )]
            finally:
                sh("git", "-C", REPO, "checkout", "--", ".")
            results[name] = fired
            if meta.get("benign"):
                status = "silent" if not fired else ("ALARM (accepted: %s)" % meta["accepted_alarm"][:60] if meta.get("accepted_alarm") else "FALSE ALARM")
                bad += 1 if fired and not meta.get("accepted_alarm") else 0
            else:
                exp = meta.get("expect") or [meta["property"]]
                missing = [p for p in exp if p not in fired]
                if not fired:
                    status = "MISSED by every check" + (" (recorded as out of reach)" if meta.get("out_of_reach") else "")
                elif missing:
                    status = "MISSED by %s (reported by %s)" % (",".join(missing), ",".join(sorted(fired)))
                else:
                    status = "caught"
                if (missing or not fired) and not meta.get("out_of_reach"):
                    bad += 1
            print("%-12s %-8s %s" % (name, meta["property"], status))
            for pid, keys in fired.items():
                print("      %s fires: %s" % (pid, "; ".join(keys[:6]) + (" ..." if len(keys) > 6 else "")))
            sys.stdout.flush()
    finally:
        sh("git", "-C", REPO, "checkout", "--", ".")
        shutil.rmtree(out, ignore_errors=True)
    json.dump(results, open(os.path.join(VERIF, "selftest", "last_results.json"), "w"), indent=1, sort_keys=True)
    return 1 if bad else 0


if __name__ == "__main__":
    sys.exit(main())
