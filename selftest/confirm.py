#!/usr/bin/env python3
"""Confirmation and import of a sub-agent's changes (development tool, not a check).

usage: confirm.py <worktree> <property id> <first seeded index> [--benign-from N]

For every <worktree>/out/<k>/ (k numeric: breaking change with demo/; k = b1, b2..: behaviour-preserving refactoring) it
  - resets the worktree, runs the demo on the pristine tree (expects exit 0),
  - applies patch.diff, runs `cargo test --offline` in every crate the patch touches and compares the set of failing tests with the pristine baseline
    of that crate (computed once), runs the demo again (expects a non-zero exit for breaking changes; for refactorings every demo of the same
    worktree must still exit 0),
  - resets the worktree,
and copies patch.diff, demo/ (without build output) and notes into /verif/seeded/<ID>-<n>/ (breaking) or /verif/seeded/benign-<n>/ with a meta.json that
records what was run and observed.  Nothing is kept unless all of the above holds."""
import json
import os
import re
import shutil
import subprocess
import sys

VERIF = os.path.dirname(os.path.dirname(os.path.abspath(__file__)))
ENV = dict(os.environ, CARGO_NET_OFFLINE="true")


def sh(cmd, cwd=None, timeout=3600):
    r = subprocess.run(cmd, shell=True, cwd=cwd, stdout=subprocess.PIPE, stderr=subprocess.STDOUT, text=True, env=ENV, timeout=timeout)
    return r.returncode, r.stdout


def crates_of(patch, wt):
    out = set()
    for m in re.finditer(r"^diff --git a/(\S+) b/", open(patch).read(), re.M):
        d = m.group(1).split("/")[0]
        if os.path.exists(os.path.join(wt, d, "Cargo.toml")):
            out.add(d)
    return sorted(out)


def failing(wt, crate):
    rc, out = sh("cargo test --offline --no-fail-fast 2>&1", cwd=os.path.join(wt, crate))
    fails = sorted(set(re.findall(r"^test (\S+) \.\.\. FAILED", out, re.M)))
    built = "test result:" in out
    return built, fails


def demo_rc(wt, k):
    d = os.path.join(wt, "out", k, "demo")
    if not os.path.isdir(d):
        return None, ""
    env_t = os.path.join(wt, "target-demo")
    rc, out = sh("CARGO_TARGET_DIR=%s cargo run --offline -q 2>&1" % env_t, cwd=d)
    return rc, "\n".join(out.splitlines()[-25:])


def main():
    wt, pid, first = sys.argv[1], sys.argv[2], int(sys.argv[3])
    benign_from = int(sys.argv[sys.argv.index("--benign-from") + 1]) if "--benign-from" in sys.argv else None
    outd = os.path.join(wt, "out")
    ks = sorted(k for k in os.listdir(outd) if os.path.exists(os.path.join(outd, k, "patch.diff")))
    breaking = [k for k in ks if k.isdigit()]
    benign = [k for k in ks if not k.isdigit()]
    sh("git checkout -- .", cwd=wt)
    base = {}
    res = []
    n = first
    for k in breaking:
        patch = os.path.join(outd, k, "patch.diff")
        sh("git checkout -- .", cwd=wt)
        rc0, o0 = demo_rc(wt, k)
        crates = crates_of(patch, wt)
        for c in crates:
            if c not in base:
                base[c] = failing(wt, c)
        rca, oa = sh("git apply %s" % patch, cwd=wt)
        if rca != 0:
            print("%s/%s: patch does not apply: %s" % (pid, k, oa[:200]))
            continue
        after = {c: failing(wt, c) for c in crates}
        rc1, o1 = demo_rc(wt, k)
        sh("git checkout -- .", cwd=wt)
        same = all(after[c][0] and after[c][1] == base[c][1] for c in crates)
        ok = rc0 == 0 and rc1 not in (0, None) and same
        print("%s change %s: demo pristine rc=%s changed rc=%s; crates %s; failing tests unchanged=%s -> %s" % (pid, k, rc0, rc1, crates, same, "CONFIRMED" if ok else "REJECTED"))
        if not ok:
            print(o1[-600:])
            continue
        name = "%s-%d" % (pid, n)
        n += 1
        dst = os.path.join(VERIF, "seeded", name)
        if os.path.exists(dst):
            shutil.rmtree(dst)
        os.makedirs(dst)
        shutil.copy(patch, os.path.join(dst, "patch.diff"))
        shutil.copytree(os.path.join(outd, k, "demo"), os.path.join(dst, "demo"), ignore=shutil.ignore_patterns("target", "target-demo"))
        notes = os.path.join(outd, k, "notes.md")
        if os.path.exists(notes):
            shutil.copy(notes, os.path.join(dst, "demo", "NOTES.md"))
        summary = ""
        if os.path.exists(notes):
            txt = open(notes).read()
            summary = " ".join(txt.split("\n\n")[1].split())[:500] if "\n\n" in txt else txt[:300]
        meta = {"property": pid, "summary": summary, "files": sorted(set(re.findall(r"^diff --git a/(\S+) b/", open(patch).read(), re.M))),
                "tests_pass": True, "demo_pristine": "exit 0", "demo_changed": "exit %s: %s" % (rc1, " | ".join(o1.strip().splitlines()[-4:])[:700]),
                "round": int(os.environ.get("ROUND", "12")), "caught_by": [], "expect": [pid],
                "confirmed": {"how": "patch applied in a scratch worktree; `cargo test --offline --no-fail-fast` in every touched crate fails exactly the tests that fail on the pristine tree; the demonstration exits non-zero on the changed tree and 0 on the pristine tree",
                              "touched_crates": crates, "failing_tests_pristine": {c: base[c][1] for c in crates}, "failing_tests_changed": {c: after[c][1] for c in crates},
                              "demo_changed_rc": rc1, "demo_pristine_rc": rc0}}
        json.dump(meta, open(os.path.join(dst, "meta.json"), "w"), indent=1)
        res.append(name)
    bn = benign_from
    for k in benign:
        if bn is None:
            break
        patch = os.path.join(outd, k, "patch.diff")
        sh("git checkout -- .", cwd=wt)
        crates = crates_of(patch, wt)
        for c in crates:
            if c not in base:
                base[c] = failing(wt, c)
        rca, oa = sh("git apply %s" % patch, cwd=wt)
        if rca != 0:
            print("%s/%s: patch does not apply" % (pid, k))
            continue
        after = {c: failing(wt, c) for c in crates}
        demos = {kk: demo_rc(wt, kk)[0] for kk in breaking}
        sh("git checkout -- .", cwd=wt)
        same = all(after[c][0] and after[c][1] == base[c][1] for c in crates)
        ok = same and all(v == 0 for v in demos.values())
        print("%s refactoring %s: crates %s failing tests unchanged=%s demos=%s -> %s" % (pid, k, crates, same, demos, "CONFIRMED" if ok else "REJECTED"))
        if not ok:
            continue
        name = "benign-%d" % bn
        bn += 1
        dst = os.path.join(VERIF, "seeded", name)
        if os.path.exists(dst):
            shutil.rmtree(dst)
        os.makedirs(dst)
        shutil.copy(patch, os.path.join(dst, "patch.diff"))
        notes = os.path.join(outd, k, "notes.md")
        txt = open(notes).read() if os.path.exists(notes) else ""
        if txt:
            open(os.path.join(dst, "NOTES.md"), "w").write(txt)
        meta = {"property": pid, "benign": True, "region_of": pid, "summary": " ".join(txt.split())[:500], "files": sorted(set(re.findall(r"^diff --git a/(\S+) b/", open(patch).read(), re.M))),
                "round": int(os.environ.get("ROUND", "12")), "expect": [], "caught_by": [],
                "confirmed": {"how": "patch applied in a scratch worktree; the touched crates' tests fail exactly the pristine set; every demonstration of the same round's breaking changes still exits 0 with the refactoring applied",
                              "touched_crates": crates, "demos": demos}}
        json.dump(meta, open(os.path.join(dst, "meta.json"), "w"), indent=1)
        res.append(name)
    print("imported:", res)


if __name__ == "__main__":
    main()
