//! Compile-time witnesses for C13 / C20 (run with `cargo +nightly test --doc`, thorough tier).
//! Every `compile_fail` witness has a compiling twin that differs only by the offending line,
//! so a witness cannot pass merely because a path is wrong.

/// The shared types are `Send + Sync` (compiles).
/// ```
/// fn assert_send_sync<T: Send + Sync>() {}
/// assert_send_sync::<dmntk_model_evaluator::ModelEvaluator>();
/// assert_send_sync::<dmntk_workspace::Workspace>();
/// assert_send_sync::<dmntk_feel::Evaluator>();
/// assert_send_sync::<dmntk_feel::values::Value>();
/// assert_send_sync::<dmntk_feel::context::FeelContext>();
/// ```
pub struct SharedTypesAreSendSync;

/// A `Scope` may move to another thread (compiles) ...
/// ```
/// fn assert_send<T: Send>() {}
/// assert_send::<dmntk_feel::Scope>();
/// ```
/// ... but must not be shared between threads.
/// ```compile_fail,E0277
/// fn assert_sync<T: Sync>() {}
/// assert_sync::<dmntk_feel::Scope>();
/// ```
pub struct ScopeIsSendNotSync;

/// An evaluator that captures nothing compiles ...
/// ```
/// use dmntk_feel::{Evaluator, Scope, values::Value};
/// let cached = Scope::default();
/// let ev: Evaluator = Box::new(move |_s: &Scope| Value::Boolean(true));
/// let _ = (ev, cached);
/// ```
/// ... an evaluator that caches a scope does not (`Fn + Sync` cannot hold a `RefCell`).
/// ```compile_fail,E0277
/// use dmntk_feel::{Evaluator, Scope, values::Value};
/// let cached = Scope::default();
/// let ev: Evaluator = Box::new(move |_s: &Scope| { let _ = &cached; Value::Boolean(true) });
/// let _ = ev;
/// ```
pub struct EvaluatorCannotCacheAScope;

/// Evaluation receives `&FeelContext`: reading compiles ...
/// ```
/// fn f(ctx: &dmntk_feel::context::FeelContext) -> usize { ctx.len() }
/// let _ = f;
/// ```
/// ... writing through it does not.
/// ```compile_fail,E0596
/// fn f(ctx: &dmntk_feel::context::FeelContext) { ctx.set_entry(&"a".into(), dmntk_feel::values::Value::Boolean(true)); }
/// let _ = f;
/// ```
pub struct InputContextIsImmutable;

/// A shared evaluator can be handed to another thread (compiles) ...
/// ```
/// fn spawnable<T: Send + 'static>(_: T) {}
/// fn f(m: std::sync::Arc<dmntk_model_evaluator::ModelEvaluator>) { spawnable(m); }
/// let _ = f;
/// ```
/// ... a reference-counted scope cannot.
/// ```compile_fail,E0277
/// fn spawnable<T: Send + 'static>(_: T) {}
/// fn f(m: std::sync::Arc<dmntk_feel::Scope>) { spawnable(m); }
/// let _ = f;
/// ```
pub struct ArcOfEvaluatorCrossesThreads;
