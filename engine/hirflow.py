#!/usr/bin/env python3
"""Small abstract interpreter over type-checked HIR trees: provenance of call arguments.

Descriptors (tuples):
  ("pos", i)            parameters[i] of a positional built-in wrapper
  ("pos_slice", i)      &parameters[i..]
  ("params",)           the whole parameter slice / named-parameter value
  ("param", STATIC)     get_param(parameters, &STATIC)  (an Option<(value, position)>)
  ("name", STATIC)      the value bound from a named parameter
  ("tuple", [d...])     a.zip(b) / tuple expression
  ("unwrap", ctor, d)   payload bound by pattern ctor(..) from d
  ("null",)             Value::Null(..)
  ("lit", v)            literal
  ("call", callee, [d]) any other call
  ("expr", kind)        anything else
Path conditions are recorded as a tuple of (descriptor of tested expression, pattern ctor paths, taken?).
"""
from facts import strip


class Flow:
    def __init__(self, fn_hir, first_param_desc=None, on_call=None, param_descs=None, inline=None, init_cond=(), _stack=()):
        """inline: optional function callee_name -> HIR of a helper to expand at its call sites (its calls, operators, assignments and returns are
        recorded with the helper's parameters bound to the actual argument descriptors and under the call's path conditions), so that rules see
        through `extract function` refactorings. Expanded helpers' returns go to `helper_returns`, not to `returns`."""
        self.h = fn_hir
        self.calls = []   # (callee, [arg desc], path conditions, line, node)
        self.ops = []     # overloaded operators resolved to a trait method: same shape as calls
        self.assigns = []  # (target desc, value desc, conditions at the assignment, conditions on entry of the enclosing block, line)
        self.returns = []
        self.helper_returns = []   # returns of expanded helpers: (desc, cond, line, helper name)
        self.on_call = on_call
        self.inline = inline
        self._stack = _stack
        env = {}
        for i, p in enumerate(fn_hir.get("params", [])):
            if p.get("k") == "Bind":
                if param_descs is not None and i < len(param_descs):
                    env[p["name"]] = param_descs[i]
                else:
                    env[p["name"]] = ("arg", i) if not (i == 0 and first_param_desc) else first_param_desc
        self.visit(fn_hir["body"], env, tuple(init_cond), True)

    def expand(self, callee, argdescs, cond):
        """expand a helper at a call site; returns the descriptor of its result (when unique) or None"""
        if not self.inline or not callee or callee in self._stack or len(self._stack) >= 3:
            return None
        hh = self.inline(callee)
        if hh is None or hh is self.h:
            return None
        sub = Flow(hh, param_descs=argdescs, inline=self.inline, init_cond=cond, _stack=self._stack + (callee,))
        self.calls += sub.calls
        self.ops += sub.ops
        self.assigns += sub.assigns
        self.helper_returns += [(d, c, l, callee) for d, c, l in sub.returns] + sub.helper_returns
        ds = []
        for d, c, l in sub.returns:
            if d not in ds:
                ds.append(d)
        if len(ds) == 1:
            return ds[0]
        return ("alt", ds) if ds else None

    # -- expression descriptor ------------------------------------------------
    def desc(self, e, env):
        e = strip(e)
        k = e.get("k")
        if k == "Path":
            if e.get("res") == "local":
                return env.get(e["name"], ("local", e["name"]))
            if "Ctor" in (e.get("dk") or ""):
                return ("ctor", e.get("path"))
            return ("def", e.get("path"))
        if k == "Lit":
            return ("lit", e.get("v"))
        if k == "Index":
            a = self.desc(e["a"], env)
            b = strip(e["b"])
            if a in (("params",),) or (a and a[0] == "arg"):
                if b.get("k") == "Lit":
                    return ("pos", b["v"]) if a == ("params",) else ("index", a, b["v"])
                if b.get("k") == "Struct" and "Range" in (b.get("path") or ""):
                    for f in b["fields"]:
                        if f["name"] == "start" and strip(f["e"]).get("k") == "Lit":
                            return ("pos_slice", strip(f["e"])["v"]) if a == ("params",) else ("slice", a, strip(f["e"])["v"])
            return ("index", a, self.desc(e["b"], env))
        if k == "Call":
            callee = e.get("callee")
            args = [self.desc(x, env) for x in e.get("args", [])]
            if callee is None:
                # call of a local closure / function value: keep the identity of the callee expression
                fd = self.desc(e["f"], env) if "f" in e else None
                return ("call", None, args, fd)
            if callee.endswith("IntoIterator::into_iter") and len(args) == 1:
                return args[0]
            if callee.endswith("Iterator::next") and len(args) == 1:
                return ("elem", args[0])
            if callee.endswith("::get_param") and len(e["args"]) == 2:
                st = strip(e["args"][1])
                if st.get("k") == "Path" and st.get("res") == "def":
                    return ("param", st["path"])
            if "Ctor" in (e.get("dk") or ""):
                if callee.endswith("values::Value::Null"):
                    return ("null",)
                return ("ctor", callee, args)
            if self.inline and callee not in self._stack and len(self._stack) < 3:
                hh = self.inline(callee)
                if hh is not None and hh is not self.h:
                    sub = Flow(hh, param_descs=args, inline=self.inline, _stack=self._stack + (callee,))
                    ds = []
                    for d, c, l in sub.returns:
                        if d not in ds:
                            ds.append(d)
                    if len(ds) == 1:
                        return ds[0]
                    if ds:
                        return ("alt", ds)
            return ("call", callee, args)
        if k == "MethodCall":
            callee = e.get("callee") or e.get("method")
            recv = self.desc(e["recv"], env)
            args = [self.desc(x, env) for x in e.get("args", [])]
            m = e.get("method")
            if m == "zip" and len(args) == 1:
                return ("tuple", [recv, args[0]])
            if m in ("as_vec", "as_ref", "clone", "to_owned", "borrow", "deref", "as_slice", "iter", "iter_mut", "into_iter", "as_mut", "borrow_mut"):
                return ("via", m, recv)
            if m == "enumerate" and not args:
                return ("enum", recv)
            return ("call", callee, [recv] + args)
        if k == "Tup":
            return ("tuple", [self.desc(x, env) for x in e["es"]])
        if k == "Field":
            return ("field", e["name"], self.desc(e["e"], env))
        if k == "Closure":
            free = []
            from facts import find_hir
            for n, _ in find_hir(e["body"], lambda n: n.get("k") == "Path" and n.get("res") == "local"):
                if n["name"] in env and env[n["name"]] not in free:
                    free.append(env[n["name"]])
            return ("closure", e.get("name"), free)
        if k == "Match":
            d = self.desc(e["e"], env)
            parts = []
            for arm in e["arms"]:
                aenv = dict(env)
                self.bind(arm["p"], d, aenv)
                if "g" in arm:
                    parts.append(self.desc(arm["g"], aenv))
            return ("match", d, parts)
        if k == "Unary":
            return ("un", e.get("op"), self.desc(e["a"], env))
        if k == "Binary":
            return ("bin", e.get("op"), self.desc(e["a"], env), self.desc(e["b"], env))
        return ("expr", k)

    # -- pattern binding ---------------------------------------------------------
    def bind(self, p, d, env):
        k = p.get("k")
        if k == "Bind":
            env[p["name"]] = d
            if "sub" in p:
                self.bind(p["sub"], d, env)
        elif k == "Ref" or k == "Guard":
            self.bind(p["p"], d, env)
        elif k == "TupleStruct":
            path = p.get("path", "")
            if path.endswith("Option::Some") or path.endswith("Result::Ok"):
                for s in p["ps"]:
                    self.bind(s, d, env)
            else:
                for i, s in enumerate(p["ps"]):
                    self.bind(s, ("unwrap", path, d, i), env)
        elif k == "Tuple":
            ps = p["ps"]
            if d and d[0] == "param" and len(ps) == 2:
                self.bind(ps[0], ("name", d[1]), env)
                self.bind(ps[1], ("name_position", d[1]), env)
            elif d and d[0] == "tuple" and len(d[1]) == len(ps):
                for s, x in zip(ps, d[1]):
                    self.bind(s, x, env)
            elif d and d[0] == "elem" and d[1] and d[1][0] == "tuple" and len(d[1][1]) == len(ps):
                # for (a, b) in xs.iter().zip(ys.iter()): a is an element of xs, b of ys
                for s, x in zip(ps, d[1][1]):
                    self.bind(s, ("elem", x), env)
            elif d and d[0] == "elem" and d[1] and d[1][0] == "enum" and len(ps) == 2:
                self.bind(ps[0], ("idx", d[1][1]), env)
                self.bind(ps[1], ("elem", d[1][1]), env)
            else:
                for i, s in enumerate(ps):
                    self.bind(s, ("proj", i, d), env)
        elif k == "Or":
            for s in p["ps"]:
                self.bind(s, d, env)
        elif k == "Struct":
            path = p.get("path", "")
            if path.endswith("Option::Some") or path.endswith("Result::Ok"):
                for f in p.get("fields", []):
                    self.bind(f["p"], d, env)
            else:
                for f in p.get("fields", []):
                    self.bind(f["p"], ("field", f["name"], d), env)
        elif k == "Slice":
            for i, s in enumerate(p.get("ps", [])):
                self.bind(s, ("pos", i) if d == ("params",) else ("index", d, i), env)

    @staticmethod
    def pat_ctors(p, out=None):
        if out is None:
            out = []
        if isinstance(p, dict):
            if p.get("k") in ("TupleStruct", "Struct", "Path") and "path" in p:
                out.append(p["path"])
            if p.get("k") == "Lit":
                out.append(("lit", p.get("v")))
            if p.get("k") == "Slice":
                out.append(("slice", len(p.get("ps", [])) + len(p.get("after", [])), bool(p.get("rest"))))
            for v in p.values():
                if isinstance(v, (dict, list)):
                    Flow.pat_ctors(v, out)
        elif isinstance(p, list):
            for x in p:
                Flow.pat_ctors(x, out)
        return out

    # -- statements / control flow ----------------------------------------------
    @staticmethod
    def diverges(e):
        """does evaluating e always leave the enclosing function/loop iteration (return / break / continue)?"""
        if e is None:
            return False
        k = e.get("k")
        if k in ("Ret", "Break", "Continue"):
            return True
        if k == "Block":
            st = e["b"].get("stmts", [])
            if e["b"].get("e") is not None:
                return Flow.diverges(e["b"]["e"])
            return bool(st) and Flow.diverges(st[-1])
        if k == "If":
            return "else" in e and Flow.diverges(e["then"]) and Flow.diverges(e["else"])
        return False

    def visit(self, e, env, cond, tail=False):
        """visits e for its calls; env is copied on branches; `tail` marks the expression whose value the function returns"""
        if e is None:
            return
        k = e.get("k")
        if tail and k not in ("Block", "If", "Match", "Ret"):
            self.returns.append((self.desc(e, env), cond, e.get("l")))
        if k == "Block":
            env = dict(env)
            entry_cond = cond
            for s in e["b"].get("stmts", []):
                if s.get("k") in ("Assign", "AssignOp") and isinstance(s.get("a"), dict):
                    lhs = strip(s["a"])
                    tgt = ("local", lhs["name"]) if lhs.get("k") == "Path" and lhs.get("res") == "local" else self.desc(s["a"], env)
                    self.assigns.append((tgt, self.desc(s["b"], env) if isinstance(s.get("b"), dict) else None, cond, entry_cond, s.get("l")))
                    self.visit(s, env, cond)
                    # a test made on the old value of the assigned place says nothing about the new one
                    if tgt and tgt[0] in ("field", "local", "arg", "index", "un"):
                        key = repr(tgt)
                        cond = tuple(c for c in cond if key not in repr(c[0]))
                    continue
                if s.get("k") == "LetStmt":
                    if "e" in s:
                        self.visit(s["e"], env, cond)
                        self.bind(s["p"], self.desc(s["e"], env), env)
                    if "else" in s:
                        self.visit({"k": "Block", "b": s["else"]}, env, cond)
                else:
                    self.visit(s, env, cond)
                    # `if c { return .. }` : what follows runs under not(c)
                    if s.get("k") == "If" and "else" not in s and self.diverges(s["then"]):
                        c = s["c"]
                        cc = strip(c) if c.get("k") != "Let" else c
                        if cc.get("k") == "Let":
                            cond = cond + ((self.desc(cc["e"], env), tuple(self.pat_ctors(cc["p"])), False),)
                        else:
                            cond = cond + ((self.desc(c, env), ("true",), False),)
            if e["b"].get("e") is not None:
                self.visit(e["b"]["e"], env, cond, tail)
        elif k == "If":
            c = e["c"]
            tenv = dict(env)
            tcond, fcond = cond, cond
            cc = strip(c) if c.get("k") != "Let" else c
            if cc.get("k") == "Let":
                self.visit(cc["e"], env, cond)
                d = self.desc(cc["e"], env)
                self.bind(cc["p"], d, tenv)
                ct = tuple(self.pat_ctors(cc["p"]))
                tcond = cond + ((d, ct, True),)
                fcond = cond + ((d, ct, False),)
            else:
                self.visit(c, env, cond)
                d = self.desc(c, env)
                tcond = cond + ((d, ("true",), True),)
                fcond = cond + ((d, ("true",), False),)
            self.visit(e["then"], tenv, tcond, tail)
            if "else" in e:
                self.visit(e["else"], dict(env), fcond, tail)
        elif k == "Match":
            self.visit(e["e"], env, cond)
            d = self.desc(e["e"], env)
            if e.get("src") == "ForLoopDesugar" and e["arms"] and e["arms"][0]["p"].get("k") == "Bind":
                cond = cond + ((("loop-enter", e.get("l")), (), True),)
            prev = ()
            guarded = []          # (constructor set, guard descriptor) of the earlier guarded arms
            for arm in e["arms"]:
                aenv = dict(env)
                self.bind(arm["p"], d, aenv)
                pc = tuple(self.pat_ctors(arm["p"]))
                # an arm is reached only if the earlier unguarded arms did not match ...
                acond = cond + prev + ((d, pc, True),)
                # ... and if the guard of every earlier arm with the same constructors was false (the bindings of the two patterns denote the same parts of the scrutinee)
                for gpc, gd in guarded:
                    if (gpc == pc and pc) or gpc == ("irrefutable",):
                        acond = acond + ((gd, ("true",), False),)
                if e.get("src") == "ForLoopDesugar":
                    acond = cond
                elif "g" not in arm and pc:
                    prev = prev + ((d, pc, False),)
                if "g" in arm:
                    self.visit(arm["g"], aenv, acond)
                    gd = self.desc(arm["g"], aenv)
                    # `_ if guard => ..` (a pattern without constructors and bindings): every later arm runs under the negated guard
                    guarded.append((("irrefutable",) if arm["p"].get("k") == "Wild" else pc, gd))
                    acond = acond + ((gd, ("true",), True),)        # the body of a guarded arm runs under its guard
                self.visit(arm["b"], aenv, acond, tail)
        elif k == "Call":
            for x in e.get("args", []):
                self.visit(x, env, cond)
            if "f" in e:
                self.visit(e["f"], env, cond)
            ad = [self.desc(x, env) for x in e.get("args", [])]
            callee = e.get("callee")
            if callee is None and "f" in e:
                # a call through a function value: when the value is a function item (passed down as an argument of an expanded helper), it is that function
                fd = self.desc(e["f"], env)
                if isinstance(fd, tuple) and len(fd) == 2 and fd[0] == "def" and isinstance(fd[1], str):
                    callee = fd[1]
            self.calls.append((callee, ad, cond, e.get("l"), e))
            self.expand(callee, ad, cond)
        elif k == "MethodCall":
            self.visit(e["recv"], env, cond)
            acond = cond
            if e.get("method") in ("then", "then_some") and (e.get("callee") or "").startswith("core::bool::"):
                # `test.then(|| value)` / `test.then_some(value)`: the value is produced (resp. kept) only when the test holds
                acond = cond + ((self.desc(e["recv"], env), ("true",), True),)
            item_wise = e.get("method") in ("all", "any", "map", "for_each", "filter", "find", "position", "filter_map", "find_map", "try_for_each", "take_while",
                                             "skip_while", "inspect", "flat_map", "map_while") and "Iterator" in (e.get("callee") or "")
            for x in e.get("args", []):
                if item_wise and x.get("k") == "Closure" and len(x.get("params", [])) == 1:
                    # the closure of an item-wise adaptor is the body of a loop over the receiver: its parameter is an element of the iterated collection(s),
                    # and it is not evaluated at all for an empty collection
                    cenv = dict(env)
                    self.bind(x["params"][0], ("elem", self.desc(e["recv"], env)), cenv)
                    self.visit(x["body"], cenv, acond + ((("loop-enter", x.get("l")), (), True),))
                    continue
                self.visit(x, env, acond)
            ad = [self.desc(e["recv"], env)] + [self.desc(x, env) for x in e.get("args", [])]
            self.calls.append((e.get("callee") or e.get("method"), ad, cond, e.get("l"), e))
            self.expand(e.get("callee"), ad, cond)
        elif k == "Ret":
            if "e" in e:
                self.visit(e["e"], env, cond)
            self.returns.append((self.desc(e["e"], env) if "e" in e else None, cond, e.get("l")))
        elif k == "Closure":
            cenv = dict(env)
            for p in e.get("params", []):
                self.bind(p, ("closure_arg",), cenv)
            self.visit(e["body"], cenv, cond)
        elif k == "Loop":
            if e.get("src") != "ForLoop":
                cond = cond + ((("loop-enter", e.get("l")), (), True),)
            self.visit({"k": "Block", "b": e["b"]}, env, cond)
        elif k == "Let":
            self.visit(e["e"], env, cond)
        else:
            if k in ("Binary", "AssignOp", "Unary") and e.get("callee"):
                self.ops.append((e["callee"], [self.desc(e[x], env) for x in ("a", "b") if x in e], cond, e.get("l"), e))
            for key in ("e", "a", "b", "c", "then", "else", "base"):
                v = e.get(key)
                if isinstance(v, dict) and "k" in v:
                    self.visit(v, env, cond)
            for key in ("es", "args"):
                for v in e.get(key, []) or []:
                    self.visit(v, env, cond)
            for f in e.get("fields", []) or []:
                if isinstance(f, dict) and "e" in f:
                    self.visit(f["e"], env, cond)


def emptiness(cond_entry):
    """What a path-condition entry says about the tested collection: 'empty', 'nonempty' or None.
    Recognised idioms: c.is_empty(); c.len() ==/!=/>/>=/</<= 0|1; c.first()/last()/get(0)/pop()/iter().next() matched against Some/None;
    slice patterns [] / [x] / [x, ..].  Returns (verdict, descriptor of the collection)."""
    d, pats, taken = cond_entry

    def base(x):
        while isinstance(x, tuple) and x and x[0] == "via":
            x = x[2]
        return x
    d = base(d)
    if isinstance(d, tuple) and d and d[0] == "un" and d[1] == "!":
        v = emptiness((d[2], pats, not taken))
        return v
    if isinstance(d, tuple) and d and d[0] == "call" and isinstance(d[1], str):
        nm = d[1].split("::")[-1]
        coll = base(d[2][0]) if d[2] else None
        if nm == "is_empty" and pats == ("true",):
            return ("empty" if taken else "nonempty", coll)
        if nm in ("first", "last", "pop", "next", "first_mut", "last_mut", "split_first", "split_last"):
            some = any(isinstance(c, str) and c.endswith("Option::Some") for c in pats)
            none = any(isinstance(c, str) and c.endswith("Option::None") for c in pats)
            if some and not none:
                return ("nonempty" if taken else "empty", coll)
            if none and not some:
                return ("empty" if taken else "nonempty", coll)
    if isinstance(d, tuple) and d and d[0] == "bin" and pats == ("true",):
        op, a, b = d[1], base(d[2]), base(d[3])
        flip = {"<": ">", ">": "<", "<=": ">=", ">=": "<=", "==": "==", "!=": "!="}
        for x, y, o in ((a, b, op), (b, a, flip.get(op))):
            if isinstance(x, tuple) and x and x[0] == "call" and isinstance(x[1], str) and x[1].split("::")[-1] == "len" and isinstance(y, tuple) and y and y[0] == "lit" and o:
                try:
                    k = int(y[1])
                except (TypeError, ValueError):
                    continue
                coll = base(x[2][0]) if x[2] else None
                # truth of (len o k) when taken; decide emptiness when it is implied
                if not taken:
                    o = {"<": ">=", ">": "<=", "<=": ">", ">=": "<", "==": "!=", "!=": "=="}[o]
                if (o == "==" and k == 0) or (o == "<" and k == 1) or (o == "<=" and k == 0):
                    return ("empty", coll)
                if (o == "!=" and k == 0) or (o == ">" and k >= 0) or (o == ">=" and k >= 1) or (o == "==" and k >= 1):
                    return ("nonempty", coll)
    for c in pats:
        if isinstance(c, tuple) and c and c[0] == "slice" and taken:
            if c[1] == 0 and not c[2]:
                return ("empty", d)
            if c[1] >= 1:
                return ("nonempty", d)
    return (None, None)
