#!/usr/bin/env python3
"""Fact base loader: MIR bodies, HIR trees and items of all workspace crates, stitched by name."""
import json
import os

LIB_CRATES = [
    "dmntk_common", "dmntk_feel_number", "dmntk_feel", "dmntk_feel_grammar", "dmntk_feel_parser",
    "dmntk_feel_evaluator", "dmntk_model", "dmntk_model_evaluator", "dmntk_recognizer",
    "dmntk_workspace", "dmntk_server", "dmntk_evaluator", "dmntk_examples", "dmntk_gendoc",
]


class Facts:
    def __init__(self, d, crates=None):
        self.dir = d
        self.crates = {}
        self.bodies = {}      # name -> MIR body (dict), with '_crate'
        self.hir = {}         # name -> HIR item
        self.adts = {}
        self.statics = {}
        self.foreign = {}
        self.impls = []
        self.consts = {}
        self.closures = {}
        self.fns = {}
        for f in sorted(os.listdir(d)):
            if not f.endswith(".json") or f == "c_facts.json":
                continue
            cname = f.split(".")[0]
            if crates is not None and cname not in crates:
                continue
            with open(os.path.join(d, f)) as fh:
                c = json.load(fh)
            key = f[:-5]
            self.crates[key] = c
            for b in c["bodies"]:
                b["_crate"] = key
                self.bodies[b["name"]] = b
            for h in c["hir"]:
                h["_crate"] = key
                self.hir[h["name"]] = h
            for a in c["adts"]:
                a["_crate"] = key
                self.adts[a["name"]] = a
            for s in c["statics"]:
                s["_crate"] = key
                self.statics[s["name"]] = s
            for s in c["foreign"]:
                s["_crate"] = key
                self.foreign[s["name"]] = s
            for s in c["impls"]:
                s["_crate"] = key
                self.impls.append(s)
            for s in c["consts"]:
                s["_crate"] = key
                self.consts[s["name"]] = s
            for s in c["closures"]:
                s["_crate"] = key
                self.closures[s["name"]] = s
            for s in c["fns"]:
                s["_crate"] = key
                self.fns[s["name"]] = s
        cf = os.path.join(d, "c_facts.json")
        self.c = json.load(open(cf)) if os.path.exists(cf) else None

    def ty(self, owner, idx):
        """type string of an interned type index of the crate owning `owner` (a body / hir item / dict with _crate)"""
        if idx is None:
            return None
        return self.crates[owner["_crate"]]["types"][idx]

    def body_calls(self, b):
        """yield (block index, call dict) for every call terminator"""
        for i, bl in enumerate(b["blocks"]):
            t = bl["t"]
            if t[0] == "call":
                yield i, t[1]

    def hir_fn(self, name):
        h = self.hir.get(name)
        if h is None:
            raise KeyError("anchor function not found in the fact base: %s" % name)
        return h


def walk_hir(n, fn, parents=()):
    """pre-order walk over a HIR JSON tree; fn(node, parents) may return False to prune"""
    if isinstance(n, dict):
        if "k" in n:
            if fn(n, parents) is False:
                return
            parents = parents + (n,)
        for k, v in n.items():
            if k in ("_crate",):
                continue
            if isinstance(v, (dict, list)):
                walk_hir(v, fn, parents)
    elif isinstance(n, list):
        for x in n:
            walk_hir(x, fn, parents)


def find_hir(n, pred):
    out = []

    def f(x, parents):
        if pred(x):
            out.append((x, parents))
    walk_hir(n, f)
    return out


def strip(n):
    """strip transparent wrappers: blocks with only a tail expression, & and * and casts"""
    while isinstance(n, dict):
        k = n.get("k")
        if k == "Block" and not n["b"].get("stmts") and n["b"].get("e") is not None:
            n = n["b"]["e"]
        elif k in ("AddrOf", "Cast"):
            n = n["e"]
        elif k == "Unary" and n.get("op") == "*":
            n = n["a"]
        else:
            break
    return n


def pat_paths(p, out=None):
    """all resolved constructor paths mentioned in a pattern"""
    if out is None:
        out = []
    if isinstance(p, dict):
        if p.get("res") == "def" and "path" in p:
            out.append(p["path"])
        for v in p.values():
            if isinstance(v, (dict, list)):
                pat_paths(v, out)
    elif isinstance(p, list):
        for x in p:
            pat_paths(x, out)
    return out
