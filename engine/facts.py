#!/usr/bin/env python3
"""Fact base loader: MIR bodies, HIR trees and items of all workspace crates, stitched by name."""
import json
import os

LIB_CRATES = [
    "dmntk_common", "dmntk_feel_number", "dmntk_feel", "dmntk_feel_grammar", "dmntk_feel_parser",
    "dmntk_feel_evaluator", "dmntk_model", "dmntk_model_evaluator", "dmntk_recognizer",
    "dmntk_workspace", "dmntk_server", "dmntk_evaluator", "dmntk_examples", "dmntk_gendoc",
]


VERIF = os.path.dirname(os.path.dirname(os.path.abspath(__file__)))
PINNED_ITEMS = os.path.join(VERIF, "tables", "item_paths.json")
IDENT_END = r"(?![A-Za-z0-9_])"


def item_names(c):
    """(type paths, function / constant / static paths) defined by one crate's fact file"""
    adts = {a["name"] for a in c.get("adts", [])}
    fns = {b["name"] for b in c.get("bodies", []) if "{closure" not in b["name"]} | {h["name"] for h in c.get("hir", []) if "{closure" not in h["name"]}
    fns |= {x["name"] for k in ("statics", "consts") for x in c.get(k, [])}
    return adts, fns


def fn_sigs(c):
    """{function path: 'return type|argument types'} of one crate's bodies (closures excluded)"""
    out = {}
    for b in c.get("bodies", []):
        if "{closure" in b["name"] or b.get("kind") == "closure":
            continue
        out[b["name"]] = "|".join(c["types"][t] for t in b["locals"][:b["argc"] + 1])
    return out


def compute_aliases(d):
    """Items that moved to another module since the pinned tree: {current path: pinned path}.  The rules name their anchors by the paths of the pinned
    tree; a type or function that is found under a new module path, while the pinned path has disappeared and crate, (type and) simple name are the same
    and unique, is the same anchor - its facts are presented under the pinned path.  Cached in the fact directory (one per tree digest)."""
    import re
    cache = os.path.join(d, "aliases.json")
    if os.path.exists(cache) and (not os.path.exists(PINNED_ITEMS) or os.path.getmtime(cache) >= os.path.getmtime(PINNED_ITEMS)):
        try:
            return json.load(open(cache))
        except (OSError, ValueError):
            pass                      # being written by a concurrent check: recompute
    if not os.path.exists(PINNED_ITEMS):
        return {}
    pinned = json.load(open(PINNED_ITEMS))
    pin_adts, pin_fns = set(pinned["adts"]), set(pinned["fns"])
    cur_adts, cur_fns, cur_sigs = set(), set(), {}
    for f in sorted(os.listdir(d)):
        if f.endswith(".json") and f not in ("c_facts.json", "aliases.json") and ".tmp" not in f:
            cj = json.load(open(os.path.join(d, f)))
            a, b = item_names(cj)
            cur_adts |= a
            cur_fns |= b
            cur_sigs.update(fn_sigs(cj))
    aliases = {}

    def tail(n):
        segs = n.split("::")
        return (segs[0], tuple(segs[-2:]) if len(segs) > 2 and segs[-2][:1].isupper() else (segs[-1],))
    gone = {}
    for q in pin_adts - cur_adts:
        gone.setdefault((q.split("::")[0], q.split("::")[-1]), []).append(q)
    for p_ in sorted(cur_adts - pin_adts):
        c = gone.get((p_.split("::")[0], p_.split("::")[-1]), [])
        if len(c) == 1 and len([x for x in cur_adts - pin_adts if x.split("::")[-1] == p_.split("::")[-1] and x.split("::")[0] == p_.split("::")[0]]) == 1:
            aliases[p_] = c[0]

    def apply(n):
        for a, b in aliases.items():
            if a in n:
                n = re.sub(re.escape(a) + IDENT_END, b, n)
        return n
    cur2 = {apply(n) for n in cur_fns}
    gone = {}
    for q in pin_fns - cur2:
        if not q.startswith("<"):
            gone.setdefault(tail(q), []).append(q)
    new = [n for n in cur2 - pin_fns if not n.startswith("<")]
    fa = {}
    for p_ in sorted(new):
        c = gone.get(tail(p_), [])
        if len(c) == 1 and len([x for x in new if tail(x) == tail(p_)]) == 1:
            fa[p_] = c[0]
    # a function alias is stated on the current spelling (before type aliasing), so that one pass over the text suffices
    inv = {}
    for n in cur_fns:
        inv.setdefault(apply(n), n)
    for p_, q in fa.items():
        aliases[inv.get(p_, p_)] = q
    # renamed in place: in one parent (module or type) exactly one pinned function is gone and exactly one new function has its signature
    pin_sigs = pinned.get("sigs", {})
    done_new, done_gone = set(fa), set(fa.values())
    by_parent_gone, by_parent_new = {}, {}
    for q in pin_fns - cur2 - done_gone:
        if q in pin_sigs and not q.startswith("<"):
            by_parent_gone.setdefault((q.rsplit("::", 1)[0], pin_sigs[q]), []).append(q)
    for p_ in set(new) - done_new:
        n0 = inv.get(p_, p_)
        if n0 in cur_sigs:
            by_parent_new.setdefault((p_.rsplit("::", 1)[0], apply(cur_sigs[n0])), []).append(p_)
    for k, g in by_parent_gone.items():
        nw = by_parent_new.get(k, [])
        if len(g) == 1 and len(nw) == 1:
            aliases[inv.get(nw[0], nw[0])] = g[0]
    try:
        tmp = "%s.%d.tmp" % (cache, os.getpid())
        with open(tmp, "w") as fh:
            json.dump(aliases, fh, indent=1, sort_keys=True)
        os.replace(tmp, cache)        # atomic: concurrent checks of the same tree never see a partial file
    except OSError:
        pass
    return aliases


class Facts:
    def __init__(self, d, crates=None):
        import re
        self.dir = d
        self.crates = {}
        self.bodies = {}      # name -> MIR body (dict), with '_crate'
        self.hir = {}         # name -> HIR item
        self.adts = {}
        self.statics = {}
        self.foreign = {}
        self.impls = []
        self.consts = {}
        self.closures = {}
        self.fns = {}
        self.aliases = compute_aliases(d)
        alias_res = [(re.compile(re.escape(a) + IDENT_END), b) for a, b in sorted(self.aliases.items(), key=lambda kv: -len(kv[0]))]
        for f in sorted(os.listdir(d)):
            if not f.endswith(".json") or f in ("c_facts.json", "aliases.json") or ".tmp" in f:
                continue
            cname = f.split(".")[0]
            if crates is not None and cname not in crates:
                continue
            with open(os.path.join(d, f)) as fh:
                text = fh.read()
            for rx, b in alias_res:
                text = rx.sub(b.replace("\\", "\\\\"), text)
            c = json.loads(text)
            key = f[:-5]
            self.crates[key] = c
            for b in c["bodies"]:
                b["_crate"] = key
                self.bodies[b["name"]] = b
            for h in c["hir"]:
                h["_crate"] = key
                self.hir[h["name"]] = h
            for a in c["adts"]:
                a["_crate"] = key
                self.adts[a["name"]] = a
            for s in c["statics"]:
                s["_crate"] = key
                self.statics[s["name"]] = s
            for s in c["foreign"]:
                s["_crate"] = key
                self.foreign[s["name"]] = s
            for s in c["impls"]:
                s["_crate"] = key
                self.impls.append(s)
            for s in c["consts"]:
                s["_crate"] = key
                self.consts[s["name"]] = s
            for s in c["closures"]:
                s["_crate"] = key
                self.closures[s["name"]] = s
            for s in c["fns"]:
                s["_crate"] = key
                self.fns[s["name"]] = s
        cf = os.path.join(d, "c_facts.json")
        self.c = json.load(open(cf)) if os.path.exists(cf) else None

    def ty(self, owner, idx):
        """type string of an interned type index of the crate owning `owner` (a body / hir item / dict with _crate)"""
        if idx is None:
            return None
        return self.crates[owner["_crate"]]["types"][idx]

    def body_calls(self, b):
        """yield (block index, call dict) for every call terminator"""
        for i, bl in enumerate(b["blocks"]):
            t = bl["t"]
            if t[0] == "call":
                yield i, t[1]

    def hir_fn(self, name):
        h = self.hir.get(name)
        if h is None:
            raise KeyError("anchor function not found in the fact base: %s" % name)
        return h


def walk_hir(n, fn, parents=()):
    """pre-order walk over a HIR JSON tree; fn(node, parents) may return False to prune"""
    if isinstance(n, dict):
        if "k" in n:
            if fn(n, parents) is False:
                return
            parents = parents + (n,)
        for k, v in n.items():
            if k in ("_crate",):
                continue
            if isinstance(v, (dict, list)):
                walk_hir(v, fn, parents)
    elif isinstance(n, list):
        for x in n:
            walk_hir(x, fn, parents)


def find_hir(n, pred):
    out = []

    def f(x, parents):
        if pred(x):
            out.append((x, parents))
    walk_hir(n, f)
    return out


def strip(n):
    """strip transparent wrappers: blocks with only a tail expression, & and * and casts"""
    while isinstance(n, dict):
        k = n.get("k")
        if k == "Block" and not n["b"].get("stmts") and n["b"].get("e") is not None:
            n = n["b"]["e"]
        elif k in ("AddrOf", "Cast"):
            n = n["e"]
        elif k == "Unary" and n.get("op") == "*":
            n = n["a"]
        else:
            break
    return n


def pat_paths(p, out=None):
    """all resolved constructor paths mentioned in a pattern"""
    if out is None:
        out = []
    if isinstance(p, dict):
        if p.get("res") == "def" and "path" in p:
            out.append(p["path"])
        for v in p.values():
            if isinstance(v, (dict, list)):
                pat_paths(v, out)
    elif isinstance(p, list):
        for x in p:
            pat_paths(x, out)
    return out
