#!/usr/bin/env python3
"""Label propagation over MIR (flow-insensitive within a body, context-sensitive across local calls and closures).

Used by the wiring rules: "the identifier handed to evaluator X was taken from accessor Y".  Labels are born at *source* calls
(a predicate on the callee path), travel through assignments, references, aggregates (first-level fields are kept apart), containers
(`v.push(x)`: a `&mut` argument's referent receives the labels of the other arguments), iteration (`next(&mut it)` returns what the
iterator holds), calls of functions / closures of the analysed crates (their bodies are analysed with the labels of the actual
arguments / captured values) and are read at *sink* calls (callee predicate + argument index).

It over-approximates reachability of values (may-flow); rules built on it therefore only make statements of the form
"the sink can receive nothing but labels L" or "label l reaches sink s"."""
from collections import defaultdict

MAX_DEPTH = 8


def key_of(place):
    """(local, first field index | None); dereferences are looked through"""
    l = place[0]
    for p in place[1:]:
        if p == "*":
            continue
        if isinstance(p, list) and p and p[0] == "d":
            continue
        if isinstance(p, list) and p and p[0] == ".":
            return (l, p[1])
        break
    return (l, None)


class Taint:
    def __init__(self, F, is_source, is_sink, opaque=None, sanitiser=None, param_source=None, dest_sink=None, arg_source=None, call_source=None):
        """is_source(callee path) -> label | None;  is_sink(callee path) -> (sink name, [argument indexes]) | None;
        opaque(callee path) -> True when a local function must not be entered (its result carries the labels of its arguments)"""
        self.F = F
        self.is_source = is_source
        self.call_source = call_source        # fn(callee path, callee descriptor with `substs`) -> label | None: sources that depend on the generic arguments
        self.is_sink = is_sink
        self.opaque = opaque or (lambda p: False)
        self.sanitiser = sanitiser or (lambda p: False)       # calls through which no label travels (the callee only consults its arguments)
        self.param_source = param_source or (lambda name, i: None)   # label born at parameter i of body `name`
        self.arg_source = arg_source or (lambda p: None)       # (argument index, label): the referent of that `&mut` argument receives the label
        self.dest_sink = dest_sink or (lambda ty: None)        # sink name for calls whose result has that type (all arguments are read)
        self.sinks = defaultdict(set)         # (sink name, arg index) -> labels
        self.sink_sites = defaultdict(list)   # sink name -> [(function, line)]
        self.site_args = defaultdict(lambda: defaultdict(set))   # (sink name, function, line) -> {argument index: labels}
        self.memo = {}
        self.analysed = set()
        self.last_T = {}

    # ------------------------------------------------------------------
    def analyse(self, name, arg_labels=None, upvar_labels=None, depth=0):
        """returns (labels of the return value per first-level field {None|i: set}, labels that flowed into the referents of the arguments {param: set})"""
        b = self.F.bodies.get(name)
        if b is None or depth > MAX_DEPTH:
            return None
        arg_labels = arg_labels or {}
        upvar_labels = upvar_labels or {}
        mk = (name, tuple(sorted((k, tuple(sorted(v))) for k, v in arg_labels.items() if v)), tuple(sorted((k, tuple(sorted(v))) for k, v in upvar_labels.items() if v)))
        if mk in self.memo:
            return self.memo[mk]
        self.memo[mk] = ({}, {}, {})      # recursion: empty summary
        self.analysed.add(name)
        T = defaultdict(set)              # key -> labels
        pts = defaultdict(set)            # local -> keys it may point to
        clos = defaultdict(set)           # local -> closure names it may hold (or point to)
        clo_caps = {}                     # closure name -> list of captured operands (in this body)
        for i, ls in arg_labels.items():
            T[(i, None)] |= ls
        for i in range(1, b["argc"] + 1):
            lab0 = self.param_source(name, i)
            if lab0 is not None:
                T[(i, None)].add(lab0)
        for i, ls in upvar_labels.items():
            T[(1, i)] |= ls

        def read_key(k):
            out = set(T.get((k[0], None), ()))
            if k[1] is not None:
                out |= T.get(k, set())
            else:
                for kk in list(T):
                    if kk[0] == k[0]:
                        out |= T[kk]
            return out

        def read_place(place):
            k = key_of(place)
            out = read_key(k)
            # through a reference: what the referents hold
            for tk in pts.get(k[0], ()):
                out |= read_key((tk[0], k[1]) if tk[1] is None and k[1] is not None and "*" in place[1:] else tk)
            return out

        def read_op(op):
            if op[0] in ("C", "M"):
                return read_place(op[1])
            return set()

        def write_place(place, labels):
            if not labels:
                return False
            k = key_of(place)
            changed = False
            targets = [k]
            if place[1:] and place[1] == "*":
                targets = list(pts.get(k[0], ())) or [k]
            for t in targets:
                if not labels <= T[t]:
                    T[t] |= labels
                    changed = True
            return changed

        def apply_upback(cn, r):
            """labels that reached a captured reference's referent inside the closure arrive at that referent here"""
            ch = False
            for i, ls in (r[2] if len(r) > 2 else {}).items():
                caps = clo_caps.get(cn, [])
                if i < len(caps) and caps[i][0] in ("C", "M"):
                    for tk in pts.get(caps[i][1][0], ()):
                        if not ls <= T[tk]:
                            T[tk] |= ls
                            ch = True
            return ch

        blocks = b["blocks"]
        changed = True
        rounds = 0
        while changed and rounds < 12:
            changed = False
            rounds += 1
            for bl in blocks:
                for st in bl["s"]:
                    if st[0] != "A":
                        continue
                    dst, rv = st[1], st[2]
                    k = rv[0]
                    if k == "Ref" or k == "RawPtr":
                        src = rv[2]
                        sk = key_of(src)
                        if "*" in src[1:]:
                            new = set(pts.get(sk[0], ())) or {sk}
                        else:
                            new = {sk}
                        if len(dst) == 1 and not new <= pts[dst[0]]:
                            pts[dst[0]] |= new
                            changed = True
                        if len(dst) == 1 and not clos.get(sk[0], set()) <= clos[dst[0]]:
                            clos[dst[0]] |= clos[sk[0]]
                            changed = True
                        if len(dst) > 1:
                            changed |= write_place(dst, read_place(src))
                        elif "*" in src[1:]:
                            # a reborrow derives from the pointer it goes through: it carries that pointer's own labels
                            changed |= write_place(dst, read_key(sk))
                        continue
                    if k == "Agg":
                        kind = rv[1]
                        ops = rv[2]
                        if isinstance(kind, list) and kind and kind[0] == "closure":
                            clo_caps[kind[1]] = ops
                            if len(dst) == 1 and kind[1] not in clos[dst[0]]:
                                clos[dst[0]].add(kind[1])
                                changed = True
                        for i, op in enumerate(ops):
                            ls = read_op(op)
                            if len(dst) == 1:
                                if ls and not ls <= T[(dst[0], i)]:
                                    T[(dst[0], i)] |= ls
                                    changed = True
                                if op[0] in ("C", "M") and len(op[1]) == 1 and pts.get(op[1][0]):
                                    # a reference stored in an aggregate: remember the referents on the aggregate
                                    if not pts[op[1][0]] <= pts[dst[0]]:
                                        pts[dst[0]] |= pts[op[1][0]]
                                        changed = True
                            else:
                                changed |= write_place(dst, ls)
                        continue
                    ops = []
                    if k == "Use":
                        ops = [rv[1]]
                    elif k == "Cast":
                        ops = [rv[2]]
                    elif k in ("Bin",):
                        ops = [rv[2], rv[3]]
                    elif k == "Un":
                        ops = [rv[2]]
                    elif k in ("Disc", "Len", "CopyForDeref"):
                        ops = [["C", rv[1]]] if isinstance(rv[1], list) else []
                    elif k == "Repeat":
                        ops = [rv[1]] if len(rv) > 1 and isinstance(rv[1], list) else []
                    for op in ops:
                        if op and op[0] in ("C", "M"):
                            src = op[1]
                            sk = key_of(src)
                            ls = read_place(src)
                            if len(dst) == 1 and len(src) == 1:
                                # whole-local move: first-level fields travel with it
                                for kk in list(T):
                                    if kk[0] == src[0] and kk[1] is not None and not T[kk] <= T[(dst[0], kk[1])]:
                                        T[(dst[0], kk[1])] |= T[kk]
                                        changed = True
                                ls = set(T.get((src[0], None), ()))
                                for tk in pts.get(src[0], ()):
                                    pass
                            changed |= write_place(dst, ls)
                            if len(dst) == 1:
                                if 1 <= sk[0] <= b["argc"] and sk not in pts[dst[0]]:
                                    # a reference copied out of a parameter / captured variable: the slot stands for its referent
                                    pts[dst[0]].add(sk)
                                    changed = True
                                if pts.get(sk[0]) and not pts[sk[0]] <= pts[dst[0]]:
                                    pts[dst[0]] |= pts[sk[0]]
                                    changed = True
                                if clos.get(sk[0]) and not clos[sk[0]] <= clos[dst[0]]:
                                    clos[dst[0]] |= clos[sk[0]]
                                    changed = True
                t = bl["t"]
                if t[0] != "call":
                    continue
                c = t[1]
                p = c["f"].get("p") if isinstance(c.get("f"), dict) else None
                args = c.get("args", [])
                dest = c.get("dest")
                arg_ls = [read_op(a) for a in args]
                allin = set().union(*arg_ls) if arg_ls else set()
                lab = self.is_source(p) if p else None
                if lab is None and p and self.call_source is not None:
                    lab = self.call_source(p, c["f"])
                out = {None: set()}
                sk = self.is_sink(p) if p else None
                if sk is not None:
                    sname, idxs = sk
                    site = (name, c.get("line"))
                    if site not in self.sink_sites[sname]:
                        self.sink_sites[sname].append(site)
                    for i in idxs:
                        if i < len(arg_ls):
                            self.sinks[(sname, i)] |= arg_ls[i]
                            self.site_args[(sname,) + site][i] |= arg_ls[i]
                entered = False
                if dest and len(dest) == 1:
                    dsn = self.dest_sink(self.F.crates[b["_crate"]]["types"][b["locals"][dest[0]]])
                    if dsn is not None:
                        site = (name, c.get("line"))
                        if site not in self.sink_sites[dsn]:
                            self.sink_sites[dsn].append(site)
                        self.sinks[(dsn, 0)] |= allin
                asrc = self.arg_source(p) if p else None
                if asrc is not None and asrc[0] < len(args) and args[asrc[0]][0] in ("C", "M"):
                    labs = asrc[1](arg_ls) if callable(asrc[1]) else {asrc[1]}
                    for tk in pts.get(args[asrc[0]][1][0], ()):
                        if not labs <= T[tk]:
                            T[tk] |= labs
                            changed = True
                if p and self.sanitiser(p):
                    if lab is not None and dest:
                        changed |= write_place(dest, {lab})
                    continue
                if lab is not None:
                    out[None] = {lab}
                elif p and c["f"].get("local") and p in self.F.bodies and sk is None and not self.opaque(p):
                    if self.F.bodies[p].get("kind") == "closure" and p in clo_caps:
                        # a closure created in this body and called here directly (`let f = || ..; f()`): its environment is entered capture by capture,
                        # not as one argument carrying the union of everything it captures
                        up = {i: read_op(op) for i, op in enumerate(clo_caps[p])}
                        r = self.analyse(p, {i + 1: ls for i, ls in enumerate(arg_ls) if i >= 1}, up, depth + 1)
                    else:
                        r = self.analyse(p, {i + 1: ls for i, ls in enumerate(arg_ls)}, None, depth + 1)
                    if r is not None:
                        entered = True
                        ret, back = r[0], r[1]
                        out = {kk: set(v) for kk, v in ret.items()}
                        out.setdefault(None, set())
                        for i, ls in back.items():
                            if 0 < i <= len(args) and args[i - 1][0] in ("C", "M"):
                                for tk in pts.get(args[i - 1][1][0], ()):
                                    if not ls <= T[tk]:
                                        T[tk] |= ls
                                        changed = True
                if lab is None and not entered:
                    # a closure argument contributes what it *returns* (computed below), not what it merely captures
                    tys = self.F.crates[b["_crate"]]["types"]

                    def direct_closure(a):
                        if a[0] not in ("C", "M") or not any(cn in self.F.bodies for cn in clos.get(a[1][0], ())):
                            return False
                        ty = tys[b["locals"][a[1][0]]]
                        while ty.startswith("&"):
                            ty = ty[1:].lstrip()
                            if ty.startswith("mut "):
                                ty = ty[4:]
                            if ty.startswith("'"):
                                ty = ty.split(" ", 1)[1] if " " in ty else ty
                        return ty.startswith("{closure@")
                    is_clo = [direct_closure(a) for a in args]
                    plain = set().union(*[ls for j, ls in enumerate(arg_ls) if not is_clo[j]]) if arg_ls else set()
                    out[None] = set(plain)
                    if dest and len(dest) == 1:
                        for j, a in enumerate(args):
                            if is_clo[j] and not clos[a[1][0]] <= clos[dest[0]]:
                                clos[dest[0]] |= clos[a[1][0]]      # Box::new(closure), iterator adaptors: the result holds the closure
                                changed = True
                    # closures among the arguments are called by the callee with (something derived from) the other arguments
                    for ai, a in enumerate(args):
                        if a[0] not in ("C", "M"):
                            continue
                        for cn in clos.get(a[1][0], ()):
                            others = set().union(*[ls for j, ls in enumerate(arg_ls) if (j != ai or not is_clo[ai]) and not is_clo[j]]) if arg_ls else set()
                            r = self.enter_closure(cn, clo_caps, read_op, others, depth)
                            if r is not None:
                                changed |= apply_upback(cn, r)
                                out[None] |= r[0].get(None, set())
                                for kk, v in r[0].items():
                                    out[None] |= v
                    # a `&mut` argument's referent may receive what the other arguments carry (push / insert / extend / set_entry ...)
                    for ai, a in enumerate(args):
                        if a[0] in ("C", "M") and len(a[1]) == 1 and pts.get(a[1][0]):
                            ty = self.F.crates[b["_crate"]]["types"][b["locals"][a[1][0]]]
                            if ty.startswith("&mut") or ty.startswith("&'") and " mut " in ty[:16]:
                                others = (set().union(*[ls for j, ls in enumerate(arg_ls) if j != ai and not is_clo[j]]) if len(arg_ls) > 1 else set()) | (out[None] - plain)
                                for tk in pts[a[1][0]]:
                                    if others and not others <= T[tk]:
                                        T[tk] |= others
                                        changed = True
                if dest:
                    for kk, v in out.items():
                        if not v:
                            continue
                        if kk is None or len(dest) > 1:
                            changed |= write_place(dest, v)
                        elif not v <= T[(dest[0], kk)]:
                            T[(dest[0], kk)] |= v
                            changed = True
                    # references returned by a call may point into the referents of its reference arguments (iter(), deref(), as_ref() ...)
                    if len(dest) == 1 and not entered and lab is None:      # (the result of a source call is what the label names, nothing else)
                        for a in args:
                            if a[0] in ("C", "M") and pts.get(a[1][0]) and not pts[a[1][0]] <= pts[dest[0]] and not self.is_closure_ty(b, a[1][0]):
                                pts[dest[0]] |= pts[a[1][0]]
                                changed = True
            # closures created here and never called here (returned evaluators): analysed with what they capture
            for cn in list(clo_caps):
                r = self.enter_closure(cn, clo_caps, read_op, set(), depth)
                if r is not None:
                    changed |= apply_upback(cn, r)
        ret = defaultdict(set)
        for kk, v in T.items():
            if kk[0] == 0 and v:
                ret[kk[1]] |= v
        for tk in pts.get(0, ()):
            ret[None] |= T.get(tk, set())
        back = {}
        for i in range(1, b["argc"] + 1):
            ls = set()
            for kk, v in T.items():
                if kk[0] == i:
                    ls |= v
            ls -= arg_labels.get(i, set())
            if ls:
                back[i] = ls
        upback = {}
        if b.get("kind") == "closure":
            for kk, v in T.items():
                if kk[0] == 1 and kk[1] is not None:
                    ls = v - upvar_labels.get(kk[1], set())
                    if ls:
                        upback[kk[1]] = ls
        self.last_T[name] = (T, pts)
        self.memo[mk] = (dict(ret), back, upback)
        return self.memo[mk]

    def is_closure_ty(self, b, l):
        ty = self.F.crates[b["_crate"]]["types"][b["locals"][l]]
        return "{closure@" in ty[:24]

    def enter_closure(self, cn, clo_caps, read_op, param_labels, depth):
        cb = self.F.bodies.get(cn)
        if cb is None:
            return None
        caps = clo_caps.get(cn, [])
        up = {i: read_op(op) for i, op in enumerate(caps)}
        argl = {i: set(param_labels) for i in range(2, cb["argc"] + 1)} if param_labels else {}
        return self.analyse(cn, argl, up, depth + 1)
