#!/usr/bin/env python3
"""C-side facts for the decNumber library bundled in feel-number (clang AST, nothing is run).

* which files/defines build.rs compiles (read from build.rs' token stream: .file("...") / .define(..))
* header prototypes (JSON AST of a probe TU including the public headers)
* compile-time constants, sizeof/offsetof evaluated by clang inside a probe enum
* every variable with static storage duration in the compiled translation units
* the assignments of decContextDefault per `case`
"""
import json
import os
import re
import subprocess
import tempfile

CLANG = "clang"


def build_rs_config(repo):
    src = open(os.path.join(repo, "feel-number", "build.rs")).read()
    # strip comments
    src = re.sub(r"/\*.*?\*/", "", src, flags=re.S)
    src = re.sub(r"//[^\n]*", "", src)
    files = re.findall(r'\.file\(\s*"([^"]+)"\s*\)', src)
    defines = re.findall(r'\.define\(\s*"([^"]+)"', src)
    return files, defines


def run(cmd, cwd=None):
    r = subprocess.run(cmd, cwd=cwd, stdout=subprocess.PIPE, stderr=subprocess.PIPE, text=True)
    return r.returncode, r.stdout, r.stderr


def walk(n, fn, depth=0, parents=()):
    fn(n, parents)
    for c in n.get("inner", []) or []:
        walk(c, fn, depth + 1, parents + (n,))


def const_value(n):
    """integer value of a clang constant expression node if clang evaluated it"""
    if "value" in n and n.get("kind") in ("ConstantExpr", "IntegerLiteral"):
        try:
            return int(n["value"])
        except Exception:
            return None
    for c in n.get("inner", []) or []:
        v = const_value(c)
        if v is not None:
            return v
    return None


def extract(repo, out_path):
    dn = os.path.join(repo, "feel-number", "decnumber")
    files, defines = build_rs_config(repo)
    # build.rs: DECLITEND = 1 on little endian targets (this sandbox is x86_64)
    dflags = ["-DDECLITEND=1"] if "DECLITEND" in defines else []
    facts = {"compiled_files": files, "defines": defines, "static_vars": [], "functions": {}, "prototypes": {},
             "consts": {}, "layouts": {}, "context_default": {}, "errors": []}

    # 1. static-storage variables + function definitions per compiled TU (text AST, streamed)
    var_re = re.compile(r"^(?P<ind>[|`\- ]*)VarDecl 0x[0-9a-f]+ (?:prev 0x[0-9a-f]+ )?<(?P<loc>[^>]*)> (?:\S*:[0-9]+(?::[0-9]+)? )?(?P<rest>.*)$")
    fn_re = re.compile(r"^(?P<ind>[|`\- ]*)FunctionDecl 0x[0-9a-f]+ (?:prev 0x[0-9a-f]+ )?<(?P<loc>[^>]*)> (?:\S*:[0-9]+(?::[0-9]+)? )?(?P<rest>.*)$")
    for f in files:
        path = os.path.join(repo, "feel-number", f)
        rc, out, err = run([CLANG, "-fsyntax-only", "-fno-color-diagnostics", "-w"] + dflags + ["-Xclang", "-ast-dump", path])
        if rc != 0:
            facts["errors"].append("clang failed on %s: %s" % (f, err[-400:]))
            continue
        cur_fn = None
        for line in out.splitlines():
            m = fn_re.match(line)
            if m:
                rest = m.group("rest")
                mm = re.match(r"(?:implicit |used |referenced |invalid )*(\w+) '([^']*)'(.*)$", rest)
                if mm:
                    depth = len(m.group("ind"))
                    if depth <= 2:
                        cur_fn = mm.group(1)
                        facts["functions"].setdefault(cur_fn, {"tu": [], "type": mm.group(2)})
                        if f not in facts["functions"][cur_fn]["tu"]:
                            facts["functions"][cur_fn]["tu"].append(f)
                continue
            m = var_re.match(line)
            if m:
                depth = len(m.group("ind"))
                rest = m.group("rest")
                mm = re.match(r"(?:implicit |used |referenced |invalid )*(\w+) '([^']*)'(?::'([^']*)')?(.*)$", rest)
                if not mm:
                    continue
                name, ty, canon, tail = mm.group(1), mm.group(2), mm.group(3) or mm.group(2), mm.group(4)
                toplevel = depth <= 2
                is_static = bool(re.search(r"\bstatic\b", tail))
                is_extern = bool(re.search(r"\bextern\b", tail))
                if toplevel or is_static:
                    facts["static_vars"].append({
                        "tu": f, "name": name, "type": ty, "canon": canon, "toplevel": toplevel,
                        "static": is_static, "extern": is_extern, "in_function": None if toplevel else cur_fn,
                        "loc": m.group("loc"),
                    })

    # 2. decContextDefault: JSON AST of decContext.c (small)
    if "decnumber/decContext.c" in files:
        rc, out, err = run([CLANG, "-fsyntax-only", "-w"] + dflags + ["-Xclang", "-ast-dump=json", "-Xclang",
                           "-ast-dump-filter=decContextDefault", os.path.join(dn, "decContext.c")])
        # with a filter clang prints several JSON documents one after the other
        dec = json.JSONDecoder()
        pos = 0
        docs = []
        while pos < len(out):
            while pos < len(out) and out[pos] in " \r\n\t":
                pos += 1
            if pos >= len(out):
                break
            if out[pos] != "{":
                nl = out.find("\n", pos)
                pos = len(out) if nl < 0 else nl + 1
                continue
            obj, pos = dec.raw_decode(out, pos)
            docs.append(obj)
        for d in docs:
            if d.get("kind") == "FunctionDecl" and d.get("name") == "decContextDefault" and any(
                    c.get("kind") == "CompoundStmt" for c in d.get("inner", [])):
                facts["context_default"] = context_default(d)

    # 3. probe TU: prototypes + constants + layouts, as seen by decimal128.c (DECNUMDIGITS=34)
    os.makedirs(os.path.join(os.path.dirname(out_path)), exist_ok=True)
    with tempfile.TemporaryDirectory(dir=os.path.dirname(out_path)) as td:
        probe = os.path.join(td, "probe.c")
        names = sorted(set(re.findall(r"\b(DEC_[A-Za-z0-9_]+|DEC[A-Z0-9]+_[A-Za-z0-9_]+|DECDPUN|DECNUMDIGITS|DECNUMUNITS)\b",
                                      open(os.path.join(dn, "decContext.h")).read() + open(os.path.join(dn, "decQuad.h")).read()
                                      + open(os.path.join(dn, "decNumber.h")).read() + open(os.path.join(dn, "decimal128.h")).read())))
        with open(probe, "w") as fh:
            fh.write('#include <stddef.h>\n#include "%s"\n#include "%s"\n' % (os.path.join(dn, "decimal128.c"), os.path.join(dn, "decQuad.h")))
            for rec in ("decContext", "decNumber", "decQuad"):
                fh.write("enum { PROBE_SIZEOF_%s = sizeof(%s), PROBE_ALIGNOF_%s = _Alignof(%s) };\n" % (rec, rec, rec, rec))
        # which names are integer constant expressions? try them one by one in a batch, dropping failures
        good = []
        cand = list(names)
        body = open(probe).read()
        for _ in range(6):
            with open(probe, "w") as fh:
                fh.write(body)
                for i, n in enumerate(cand):
                    fh.write("#ifdef %s\nenum { PROBE_C_%s = (%s) };\n#else\nenum { PROBE_E_%s = (%s) };\n#endif\n" % (n, n, n, n, n))
            rc, out, err = run([CLANG, "-fsyntax-only", "-w"] + dflags + [probe])
            if rc == 0:
                good = cand
                break
            bad = set()
            for m in re.finditer(r"probe\.c:(\d+):\d+: error", err):
                ln = int(m.group(1))
                lines = open(probe).read().splitlines()
                mm = re.search(r"PROBE_[CE]_(\w+) =", lines[ln - 1])
                if mm:
                    bad.add(mm.group(1))
            if not bad:
                facts["errors"].append("probe failed: " + err[-400:])
                break
            cand = [c for c in cand if c not in bad]
        # record layouts by offsetof on the fields found in the JSON
        rc, out, err = run([CLANG, "-fsyntax-only", "-w"] + dflags + ["-Xclang", "-ast-dump=json", probe])
        if rc != 0:
            facts["errors"].append("probe dump failed: " + err[-400:])
        else:
            ast = json.loads(out)
            recs = {}
            typedefs = {}

            def visit(n, parents):
                k = n.get("kind")
                if k == "EnumConstantDecl" and n.get("name", "").startswith("PROBE_"):
                    v = const_value(n)
                    nm = n["name"]
                    if nm.startswith("PROBE_C_") or nm.startswith("PROBE_E_"):
                        facts["consts"][nm[8:]] = v
                    elif nm.startswith("PROBE_SIZEOF_"):
                        facts["layouts"].setdefault(nm[13:], {})["size"] = v
                    elif nm.startswith("PROBE_ALIGNOF_"):
                        facts["layouts"].setdefault(nm[14:], {})["align"] = v
                elif k == "EnumConstantDecl":
                    pass
                elif k == "RecordDecl" and n.get("completeDefinition"):
                    fields = []
                    for c in n.get("inner", []):
                        if c.get("kind") == "FieldDecl":
                            t = c.get("type", {})
                            fields.append({"name": c.get("name"), "type": t.get("qualType"), "canon": t.get("desugaredQualType", t.get("qualType"))})
                    recs[n.get("id")] = {"name": n.get("name"), "tag": n.get("tagUsed"), "fields": fields}
                elif k == "TypedefDecl":
                    t = n.get("type", {})
                    typedefs[n.get("name")] = t.get("desugaredQualType", t.get("qualType"))
                    # typedef struct {...} name;  -> link record to typedef name
                    for c in n.get("inner", []):
                        od = (c.get("ownedTagDecl") or {}).get("id") or ((c.get("inner") or [{}])[0].get("decl") or {}).get("id")
                        if od and od in recs:
                            recs[od]["typedef"] = n.get("name")
                elif k == "FunctionDecl" and n.get("name", "").startswith("dec"):
                    params = []
                    for c in n.get("inner", []):
                        if c.get("kind") == "ParmVarDecl":
                            t = c.get("type", {})
                            params.append({"type": t.get("qualType"), "canon": t.get("desugaredQualType", t.get("qualType"))})
                    facts["prototypes"].setdefault(n["name"], {"type": n.get("type", {}).get("qualType"), "params": params,
                                                               "variadic": bool(n.get("variadic"))})
            walk(ast, visit)
            facts["typedefs"] = {k: v for k, v in typedefs.items() if k in (
                "Int", "uInt", "uByte", "Short", "uShort", "Long", "uLong", "Flag", "decNumberUnit", "int32_t", "uint32_t", "uint8_t", "uint16_t",
                "decQuad", "decNumber", "decContext", "decimal128")}
            # enum values of `enum rounding`, via evaluated constants above
            for rid, r in recs.items():
                nm = r.get("typedef") or r.get("name")
                if nm in ("decContext", "decNumber", "decQuad"):
                    facts["layouts"].setdefault(nm, {})["fields"] = r["fields"]
                    facts["layouts"][nm]["tag"] = r["tag"]
            # offsets: second probe
            with open(probe, "a") as fh:
                for nm, lay in facts["layouts"].items():
                    for fld in lay.get("fields", []):
                        if fld["name"]:
                            fh.write("enum { PROBE_OFF_%s__%s = offsetof(%s, %s) };\n" % (nm, fld["name"], nm, fld["name"]))
                            fh.write("enum { PROBE_FSZ_%s__%s = sizeof(((%s*)0)->%s) };\n" % (nm, fld["name"], nm, fld["name"]))
            rc, out, err = run([CLANG, "-fsyntax-only", "-w"] + dflags + ["-Xclang", "-ast-dump=json", probe])
            if rc == 0:
                ast = json.loads(out)

                def visit2(n, parents):
                    if n.get("kind") == "EnumConstantDecl":
                        nm = n.get("name", "")
                        if nm.startswith("PROBE_OFF_") or nm.startswith("PROBE_FSZ_"):
                            rec, fld = nm[10:].split("__", 1)
                            for f2 in facts["layouts"][rec]["fields"]:
                                if f2["name"] == fld:
                                    f2["offset" if nm.startswith("PROBE_OFF_") else "size"] = const_value(n)
                walk(ast, visit2)
            else:
                facts["errors"].append("offset probe failed: " + err[-400:])
    with open(out_path, "w") as fh:
        json.dump(facts, fh, indent=1)
    return facts


def context_default(fn):
    """{'pre': {field: value}, 'cases': {case value: {field: value}}} of decContextDefault"""
    res = {"pre": {}, "cases": {}, "default_calls": []}

    def assign(n):
        # BinaryOperator '=' with MemberExpr lhs
        if n.get("kind") == "BinaryOperator" and n.get("opcode") == "=":
            lhs, rhs = n["inner"][0], n["inner"][1]
            if lhs.get("kind") == "MemberExpr":
                return lhs.get("name"), rhs_value(rhs)
        return None

    def rhs_value(n):
        k = n.get("kind")
        if k == "IntegerLiteral":
            return int(n["value"])
        if k == "UnaryOperator" and n.get("opcode") == "-":
            v = rhs_value(n["inner"][0])
            return -v if isinstance(v, int) else ("-", v)
        if k == "DeclRefExpr":
            return {"ref": n.get("referencedDecl", {}).get("name")}
        if k == "ConstantExpr" and "value" in n:
            return int(n["value"])
        inner = n.get("inner") or []
        if len(inner) == 1:
            return rhs_value(inner[0])
        if k == "BinaryOperator":
            return {"op": n.get("opcode"), "args": [rhs_value(c) for c in inner]}
        return {"kind": k}

    body = [c for c in fn.get("inner", []) if c.get("kind") == "CompoundStmt"][0]
    for st in body.get("inner", []):
        a = assign(st)
        if a:
            res["pre"][a[0]] = a[1]
        if st.get("kind") == "SwitchStmt":
            comp = [c for c in st["inner"] if c.get("kind") == "CompoundStmt"][0]
            cur = None
            for c in comp.get("inner", []):
                k = c.get("kind")
                node = c
                while k in ("CaseStmt", "DefaultStmt"):
                    if k == "CaseStmt":
                        cv = const_value(node["inner"][0])
                        cur = str(cv)
                        res["cases"].setdefault(cur, {})
                        node = node["inner"][-1]
                    else:
                        cur = "default"
                        res["cases"].setdefault(cur, {})
                        node = node["inner"][-1]
                    k = node.get("kind")
                a = assign(node)
                if a and cur is not None:
                    res["cases"][cur][a[0]] = a[1]
                elif k == "BreakStmt":
                    cur = None
    return res


if __name__ == "__main__":
    import sys
    f = extract(sys.argv[1] if len(sys.argv) > 1 else "/repo", "/tmp/c_facts_probe/c_facts.json")
    print(json.dumps({k: (v if k not in ("static_vars", "functions", "prototypes") else len(v)) for k, v in f.items()}, indent=1)[:6000])
