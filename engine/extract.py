#!/usr/bin/env python3
"""Fact extraction harness.

Runs the rustc_private driver over /repo's workspace (cargo +nightly check with
RUSTC_WORKSPACE_WRAPPER), clang over the C sources, and caches the resulting fact base
under /verif/.cache/facts/<digest of the working tree + driver>.  Every check calls
ensure_facts(); the tree is re-analysed whenever its digest changes.  Nothing of the
analysed code is executed.
"""
import fcntl
import hashlib
import json
import os
import shutil
import subprocess
import sys
import time

VERIF = os.path.dirname(os.path.dirname(os.path.abspath(__file__)))
REPO = os.environ.get("DMNTK_REPO", "/repo")
CACHE = os.environ.get("VERIF_CACHE") or os.path.join(VERIF, ".cache")     # VERIF_CACHE: scratch cache of a parallel self-test worker
DRIVER_DIR = os.path.join(VERIF, "engine", "driver")
DRIVER = os.path.join(DRIVER_DIR, "target", "release", "dmntk-verif-driver")
TARGET = os.path.join(CACHE, "target")

EXPECTED_CRATES = [
    "dmntk_common.lib", "dmntk_feel_number.lib", "dmntk_feel.lib", "dmntk_feel_grammar.lib",
    "dmntk_feel_parser.lib", "dmntk_feel_evaluator.lib", "dmntk_model.lib",
    "dmntk_model_evaluator.lib", "dmntk_recognizer.lib", "dmntk_workspace.lib",
    "dmntk_server.lib", "dmntk_evaluator.lib", "dmntk_examples.lib", "dmntk_gendoc.lib",
    "dmntk.bin",
]

SRC_EXT = (".rs", ".c", ".h", ".y", ".toml", ".lock")


def tree_files():
    out = []
    for root, dirs, files in os.walk(REPO):
        dirs[:] = sorted(d for d in dirs if d not in ("target", ".git", "node_modules"))
        for f in sorted(files):
            if f.endswith(SRC_EXT):
                out.append(os.path.join(root, f))
    return out


def tree_digest():
    h = hashlib.sha256()
    for p in tree_files():
        h.update(os.path.relpath(p, REPO).encode())
        h.update(b"\0")
        with open(p, "rb") as fh:
            h.update(hashlib.sha256(fh.read()).digest())
    # the driver and the extraction scripts are part of the key
    for p in sorted(os.listdir(os.path.join(DRIVER_DIR, "src"))):
        with open(os.path.join(DRIVER_DIR, "src", p), "rb") as fh:
            h.update(fh.read())
    for p in ("cfacts.py",):
        q = os.path.join(VERIF, "engine", p)
        if os.path.exists(q):
            with open(q, "rb") as fh:
                h.update(fh.read())
    return h.hexdigest()[:24]


def sysroot():
    return subprocess.check_output(["rustc", "+nightly", "--print", "sysroot"], text=True).strip()


def build_driver():
    if os.path.exists(DRIVER):
        src_m = max(os.path.getmtime(os.path.join(DRIVER_DIR, "src", f)) for f in os.listdir(os.path.join(DRIVER_DIR, "src")))
        if os.path.getmtime(DRIVER) >= src_m:
            return
    env = dict(os.environ, CARGO_NET_OFFLINE="true")
    r = subprocess.run(["cargo", "+nightly", "build", "--release", "--offline"], cwd=DRIVER_DIR, env=env,
                       stdout=subprocess.PIPE, stderr=subprocess.STDOUT, text=True)
    if r.returncode != 0:
        sys.stderr.write(r.stdout)
        raise SystemExit("driver build failed")


def run_driver(facts_dir):
    env = dict(os.environ)
    env["LD_LIBRARY_PATH"] = sysroot() + "/lib" + (":" + env["LD_LIBRARY_PATH"] if env.get("LD_LIBRARY_PATH") else "")
    env["RUSTFLAGS"] = "-Zmir-opt-level=0 -Coverflow-checks=on -Zub-checks=no -Awarnings"
    env["RUSTC_WORKSPACE_WRAPPER"] = DRIVER
    env["CARGO_TARGET_DIR"] = TARGET
    env["DMNTK_VERIF_FACTS_DIR"] = facts_dir
    env["CARGO_NET_OFFLINE"] = "true"
    env.pop("RUSTC_WRAPPER", None)
    # cargo's freshness cache would skip the wrapper: forget the workspace members
    fp = os.path.join(TARGET, "debug", ".fingerprint")
    if os.path.isdir(fp):
        for d in os.listdir(fp):
            if d.startswith("dmntk"):
                shutil.rmtree(os.path.join(fp, d), ignore_errors=True)
    r = subprocess.run(["cargo", "+nightly", "check", "--offline", "--workspace", "-j", "16"], cwd=REPO, env=env,
                       stdout=subprocess.PIPE, stderr=subprocess.STDOUT, text=True)
    if r.returncode != 0:
        sys.stderr.write(r.stdout[-6000:])
        raise SystemExit("fact extraction failed: the working tree does not compile under the driver")
    missing = [c for c in EXPECTED_CRATES if not os.path.exists(os.path.join(facts_dir, c + ".json"))]
    if missing:
        raise SystemExit("fact extraction incomplete, missing crates: %s" % missing)


def ensure_facts(verbose=True):
    """Returns the directory holding the fact base of /repo's current working tree."""
    os.makedirs(os.path.join(CACHE, "facts"), exist_ok=True)
    lock = open(os.path.join(CACHE, "extract.lock"), "w")
    fcntl.flock(lock, fcntl.LOCK_EX)
    try:
        dg = tree_digest()
        d = os.path.join(CACHE, "facts", dg)
        if os.path.exists(os.path.join(d, "DONE")):
            return d
        t0 = time.time()
        build_driver()
        tmp = d + ".partial"
        shutil.rmtree(tmp, ignore_errors=True)
        os.makedirs(tmp)
        run_driver(tmp)
        # C side
        import cfacts
        cfacts.extract(REPO, os.path.join(tmp, "c_facts.json"))
        with open(os.path.join(tmp, "DONE"), "w") as fh:
            json.dump({"digest": dg, "wall_s": round(time.time() - t0, 1), "files": len(tree_files())}, fh)
        shutil.rmtree(d, ignore_errors=True)
        os.rename(tmp, d)
        # keep the cache small: only the 6 most recent fact bases
        fd = os.path.join(CACHE, "facts")
        ents = sorted((os.path.getmtime(os.path.join(fd, e)), e) for e in os.listdir(fd))
        for _, e in ents[:-6]:
            shutil.rmtree(os.path.join(fd, e), ignore_errors=True)
        if verbose:
            sys.stderr.write("[extract] facts for tree %s in %.1fs\n" % (dg, time.time() - t0))
        return d
    finally:
        fcntl.flock(lock, fcntl.LOCK_UN)
        lock.close()


if __name__ == "__main__":
    sys.path.insert(0, os.path.dirname(os.path.abspath(__file__)))
    print(ensure_facts())
