"""C16: conformance is a preorder, coercion conforms - structural rules on feel/src/types.rs (DESIGN §3 C16)."""
import json

import re
import hirflow
from facts import find_hir, strip

LEVEL = "other"
CRATES_QUICK = ["dmntk_feel"]
CRATES_THOROUGH = None
T = "dmntk_feel::types::FeelType"
FILE = "feel/src/types.rs"


def root_side(d):
    """'self' / 'other' / None: which parameter a descriptor is derived from"""
    while d:
        if d[0] == "arg":
            return {0: "self", 1: "other"}.get(d[1])
        if d[0] in ("unwrap", "via"):
            d = d[2]
        elif d[0] in ("elem", "enum", "idx"):
            d = d[1]
        elif d[0] == "proj":
            d = d[2]
        elif d[0] == "index":
            d = d[1]
        elif d[0] == "field":
            d = d[2]
        elif d[0] == "call":
            d = d[2][0] if d[2] else None
        elif d[0] == "un":
            d = d[2]
        else:
            return None
    return None


def component(d):
    """innermost (variant, field index) of FeelType the descriptor was unwrapped from"""
    while d:
        if d[0] == "unwrap" and d[1].startswith(T + "::"):
            return (d[1].split("::")[-1], d[3] if len(d) > 3 else 0)
        if d[0] in ("unwrap", "via"):
            d = d[2]
        elif d[0] in ("elem", "enum", "idx"):
            d = d[1]
        elif d[0] == "proj":
            d = d[2]
        elif d[0] == "index":
            d = d[1]
        elif d[0] == "field":
            d = d[2]
        elif d[0] == "call":
            d = d[2][0] if d[2] else None
        else:
            return None
    return None


def depends_on_element(d):
    if isinstance(d, tuple):
        if d and d[0] in ("elem", "idx"):
            return True
        return any(depends_on_element(x) for x in d)
    if isinstance(d, list):
        return any(depends_on_element(x) for x in d)
    return False


def run(F, rep, tier):
    rep.explanation = ("Structure of FeelType::is_equivalent / is_conformant / coerced read off the type-checked HIR: the diagonal of the equivalence match, "
                       "the provenance (self side / other side, which component) of every recursive call, loop-invariant decisions inside element loops, "
                       "and the conformance tests dominating every non-null return of coerced. Transitivity over the infinite type universe is not mechanised.")
    r1 = rep.rule("R16.1", "is_equivalent matches every FeelType variant explicitly and tests `self` for the same variant in each arm")
    r2 = rep.rule("R16.2", "recursive calls relate corresponding components; contravariant exactly in function parameters")
    r3 = rep.rule("R16.3", "no loop-invariant decision inside an element loop (it would be skipped for the empty collection)")
    r4 = rep.rule("R16.4", "every non-null return of coerced is dominated by a successful conformance test against the target")
    adt = F.adts.get(T)
    if adt is None:
        rep.missing_anchor(r1, T)
        return
    variants = [v["name"] for v in adt["variants"]]
    rep.floor(r1, "FeelType variants", len(variants), 14)
    eqv = F.hir.get(T + "::is_equivalent")
    cnf = F.hir.get(T + "::is_conformant")
    coe = F.hir.get(T + "::coerced")
    for nm, h in (("is_equivalent", eqv), ("is_conformant", cnf), ("coerced", coe)):
        if h is None:
            rep.missing_anchor(r1, T + "::" + nm)
    if eqv is None or cnf is None or coe is None:
        return

    # ---- R16.1
    ms = [m for m, _ in find_hir(eqv["body"], lambda n: n.get("k") == "Match" and n.get("src") == "Normal" and strip(n["e"]).get("k") == "Path" and strip(n["e"]).get("name") == "other")]
    if not ms:
        rep.missing_anchor(r1, "match on `other` in is_equivalent")
    else:
        seen = set()
        for arm in ms[0]["arms"]:
            ctors = [c.split("::")[-1] for c in hirflow.Flow.pat_ctors(arm["p"]) if isinstance(c, str) and c.startswith(T + "::")]
            if not ctors:
                rep.violation(r1, "wildcard", "is_equivalent has a wildcard arm over `other`: a new type variant would silently be (in)equivalent", "%s:%s" % (FILE, arm.get("l")))
                continue
            for v in ctors:
                seen.add(v)
                # every pattern applied to `self` in this arm must name the same variant
                tests = []
                for n, _ in find_hir(arm["b"], lambda n: n.get("k") in ("Match", "Let")):
                    scrut = strip(n["e"])
                    if scrut.get("k") == "Path" and scrut.get("name") == "self":
                        pats = [a["p"] for a in n["arms"]] if n["k"] == "Match" else [n["p"]]
                        for p in pats:
                            tests += [c.split("::")[-1] for c in hirflow.Flow.pat_ctors(p) if isinstance(c, str) and c.startswith(T + "::")]
                if tests and all(t == v for t in tests):
                    rep.ok(r1, "diag:%s" % v, "arm %s tests self for %s" % (v, sorted(set(tests))))
                else:
                    rep.violation(r1, "diag:%s" % v, "arm for FeelType::%s tests `self` for %s" % (v, tests or "nothing"), "%s:%s" % (FILE, arm.get("l")))
        for v in variants:
            if v not in seen:
                rep.violation(r1, "missing:%s" % v, "is_equivalent has no arm for FeelType::%s" % v, FILE)

    # ---- R16.2 / R16.3 on both relations
    ncalls = 0
    def helper(callee):
        """private helpers of FeelType the two relations delegate to (extract-function refactorings): expanded at their call sites"""
        hh = F.hir.get(callee)
        if hh is None or not callee.startswith(T + "::") or callee in (T + "::is_equivalent", T + "::is_conformant", T + "::coerced") or hh.get("vis") == "pub":
            return None
        return hh
    for nm, h in (("is_equivalent", eqv), ("is_conformant", cnf)):
        fl = hirflow.Flow(h, inline=helper)
        for callee, args, cond, line, node in fl.calls:
            if callee not in (T + "::is_equivalent", T + "::is_conformant") or len(args) != 2:
                continue
            recv, arg = args
            sr, sa = root_side(recv), root_side(arg)
            cr, ca = component(recv), component(arg)
            if sr is None or sa is None:
                # an operand whose origin the provenance engine cannot name (a closure of an adaptor it does not model, a value built on the way): no positive evidence
                rep.undecided(r2, "%s:%s:line%s" % (nm, callee.split("::")[-1], "?"), "the operands of a recursive call in %s cannot be traced to `self` / `other`" % nm)
                continue
            if cr is None and ca is None:
                # the top-level call is_conformant -> self.is_equivalent(other)
                if sr == "self" and sa == "other":
                    rep.ok(r2, "%s:%s:top" % (nm, callee.split("::")[-1]), "self vs other")
                else:
                    rep.violation(r2, "%s:%s:top" % (nm, callee.split("::")[-1]), "top-level call relates %s with %s" % (sr, sa), "%s:%s" % (FILE, line))
                continue
            ncalls += 1
            key = "%s:%s.%s" % (nm, cr[0] if cr else "?", cr[1] if cr else "?")
            in_loop = any(c[0] and c[0][0] == "loop-enter" for c in cond if isinstance(c[0], tuple))
            if in_loop and not depends_on_element(recv) and not depends_on_element(arg):
                rep.violation(r3, key + ":invariant-in-loop", "%s compares component %s inside an element loop although the comparison does not depend on the element: "
                              "it is skipped when the collection is empty (e.g. function types without parameters)" % (nm, cr), "%s:%s" % (FILE, line))
            if cr != ca:
                rep.violation(r2, key, "%s: recursive call relates component %s of one type with component %s of the other" % (nm, cr, ca), "%s:%s" % (FILE, line))
                continue
            if {sr, sa} != {"self", "other"}:
                rep.violation(r2, key, "%s: recursive call on component %s relates %s with %s (expected one side each)" % (nm, cr, sr, sa), "%s:%s" % (FILE, line))
                continue
            if nm == "is_conformant" and callee.endswith("is_equivalent"):
                rep.violation(r2, key, "is_conformant compares component %s with is_equivalent: conformance must be covariant in element, entry and result types "
                              "(context<a: Null> conforms to context<a: number>) and contravariant in parameter types, not invariant" % (cr,), "%s:%s" % (FILE, line))
                continue
            if nm == "is_conformant" and callee.endswith("is_conformant"):
                contra = cr == ("Function", 0)
                want = ("other", "self") if contra else ("self", "other")
                if (sr, sa) == want:
                    rep.ok(r2, key, "%s in %s" % ("contravariant" if contra else "covariant", cr))
                else:
                    rep.violation(r2, key, "is_conformant on component %s calls (%s side).is_conformant(%s side): must be %s" % (cr, sr, sa, "contravariant" if contra else "covariant"),
                                  "%s:%s" % (FILE, line))
            else:
                rep.ok(r2, key, "corresponding components %s" % (cr,))
        # R16.3: returns inside loops
        ordinal = {}
        for d, cond, line in list(fl.returns) + [(d2, c2, l2) for d2, c2, l2, _ in fl.helper_returns]:
            idx = [i for i, c in enumerate(cond) if c[0] and c[0][0] == "loop-enter"]
            if not idx:
                continue
            inner = cond[idx[-1] + 1:]
            comp = component_of_conds(cond)
            ordinal[comp] = ordinal.get(comp, 0) + 1
            key = "%s:return@%s#%d" % (nm, comp, ordinal[comp])
            if not inner:
                rep.violation(r3, key, "%s: unconditional return inside a loop" % nm, "%s:%s" % (FILE, line))
            elif any(depends_on_element(c[0]) for c in inner):
                rep.ok(r3, key, "decision depends on the loop element")
            else:
                rep.violation(r3, key, "%s: the return at line %s sits inside the element loop but its condition does not depend on the element: "
                              "it is never evaluated for an empty collection (e.g. function types without parameters)" % (nm, line), "%s:%s" % (FILE, line))
    rep.floor(r2, "recursive component calls", ncalls, 10)

    # ---- R16.3 (MIR): a verdict accumulated over the components must accumulate: a local that is written inside a component loop with a computed
    # value, never read inside that loop, and read afterwards only remembers the last component
    import mirutil
    from props.c05 import _sccs
    for bname, b in sorted(F.bodies.items()):
        if not bname.startswith(T + "::") or b["kind"] == "closure":
            continue
        blocks = b["blocks"]
        nodes = [i for i, bl in enumerate(blocks) if not bl.get("cleanup")]
        succ = {i: [y for y in mirutil.normal_successors(blocks[i]["t"]) if not blocks[y].get("cleanup")] for i in nodes}
        B = mirutil.Body(F, b)
        for comp in _sccs(nodes, succ):
            if not (len(comp) > 1 or comp[0] in succ[comp[0]]):
                continue
            cs = set(comp)
            for l, nm in (b.get("names") or {}).items():
                if not l.isdigit():
                    continue
                l = int(l)
                defs_in = [d for d in B.defs.get(l, []) if d[0] in cs]
                defs_out = [d for d in B.defs.get(l, []) if d[0] not in cs]
                if not defs_in or not defs_out or B.is_arg(l):
                    continue
                computed = [d for d in defs_in if d[2] == "call" or (d[2] == "assign" and not (d[3][2][0] == "Use" and d[3][2][1][0] == "K"))]
                if not computed:
                    continue

                def reads(bl):
                    txt = json.dumps([st[2] for st in bl["s"] if st[0] == "A"]) + json.dumps(bl["t"][1] if bl["t"][0] in ("switch",) else (bl["t"][1].get("args") if bl["t"][0] == "call" else ""))
                    return ('["C", [%d' % l) in txt or ('["M", [%d' % l) in txt
                read_in = any(reads(blocks[x]) for x in cs)
                read_after = any(reads(blocks[x]) for x in nodes if x not in cs)
                if not read_in and read_after:
                    line = computed[0][3].get("line") if isinstance(computed[0][3], dict) else computed[0][3][-1]
                    rep.violation(r3, "%s:overwritten:%s" % (bname.split("::")[-1], nm), "`%s` in %s is assigned a computed value in every iteration of a component loop (line %s) without combining it "
                                  "with its previous value, and is used after the loop: only the last component decides" % (nm, bname.split("::")[-1], line), "%s:%s" % (FILE, line))

    # ---- R16.5: coerced() trusts Value::type_of; for the composite kinds it must look at every component
    arity_rule(F, rep, (("is_equivalent", eqv), ("is_conformant", cnf)), helper)
    r5 = rep.rule("R16.5", "Value::type_of derives the type of a list / context from all of its items / entries (a loop or iterator over the components that calls type_of on each)")
    tof = F.hir.get("dmntk_feel::values::Value::type_of")
    if tof is None:
        rep.missing_anchor(r5, "dmntk_feel::values::Value::type_of")
    else:
        seen_k = set()
        for m, _ in find_hir(tof["body"], lambda x: x.get("k") == "Match" and x.get("src") == "Normal"):
            for arm in m["arms"]:
                kinds = [c.split("::")[-1] for c in hirflow.Flow.pat_ctors(arm["p"]) if isinstance(c, str) and c.startswith("dmntk_feel::values::Value::")]
                for kind in kinds:
                    if kind not in ("List", "Context"):
                        continue
                    seen_k.add(kind)
                    rec = lambda x: x.get("k") in ("MethodCall", "Call") and (x.get("callee") or "").endswith("values::Value::type_of")
                    in_loops = [c for lp, _ in find_hir(arm["b"], lambda x: x.get("k") == "Loop") for c, _ in find_hir(lp, rec)]
                    in_closures = [c for mc, _ in find_hir(arm["b"], lambda x: x.get("k") == "MethodCall" and x.get("method") in ("all", "any", "map", "fold", "try_fold", "find", "position", "filter", "for_each", "filter_map", "find_map", "skip_while", "take_while"))
                                   for a in mc.get("args", []) if strip(a).get("k") == "Closure" for c, _ in find_hir(strip(a)["body"], rec)]
                    key = "type_of:%s" % kind
                    if in_loops or in_closures:
                        rep.ok(r5, key, "every %s is typed (%d recursive call(s) under iteration)" % ("item" if kind == "List" else "entry", len(in_loops) + len(in_closures)))
                    else:
                        rep.violation(r5, key, "Value::type_of does not iterate over the %s of a %s: a value whose later components have another type is reported with the type of the first, "
                                      "so coerced() returns it unchanged although it does not conform" % ("items" if kind == "List" else "entries", kind.lower()), "%s:%s" % (tof["file"], arm.get("l")))
        for kind in ("List", "Context"):
            if kind not in seen_k:
                rep.missing_anchor(r5, "arm of Value::type_of for Value::%s" % kind)
        # the type of the empty list: its element type must be the bottom type Null, so that [] conforms to every list type ("Null conforms to every type" + covariance)
        flt = hirflow.Flow(tof)
        for d, cond, line in flt.returns:
            if not (isinstance(d, tuple) and d and d[0] == "ctor" and isinstance(d[1], str) and d[1].endswith("FeelType::List") and len(d) > 2 and d[2]):
                continue
            if not any(hirflow.emptiness(cd)[0] == "empty" for cd in cond if isinstance(cd, tuple) and len(cd) == 3):
                continue
            inner = repr(d[2])
            if "FeelType::Null" in inner and "FeelType::Any" not in inner:
                rep.ok(r5, "type_of:empty-list", "list<Null>")
            else:
                rep.violation(r5, "type_of:empty-list", "the empty list is typed %s (line %s): its element type must be Null, the type that conforms to every type - otherwise [] does not conform to "
                              "list<T> and is coerced to null" % (describe(d) if False else inner[:80], line), "%s:%s" % (tof["file"], line))

    list_type_fold_rule(F, rep)
    from props import c16_fold
    c16_fold.run(F, rep, tier)
    c16_fold.run_coerced(F, rep)
    quantifier_rule(F, rep, (("is_equivalent", eqv), ("is_conformant", cnf)))
    # ---- R16.4
    fl = hirflow.Flow(coe)
    outs = list(fl.returns)
    nret = 0
    for d, cond, line in outs:
        if d == ("null",):
            continue
        nret += 1
        confs = [c for c in cond if c[2] is True and c[0] and c[0][0] == "call" and (c[0][1] or "").endswith("FeelType::is_conformant")]
        key = "coerced:return:%s" % describe(d)
        if not confs:
            rep.violation(r4, key, "coerced returns a non-null value on a path without a successful is_conformant test", "%s:%s" % (FILE, line))
            continue
        # the test must be against the target (self) or a component of it, and on the actual value's type
        ok = False
        for c in confs:
            recv, arg = c[0][2]
            if root_side(arg) == "self" and mentions_type_of_actual(recv):
                ok = True
        if d and d[0] == "call" and contains_index(d):
            lens = [c for c in cond if c[2] is True and mentions_len_eq_1(c[0])]
            if not lens:
                ok = False
                rep.violation(r4, key + ":len", "coerced unwraps a list element without a dominating `len() == 1` test", "%s:%s" % (FILE, line))
                continue
        if ok:
            rep.ok(r4, key, "dominated by %d conformance test(s)" % len(confs))
        else:
            rep.violation(r4, key, "the conformance test dominating this return is not `type_of(actual) conforms to target`", "%s:%s" % (FILE, line))
    rep.floor(r4, "non-null returns of coerced", nret, 3)
    # the value itself is returned whenever its type conforms: that decision must not be preceded by another rule (a value that conforms and is also a
    # singleton list / also fits as a list element would be unwrapped / wrapped instead of returned unchanged)
    ident = [(d, cond, line) for d, cond, line in outs if d and d[0] == "via" and d[1] == "clone" and d[2] == ("arg", 1)]
    if not ident:
        rep.violation(r4, "coerced:identity", "coerced has no path returning the value itself (actual_value.clone())", FILE)
    for d, cond, line in ident:
        others = [c for c in cond if not (c[2] is True and c[0] and c[0][0] == "call" and (c[0][1] or "").endswith("FeelType::is_conformant"))
                  and not (c[2] is True and c[1] == ())]          # an arm whose pattern names no constructor (`_ if ..`) tests nothing
        if others:
            rep.violation(r4, "coerced:identity-first", "the value itself is returned only after other coercion rules were tried (conditions before it: %s): a conforming value that also matches "
                          "a wrap / unwrap rule is changed, and coercing twice is not idempotent" % [str(c[0])[:60] for c in others][:3], "%s:%s" % (FILE, line))
        else:
            rep.ok(r4, "coerced:identity-first", "`type_of(value) conforms to target -> value` is the first rule")

    def is_identity_test(c):
        t = c[0]
        return (t and t[0] == "call" and (t[1] or "").endswith("FeelType::is_conformant") and len(t[2]) == 2 and t[2][1] == ("arg", 0)
                and t[2][0] and t[2][0][0] == "call" and (t[2][0][1] or "").endswith("::type_of") and t[2][0][2] == [("arg", 1)])
    for d, cond, line in outs:
        if d == ("null",) or (d, cond, line) in ident:
            continue
        if not any(is_identity_test(c) and c[2] is False for c in cond):
            rep.violation(r4, "coerced:identity-first:%s" % describe(d), "the %s rule of coerced (line %s) is tried although the value's own type may conform to the target: a conforming value "
                          "must be returned unchanged before any wrap / unwrap rule is considered" % (describe(d), line), "%s:%s" % (FILE, line))
    # tail expression of coerced must be null
    tail = coe["body"]["b"].get("e")
    if tail is not None and strip(tail).get("k") in ("Match", "If"):
        # the rules are the arms of one branching tail expression: every arm is a return judged above, a non-null one needs its conformance test
        nulls = [1 for d, cond, line in outs if d == ("null",)]
        if nulls:
            rep.ok(r4, "coerced:tail", "the tail is a branching expression whose remaining arms answer null")
        else:
            rep.violation(r4, "coerced:tail", "no arm of coerced's tail expression answers null", FILE)
    elif tail is not None and fl.desc(tail, {}) != ("null",):
        rep.violation(r4, "coerced:tail", "coerced's fall-through result is not null", FILE)
    else:
        rep.ok(r4, "coerced:tail", "falls through to null")


def quantifier_rule(F, rep, fns):
    """R16.7: two compound types are related when *all* their corresponding components are: written with iterator adaptors, the component relation must stand under a
    universal quantifier with positive polarity - `xs.zip(ys).all(|(x, y)| x.rel(y))`, or its De Morgan dual `!xs.zip(ys).any(|(x, y)| !x.rel(y))`.  The forms
    `any(.. rel ..)`, `!all(.. !rel ..)` (some pair related) and `all(.. !rel ..)` are positive evidence of a wrong quantifier.  And the entries of two *context* types
    correspond by name: the other side's entry type is looked up with the name of this side's entry (or the names are compared); pairing `values()` of both maps by
    position relates entries of different names."""
    rid = rep.rule("R16.7", "components of compound types are related under a universal quantifier of positive polarity, context entries are paired by name (not by position)")
    n = 0
    for nm, h in fns:
        rec = (T + "::is_equivalent", T + "::is_conformant")
        for q, parents in find_hir(h["body"], lambda x: x.get("k") == "MethodCall" and x.get("method") in ("all", "any") and "Iterator" in (x.get("callee") or "") and x.get("args")
                                   and x["args"][0].get("k") == "Closure"):
            clo = q["args"][0]
            calls = find_hir(clo["body"], lambda x: x.get("k") == "MethodCall" and x.get("callee") in rec)
            if not calls:
                continue
            n += 1
            outer = sum(1 for p_ in parents if p_.get("k") == "Unary" and p_.get("op") == "!")
            # negations between the closure body and the recursive call (matches!(.., Some(t) if a.rel(t)) keeps the polarity)
            inner = sum(1 for p_ in calls[0][1] if p_.get("k") == "Unary" and p_.get("op") == "!")
            universal = (q["method"] == "all") == (outer % 2 == 0)
            positive = (inner % 2 == 0) == (outer % 2 == 0)
            key = "quantifier:%s:%s" % (nm, q.get("l"))
            if universal and positive:
                rep.ok(rid, "quantifier:%s#%d" % (nm, n), "for all pairs: related (%s%s)" % ("!" if outer % 2 else "", q["method"]))
            else:
                rep.violation(rid, "quantifier:%s" % nm, "%s relates the components with `%s%s(.. %srel ..)` (line %s): that is %s, not 'all pairs are related'" % (
                    nm, "!" if outer % 2 else "", q["method"], "!" if inner % 2 else "",
                    q.get("l"), "'some pair is related'" if not universal and positive else "'no pair is related'" if universal else "'some pair is not related'"),
                    "%s:%s" % (FILE, q.get("l")))
            # context entries by name: the receiver chain of the quantifier zips two map iterations
            chain, cur = [], q["recv"]
            while isinstance(cur, dict) and cur.get("k") == "MethodCall":
                chain.append(cur.get("method"))
                if cur.get("method") == "zip":
                    both = [cur["recv"]] + list(cur.get("args", []))
                    maps = [x for x in both if find_hir(x, lambda y: y.get("k") == "MethodCall" and y.get("method") in ("values", "iter", "keys", "into_iter")) or True]
                    tys = [F.ty(h, strip(x).get("t")) if strip(x).get("t") is not None else "" for x in both]
                    if all(re.search(r"collections::(btree::map|hash::map|btree_map|hash_map)::", t_) or "BTreeMap" in t_ or "HashMap" in t_ for t_ in tys):
                        names_cmp = find_hir(clo["body"], lambda y: y.get("k") == "Binary" and y.get("op") == "==")
                        if not names_cmp:
                            rep.violation(rid, "by-name:%s" % nm, "%s pairs the entries of two context types by position (`zip` of two map iterations, line %s) and never compares their "
                                          "names: context<a: number> and context<b: number> become related" % (nm, q.get("l")), "%s:%s" % (FILE, q.get("l")))
                cur = cur.get("recv")
    if not n:
        rep.ok(rid, "quantifier", "no component relation is written with all / any (loops with early returns are judged by R16.2 / R16.3)")


def arity_rule(F, rep, fns, helper):
    """R16.6: two function types / two context types are related component by component; a positive answer for two function types must be reached only on a
    path that compared the lengths of both parameter lists (otherwise a function of one parameter conforms to a function of two, and transitivity fails)"""
    rid = rep.rule("R16.6", "is_equivalent / is_conformant answer true for two function types only on a path that compared the numbers of their parameters")
    for nm, h in fns:
        fl = hirflow.Flow(h, inline=helper)
        verdicts = []
        for d, cond, line in list(fl.returns) + [(d2, c2, l2) for d2, c2, l2, _ in fl.helper_returns]:
            if d is None or d == ("lit", False):
                continue
            if d != ("lit", True) and not (isinstance(d, tuple) and d and d[0] in ("bin", "call", "match", "un")):
                continue                      # neither `true` nor a boolean expression that may be true
            kinds = [c for cd in cond for c in cd[1] if isinstance(c, str) and c.startswith(T + "::") and cd[2] is True]
            if sum(1 for c in kinds if c.endswith("::Function")) < 2:
                continue

            def len_cmp(t):
                """a conjunct `len(parameters of one side) == len(parameters of the other)` inside a returned boolean expression"""
                if not (isinstance(t, tuple) and t):
                    return False
                if t[0] == "bin" and t[1] == "==" and len(t) >= 4:
                    a, b = repr(t[2]), repr(t[3])
                    if "len" in a and "len" in b and (("('arg', 0)" in a and "('arg', 1)" in b) or ("('arg', 1)" in a and "('arg', 0)" in b)):
                        return True
                if t[0] == "bin" and t[1] == "&&":
                    return any(len_cmp(x) for x in t[2:])
                return False
            ok = d != ("lit", True) and len_cmp(d)
            for cd in cond:
                t = cd[0]
                if isinstance(t, tuple) and t and t[0] == "bin" and t[1] in ("==", "!=") and cd[2] == (t[1] == "=="):
                    a, b = repr(t[2]), repr(t[3])
                    if "len" in a and "len" in b and (("('arg', 0)" in a and "('arg', 1)" in b) or ("('arg', 1)" in a and "('arg', 0)" in b)):
                        ok = True
            verdicts.append((ok, line))
        key = "arity:%s" % nm
        if not verdicts:
            rep.undecided(rid, key, "no path of %s answering true for two function types was found" % nm)
        elif all(ok for ok, _ in verdicts):
            rep.ok(rid, key, "%d positive path(s), each after len(parameters of self) == len(parameters of other)" % len(verdicts))
        else:
            line = [l for ok, l in verdicts if not ok][0]
            rep.violation(rid, key, "%s answers true for two function types at line %s on a path that never compared the numbers of their parameters: function types of different arity "
                          "become related (and conformance is no longer transitive)" % (nm, line), "%s:%s" % (FILE, line))


def component_of_conds(cond):
    for c in reversed(cond):
        for ct in c[1] or ():
            if isinstance(ct, str) and ct.startswith(T + "::"):
                return ct.split("::")[-1]
    return "?"


def describe(d):
    if not d:
        return "?"
    if d[0] == "call":
        return (d[1] or "?").split("::")[-1]
    if d[0] == "ctor":
        return d[1].split("::")[-1]
    if d[0] == "via":
        return d[1]
    return d[0]


def mentions_type_of_actual(d):
    if isinstance(d, tuple):
        if d and d[0] == "call" and (d[1] or "").endswith("::type_of") and d[2] and root_side(d[2][0]) == "other":
            return True
        return any(mentions_type_of_actual(x) for x in d)
    if isinstance(d, list):
        return any(mentions_type_of_actual(x) for x in d)
    return False


def contains_index(d):
    if isinstance(d, tuple):
        if d and d[0] == "index":
            return True
        return any(contains_index(x) for x in d)
    if isinstance(d, list):
        return any(contains_index(x) for x in d)
    return False


def mentions_len_eq_1(d):
    return isinstance(d, tuple) and d and d[0] == "bin" and d[1] == "==" and ("lit", 1) in (d[2], d[3]) and "len" in repr(d)


def list_type_fold_rule(F, rep):
    """R16.5 (fold): Value::type_of folded on concrete lists of abstract items (loops over the concrete list unrolled, iterator adaptors folded, the recursive call on an item
    inlined): [] is list<Null> - the bottom element type, so that the empty list conforms to every list type -, a list of items of one type is list<that type>, a list of
    items of different types is list<Any>."""
    from hireval import Evaluator, TooManyPaths, value, sym
    rid = rep.rule("R16.5", "Value::type_of derives the type of a list / context from all of its items / entries (a loop or iterator over the components that calls type_of on each)")
    tname = "dmntk_feel::values::Value::type_of"
    h = F.hir.get(tname)
    if h is None:
        rep.missing_anchor(rid, tname)
        return
    N, S, B_ = value("Number", sym("n")), value("String", sym("s")), value("Boolean", sym("b"))
    cells = [("[]", [], "Null"), ("[number]", [N], "Number"), ("[number, number]", [N, N], "Number"), ("[number, string]", [N, S], "Any"), ("[string, number, number]", [S, N, N], "Any"),
             ("[number, number, boolean]", [N, N, B_], "Any"), ("[string]", [S], "String")]
    for label, items, want in cells:
        ev = Evaluator(F, ints=True, max_paths=400, inline={tname})
        try:
            outs = ev.run(h["params"], h["body"], [value("List", ("array", list(items)))])
        except (TooManyPaths, ValueError, KeyError, RecursionError):
            outs = None
        got = set()
        for _, v in (outs or []):
            while isinstance(v, tuple) and v[0] == "v" and v[1] == "List" and len(v[2]) == 1:
                v = ("inner", v[2][0])
                break
            if isinstance(v, tuple) and v[0] == "inner" and isinstance(v[1], tuple) and v[1][0] == "v":
                got.add(v[1][1])
            else:
                got.add(None)
        key = "type_of:fold:%s" % label
        if not outs or None in got or len(got) != 1:
            rep.undecided(rid, key, "Value::type_of does not fold on the list %s" % label)
        elif got != {want}:
            rep.violation(rid, key, "Value::type_of gives list<%s> for %s; it is list<%s>%s" % (got.pop(), label, want,
                          " - the empty list must have the bottom element type so that [] conforms to every list<T> (otherwise a typed parameter or result turns [] into null)" if not items else ""),
                          "%s:%s" % (h["file"], h["line"]))
        else:
            rep.ok(rid, key, "list<%s>" % want)
