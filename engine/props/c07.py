"""C07 (clauses): numbers print as plain decimal text that denotes exactly their value.

Decided from the source:
  R07.1  the text produced by Display / Jsonify of FeelNumber, folded over a segment abstraction of every shape decNumber's to-scientific-string can
         deliver (sign x coefficient with / without fraction x no exponent / E+n / E-n; digit runs opaque, lengths and the exponent symbolic), is
         `[-]digits[.digits]` with the sign first and denotes - as an identity of linear forms - the value of the library text;
  R07.2  Display and Jsonify produce the same text on every shape; Value::Number renders through them;
  R07.3  from a literal's digits (build_numeric) and from typed input text (try_from_xsd_*) the value reaches the number as text through
         FeelNumber::from_str only - no primitive numeric parse, no cast.
Not decided: the digits decNumber computes, decQuadFromString / decQuadToString themselves, results of arithmetic (C02)."""
import re

import strfold
import taint
from facts import find_hir, strip
from hireval import mk_bool, Evaluator, State, TooManyPaths

LEVEL = "other"
CRATES_QUICK = ["dmntk_feel_number", "dmntk_feel", "dmntk_feel_evaluator", "dmntk_common"]
CRATES_THOROUGH = None
NUM = "dmntk_feel_number::number::FeelNumber"


def shapes():
    """(key, abstract text, digit sequence, exponent(ev)) for every form of decNumber's to-scientific-string (General Decimal Arithmetic, 'to-scientific-string':
    plain notation when exponent <= 0 and adjusted exponent >= -6, otherwise one digit, optional fraction, E, sign, exponent digits)"""
    out = []
    for sg in (False, True):
        for frac in (False, True):
            for ex in (None, "+", "-"):
                atoms = [("sgn",)] if sg else []
                if ex is None:
                    atoms.append(("d", "i"))
                    digits = ["i"]
                else:
                    atoms.append(("d", "m", ("lit", 1), "nz"))      # one digit, not zero (a zero coefficient is a shape of its own)
                    digits = ["m"]
                if frac:
                    atoms += [("c", "."), ("d", "f")]
                    digits.append("f")
                if ex:
                    atoms += [("c", "E" + ex), ("d", "n")]
                key = "%s%s%s%s" % ("-" if sg else "", "d" if ex else "ddd", ".fff" if frac else "", "E%sn" % ex if ex else "")
                out.append((key, strfold.mk(atoms), digits, ex, frac, sg))
        # a zero coefficient keeps its exponent in to-scientific-string (0E+3 is the result of rescaling zero): the coefficient is the literal digit 0
        for ex in ("+", "-"):
            atoms = ([("sgn",)] if sg else []) + [("c", "0E" + ex), ("d", "n")]
            out.append(("%s0E%sn" % ("-" if sg else "", ex), strfold.mk(atoms), ["0"], ex, False, sg))
    return out


def input_exponent(ev, ex, frac):
    e = ("lit", 0)
    if ex == "+":
        e = ("sym", "n")
    elif ex == "-":
        e = ev.binop("-", ("lit", 0), ("sym", "n"))
    if frac:
        e = ev.binop("-", e, ("sym", "|f|"))
    return e


def fold_text(F, name, text, crate_fns):
    """abstract text produced by a Display::fmt / jsonify body when the library text is `text`: (value | None, StrFold, evaluator)"""
    ev = Evaluator(F, ints=True, max_paths=400)
    sf = strfold.StrFold(ev)

    def hook(callee, args, s):
        c = callee or ""
        if c.endswith("::dec_to_string") or c.endswith("::dec::dec_to_string"):
            return text
        if c.endswith("::dec_is_finite") or c.endswith("::is_finite"):
            return mk_bool(True)          # the library texts folded here are those of finite numbers (the statement is about finite numbers)
        if c.endswith("::write_fmt") and len(args) == 2:
            r = sf.format_value(args[1])
            return ("written", r) if r is not None else None
        if c.endswith("::write_str") and len(args) == 2 and strfold.as_str(args[1]) is not None:
            return ("written", strfold.as_str(args[1]))
        if c.endswith("Formatter::<'a>::pad") and len(args) == 2 and strfold.as_str(args[1]) is not None:
            return ("written", strfold.as_str(args[1]))
        return sf.hook(callee, args, s)
    ev.call_hook = hook
    ev.inline = crate_fns

    def to_string_of_self(callee, method, recv, s):
        """`self.to_string()` inside another rendering of the number is the text its Display implementation writes (ToString is implemented through Display)"""
        if method == "to_string" and recv == ("sym", "self") and "ToString" in (callee or "") and not name.endswith("Display>::fmt"):
            disp = [n for n in F.hir if re.match(r"^<dmntk_feel_number::number::FeelNumber as core::fmt::Display>::fmt$", n)]
            if disp:
                r, _, ev2 = fold_text(F, disp[0], text, crate_fns)
                ev.inlined |= getattr(ev2, "inlined", set())
                ev.calls_seen += getattr(ev2, "calls_seen", [])
                return r
        return None
    ev.transparent_hook = to_string_of_self
    h = F.hir.get(name)
    if h is None:
        return None, sf, ev
    try:
        outs = ev.run(h["params"], h["body"], [("sym", p.get("name", "_")) for p in h["params"]])
    except (TooManyPaths, ValueError, KeyError, RecursionError):
        return None, sf, ev
    vals = []
    for conds, v in outs:
        if isinstance(v, tuple) and v[0] == "written":
            v = v[1]
        vals.append(strfold.as_str(v) if strfold.as_str(v) is not None else v)
    if len(vals) == 1 and strfold.is_str(vals[0]):
        return vals[0], sf, ev
    return None, sf, ev


def run(F, rep, tier):
    rep.explanation = ("The digits of a number are decNumber's business and are not decided. Decided is the rewriting every rendered number passes through: the bodies of Display and "
                       "Jsonify for FeelNumber are folded (no execution: digit runs stay opaque symbols, lengths and the exponent are linear forms) over all 12 shapes the General "
                       "Decimal Arithmetic specification allows for to-scientific-string, and the folded text must be [-]digits[.digits] with the sign first and must denote the same "
                       "value (same digit sequence, decimal point moved by exactly the exponent). Display and Jsonify must agree; a literal's digits and typed input text reach the "
                       "number as text through FeelNumber::from_str (decQuadFromString) only - no binary float, 64-bit integer or cast in between (label propagation over MIR).")
    rep.assumptions += ["decQuadToString produces to-scientific-string as specified (plain notation, or d[.ddd]E+n / E-n with n >= number of fraction digits for E+)",
                        "decQuadFromString reads plain decimal text exactly (up to 34 digits)"]
    plain_text_rule(F, rep)
    carrier_rule(F, rep)
    lexical_forms_rule(F, rep, tier)
    whole_text_rule(F, rep)
    # premise (C02): every conversion between text and number works on a private, pristine copy of the default context - a conversion must not depend on an earlier one
    from props import c02
    r3 = rep.rule("R02.3", "every FFI call gets a private copy of the default context; the default context is never modified from Rust")
    c02.context_privacy_rule(F, rep, r3)


# ====================================================================================================== R07.1 / R07.2
def plain_text_rule(F, rep):
    r1 = rep.rule("R07.1", "Display / Jsonify of FeelNumber folded over every to-scientific-string shape: plain decimal text, sign first, same digits, decimal point moved by exactly the exponent")
    r2 = rep.rule("R07.2", "Display and Jsonify of FeelNumber denote the same value on every shape and representative text; Value::Number renders through them")
    impls = {}
    for n in F.hir:
        if "{closure" in n:
            continue
        if re.match(r"^<dmntk_feel_number::number::FeelNumber as core::fmt::Display>::fmt$", n):
            impls["Display"] = n
        if re.match(r"^<dmntk_feel_number::number::FeelNumber as dmntk_common::[a-z_:]*Jsonify>::jsonify$", n):
            impls["Jsonify"] = n
    for k in ("Display", "Jsonify"):
        if k not in impls:
            rep.missing_anchor(r1, "%s for FeelNumber" % k)
    crate_fns = {n for n in F.hir if (n.startswith("dmntk_feel_number::") or n.startswith("<dmntk_feel_number::number::FeelNumber as ")) and "{closure" not in n and "::dec::" not in n}
    texts = {}
    nshape = 0
    for key, text, digits, ex, frac, sg in shapes():
        for k, name in sorted(impls.items()):
            nshape += 1
            ikey = "%s:%s" % (k, key)
            h = F.hir[name]
            where = "%s:%s" % (h["file"], h["line"])
            val, sf, ev = fold_text(F, name, text, crate_fns)
            texts[(k, key)] = val
            if val is None:
                rep.undecided(r1, ikey, "the text produced for the library text %s does not fold to pieces of that text (%s)" % (strfold.render(text), "; ".join(sorted(set(sf.unknown))[:3]) or "opaque result"))
                continue
            probs, sign, seq, exp = strfold.numeric_value(ev, val)
            want_seq = [("D", d) for d in digits] if digits != ["0"] else [("0", ("lit", 1))]
            zero = digits == ["0"]
            want_exp = input_exponent(ev, ex, frac)
            if any(strfold.text_of(a) is not None and "E" in strfold.text_of(a) for a in val[1]):
                probs.append("an exponent marker is left in the text")
            if sg and not sign and not any("minus sign" in p for p in probs):
                probs.append("the minus sign is lost")
            if not sg and sign:
                probs.append("a minus sign appears")
            lz = json_leading_zero(val)
            if lz:
                probs.append(lz)
            if zero and not probs:
                # the value is zero whatever the exponent: only the form is judged
                rep.ok(r1, ikey, "%s -> %s" % (strfold.render(text), strfold.render(val)))
                continue
            if not probs and not (lin_known(exp) and all(x[0] != "0" or lin_known(x[1]) for x in seq)):
                rep.undecided(r1, ikey, "%s -> %s: a zero count or the position of the decimal point is not a linear form of the exponent and the lengths" % (strfold.render(text), strfold.render(val)))
                continue
            if not probs:
                if seq != want_seq:
                    probs.append("the digits are %s, the number's are %s" % (seq_text(seq), seq_text(want_seq)))
                elif exp != want_exp:
                    probs.append("the decimal point is placed for 10^(%s), the number has 10^(%s)" % (strfold.render_lin(exp), strfold.render_lin(want_exp)))
            if probs:
                rep.violation(r1, ikey, "%s of a number whose library text is %s gives %s: %s" % (k, strfold.render(text), strfold.render(val), "; ".join(probs[:3])), where)
            else:
                pre = ""
                if sf.preconditions:
                    pre = " (zero counts assumed >= 0: %s)" % ", ".join(sorted({strfold.render_lin(p) for p in sf.preconditions}))
                rep.ok(r1, ikey, "%s -> %s%s" % (strfold.render(text), strfold.render(val), pre))
    rep.floor(r1, "shape x rendering cells", nshape, 24)
    # representative *literal* library texts: a rewriting that depends on the digits themselves (trimming zeros, rounding) cannot be judged on opaque digit runs - the
    # shapes above then answer UNDECIDED; on literal texts the abstract string engine computes exactly, and a text whose rendering denotes another value is positive evidence
    from decimal import Decimal, InvalidOperation
    REPS = ["0", "-0", "7", "100", "100.0", "10.00", "250.000", "0.0", "0.50", "1.50", "-2.0", "123.456", "-0.001", "1E+3", "1.5E+3", "1.230E+5", "-1.2E+9", "0E+3", "1E-7", "1.5E-7",
            "-1.50E-9", "0E-7", "1.000E-7", "9.999999999999999999999999999999999E+6144", "1E-6176", "-1.000000000000000000000000000000000E+40"]
    form = re.compile(r"^-?(0|[1-9][0-9]*)(\.[0-9]+)?$")
    for k, name in sorted(impls.items()):
        h = F.hir[name]
        probs, und = [], 0
        for t in REPS:
            val, sf, ev = fold_text(F, name, strfold.mk([("sgn",)] + [("c", t[1:])]) if t.startswith("-") else strfold.mk([("c", t)]), crate_fns)
            if val is None or not all(a[0] in ("c", "sgn") for a in val[1]):
                und += 1
                continue
            got = "".join(strfold.text_of(a) for a in val[1])
            texts[(k, "lit:" + t)] = got
            try:
                same = Decimal(got) == Decimal(t)
            except InvalidOperation:
                same = False
            if (not same or not form.match(got)) and len(probs) < 3:
                probs.append("the library text %s is rendered `%s`%s" % (t if len(t) < 30 else t[:12] + ".." + t[-8:], got if len(got) < 40 else got[:20] + "..", "" if same else ", which denotes another value"))
        ikey = "%s:literal-texts" % k
        if probs:
            rep.violation(r1, ikey, "%s of FeelNumber: %s" % (k, "; ".join(probs)), "%s:%s" % (h["file"], h["line"]))
        elif und:
            rep.undecided(r1, ikey, "%d of %d representative library texts do not fold" % (und, len(REPS)))
        else:
            rep.ok(r1, ikey, "%d representative library texts (trailing zeros, zero values, both exponent signs, extreme exponents) render to plain text of the same value" % len(REPS))
    for t in REPS:
        a, b = texts.get(("Display", "lit:" + t)), texts.get(("Jsonify", "lit:" + t))
        if a is not None and b is not None and a != b:
            try:
                same = Decimal(a) == Decimal(b)
            except InvalidOperation:
                same = False
            if not same:
                h = F.hir[impls["Jsonify"]]
                rep.violation(r2, "agree:lit:%s" % t, "for the library text %s Display gives `%s` but Jsonify gives `%s`, which do not denote the same value" % (t, a[:40], b[:40]), "%s:%s" % (h["file"], h["line"]))
    # R07.2
    for key, text, *_ in shapes():
        a, b = texts.get(("Display", key)), texts.get(("Jsonify", key))
        if a is None or b is None:
            if "Display" in impls and "Jsonify" in impls:
                rep.undecided(r2, "agree:%s" % key, "one of the two renderings does not fold")
            continue
        if a != b:
            # different texts are fine as long as they denote the same value (1.50 and 1.5): compare what the two texts denote
            evx = Evaluator(F, ints=True)
            pa, sa, qa, ea = strfold.numeric_value(evx, a)
            pb, sb, qb, eb = strfold.numeric_value(evx, b)
            h = F.hir[impls["Jsonify"]]
            if not pa and not pb and (sa, qa, ea) == (sb, qb, eb):
                rep.ok(r2, "agree:%s" % key, "%s / %s: same value" % (strfold.render(a), strfold.render(b)))
            else:
                rep.violation(r2, "agree:%s" % key, "for the library text %s Display gives %s but Jsonify gives %s, which do not denote the same value" % (strfold.render(text), strfold.render(a), strfold.render(b)), "%s:%s" % (h["file"], h["line"]))
        else:
            rep.ok(r2, "agree:%s" % key, strfold.render(a))
    # Value::Number arms of Display / Jsonify of Value go through the FeelNumber implementations
    for trait, meth, want in (("core::fmt::Display", "fmt", "Display"), ("Jsonify", "jsonify", "Jsonify")):
        cands = [n for n in F.hir if n.startswith("<dmntk_feel::values::Value as ") and n.endswith("::" + meth) and trait.split("::")[-1] in n and "{closure" not in n]
        if not cands:
            rep.missing_anchor(r2, "%s for Value" % trait)
            continue
        h = F.hir[cands[0]]
        arms = []
        for m, _ in find_hir(h["body"], lambda x: x.get("k") == "Match"):
            for arm in m.get("arms", []):
                if "Value::Number" in str(pat_paths_of(arm["p"])):
                    arms.append(arm)
        key = "value-number:%s" % want
        if not arms:
            rep.undecided(r2, key, "no arm for Value::Number found in %s" % cands[0])
            continue
        for arm in arms:
            # the arm's text must come from the bound number through Display (`{}`) or jsonify / to_string - not through Debug or another conversion
            calls = [x.get("callee") or "" for x, _ in find_hir(arm["b"], lambda x: x.get("k") in ("Call", "MethodCall"))]
            dbg = [c for c in calls if "new_debug" in c]
            other = [c for c in calls if re.search(r"(to_f64|to_i|to_u|as_f64|dec_to_string)", c.split("::")[-1])]
            if dbg or other:
                rep.violation(r2, key, "%s renders Value::Number through %s instead of the number's Display / Jsonify" % (cands[0], (dbg + other)[0]), "%s:%s" % (h["file"], arm["b"].get("l", h["line"])))
            else:
                rep.ok(r2, key, "through %s" % sorted({c.split("::")[-1] for c in calls if c})[:4])


def json_leading_zero(val):
    """a JSON number's integer part is `0` or starts with a non-zero digit: a literal 0 followed by further integer digits is not a JSON number (and not canonical plain text)"""
    items = [x for x in strfold.flat(val[1]) if not (x[0] == "ch" and x[1] == "-")]
    intpart = []
    for x in items:
        if x[0] == "ch" and x[1] == ".":
            break
        intpart.append(x)
    if len(intpart) > 1 and intpart[0][0] == "ch" and intpart[0][1] == "0":
        return "the integer part starts with the digit 0 followed by %s: `%s` is not a valid JSON number" % ("more digits", strfold.render(val))
    return None


def lin_known(v):
    return isinstance(v, tuple) and v[0] in ("lit", "sym", "lin")


def pat_paths_of(p):
    out = []

    def rec(q):
        if isinstance(q, dict):
            if q.get("path"):
                out.append(q["path"])
            for v in q.values():
                rec(v)
        elif isinstance(q, list):
            for x in q:
                rec(x)
    rec(p)
    return out


def seq_text(seq):
    return " ".join("<%s>" % x[1] if x[0] == "D" else "0x(%s)" % strfold.render_lin(x[1]) if x[0] == "0" else x[1] for x in seq) or "(none)"


# ====================================================================================================== R07.3
PRIM_PARSE = re.compile(r"core::(num|str)::.*(FromStr for (f32|f64|u8|u16|u32|u64|usize|i8|i16|i32|i64|isize)>::from_str|<impl (f32|f64|u\d+|i\d+|usize|isize)>::from_str_radix)|core::num::dec2flt")


def carrier_rule(F, rep):
    rid = rep.rule("R07.3", "a literal's digits and typed input text reach the number as text through FeelNumber::from_str only: no primitive numeric parse or cast carries the value")
    FROM_STR = "<dmntk_feel_number::number::FeelNumber as core::str::traits::FromStr>::from_str"
    entries = []
    for n, b in F.bodies.items():
        if b.get("kind") == "closure":
            continue
        simple = n.split("::")[-1]
        if n.startswith("dmntk_feel_evaluator::builders::") and simple == "build_numeric":
            entries.append(n)
        if n.startswith("dmntk_feel::values::Value::") and simple.startswith("try_from_xsd_") and simple.split("_")[-1] in ("integer", "decimal", "double"):
            entries.append(n)
    if FROM_STR not in F.bodies:
        rep.missing_anchor(rid, FROM_STR)
    if not any(n.endswith("build_numeric") for n in entries):
        rep.missing_anchor(rid, "dmntk_feel_evaluator::builders::build_numeric")
    rep.floor(rid, "text -> number conversion functions", len(entries), 4)

    def is_source(p):
        if p == FROM_STR:
            return "decimal-from-text"
        if PRIM_PARSE.search(p or ""):
            return "primitive-parse"
        if p and p.startswith(("dmntk_feel_number::number::FeelNumber::from_", "dmntk_feel_number::number::FeelNumber::new")) or \
                (p and re.match(r"^<dmntk_feel_number::number::FeelNumber as core::convert::From<[a-z0-9]+>>::from$", p)):
            return "number-from-primitive"
        return None

    def call_source(p, f):
        """`text.parse::<T>()` is T::from_str(text)"""
        if p == "core::str::<impl str>::parse":
            sub = f.get("substs") or ""
            if "FeelNumber" in sub:
                return "decimal-from-text"
            if re.search(r"\b(f32|f64|u8|u16|u32|u64|usize|i8|i16|i32|i64|isize)\b", sub):
                return "primitive-parse"
        return None

    for n in sorted(entries):
        b = F.bodies[n]
        where = "%s:%s" % (b["file"], b["line"])
        tt = taint.Taint(F, is_source=is_source, is_sink=lambda p: ("from_str", [0]) if p in (FROM_STR, "core::str::<impl str>::parse") else None,
                         param_source=lambda name, i, n=n: "text" if name == n else None, call_source=call_source,
                         dest_sink=lambda ty: "number" if ty in ("dmntk_feel::values::Value", NUM) else None,
                         opaque=lambda p: p == FROM_STR)
        r = tt.analyse(n)
        # labels of every value of type Value / FeelNumber built in the entry and in the closures it returns
        got = set()
        for (sname, ai), ls in tt.sinks.items():
            if sname == "number":
                got |= ls
        ret = set()
        if r:
            for ls in r[0].values():
                ret |= ls
        # closures returned by the builder carry the number as a captured value: analyse what they capture
        labels = got | ret | closure_capture_labels(F, tt, n)
        fs_args = set()
        for (sname, ai), ls in tt.sinks.items():
            if sname == "from_str":
                fs_args |= ls
        probs = []
        if "primitive-parse" in labels or "number-from-primitive" in labels:
            probs.append("the number can be produced by %s" % ("a primitive numeric parse (binary float / 64-bit integer)" if "primitive-parse" in labels else "a conversion from a primitive integer"))
        if "primitive-parse" in fs_args:
            probs.append("the text handed to FeelNumber::from_str was produced from a primitive number")
        if probs:
            rep.violation(rid, n, "%s: %s - 34 significant digits do not survive such a carrier" % (n, "; ".join(probs)), where)
        elif "decimal-from-text" not in labels:
            rep.undecided(rid, n, "no value derived from FeelNumber::from_str was seen to reach the result (labels: %s)" % sorted(labels))
        elif "text" not in fs_args:
            rep.undecided(rid, n, "the text parsed by FeelNumber::from_str does not derive from the parameters")
        else:
            rep.ok(rid, n, "result derives from FeelNumber::from_str(text of the parameters) only")


def closure_capture_labels(F, tt, n):
    """labels held by closures created in body n (an evaluator builder returns `Box::new(move |_| Value::Number(num))`)"""
    out = set()
    T = tt.last_T.get(n) if isinstance(tt.last_T, dict) else None
    if not T:
        return out
    for k, ls in T[0].items():
        out |= ls
    return {l for l in out if l in ("decimal-from-text", "primitive-parse", "number-from-primitive")}


# ====================================================================================================== R07.4
def lexical_forms_rule(F, rep, tier="quick"):
    """every lexical form of a plain number with at most 34 significant digits reaches the decimal reader unchanged: the conversion functions are folded on representative
    texts (literal pieces; the abstract string engine computes on the text, nothing of the analysed code runs) and must answer with the number read from exactly that text"""
    rid = rep.rule("R07.4", "every lexical form of a number with at most 34 significant digits (signs, leading / trailing zeros, fraction-only forms) is handed unchanged to the decimal reader")

    def run_fn(name, args):
        ev = Evaluator(F, ints=True, max_paths=400)
        sf = strfold.StrFold(ev)

        def hook(callee, a, st):
            c = callee or ""
            if (c == "core::str::<impl str>::parse" or c.endswith("FeelNumber as core::str::traits::FromStr>::from_str")) and a and strfold.as_str(a[-1] if c.endswith("from_str") else a[0]) is not None:
                return ("v", "Ok", [("num", strfold.as_str(a[-1] if c.endswith("from_str") else a[0]))])
            if c.endswith("::map_err") and a and a[0][0] == "v" and a[0][1] == "Ok":
                return a[0]
            if c.endswith("::ok") and a and a[0][0] == "v" and a[0][1] == "Ok":
                return ("v", "Some", a[0][2])
            return sf.hook(callee, a, st)
        ev.call_hook = hook
        ev.inline = {n for n in F.hir if n.startswith(name.rsplit("::", 1)[0] + "::") and "{closure" not in n and n != name}
        h = F.hir[name]
        try:
            outs = ev.run(h["params"], h["body"], args)
        except (TooManyPaths, ValueError, KeyError, RecursionError):
            return None, ev, sf
        return outs, ev, sf

    def number_text(v, ev, depth=0):
        """the text from which the resulting number was read: Ok(Value::Number(num)) / Ok(closure returning Value::Number(num)); "ERR" for an error / null result; None unknown"""
        if not isinstance(v, tuple) or depth > 6:
            return None
        if v[0] == "num":
            return strfold.render(v[1])
        if v[0] == "v" and v[1] in ("Ok", "Some", "Number") and v[2]:
            return number_text(v[2][0], ev, depth + 1)
        if v[0] == "v" and v[1] in ("Err", "None", "Null"):
            return "ERR"
        if v[0] == "closure" and len(v) == 4:
            outs = list(ev.apply_closure(v, [("sym", "scope")], State({})))
            if len(outs) == 1:
                return number_text(outs[0][1], ev, depth + 1)
        return None
    lit = lambda t: strfold.mk([("c", t)])
    # ---- literals: (integer digits, fraction digits) of the lexer's numeric token
    bn = [n for n in F.hir if n.startswith("dmntk_feel_evaluator::builders::") and n.endswith("::build_numeric")]
    fams = []
    for sig in (range(1, 35) if tier == "thorough" else (1, 33, 34)):
        for z in ((0, 1, 2, 33, 34, 35, 40, 100) if tier == "thorough" else (0, 1, 35, 40)):
            d = "1" * sig
            fams += [(d + "0" * z, "0"), ("0", "0" * z + d), ("0" * z + d, "0"), ("0", d + "0" * z)]
    fams = sorted(set(fams))
    for name in bn:
        h = F.hir[name]
        probs, und = [], 0
        for a, b in fams:
            outs, ev, sf = run_fn(name, [lit(a), lit(b)])
            want = "%s.%s" % (a, b)
            got = {number_text(v, ev) for _, v in outs} if outs else {None}
            if got == {want}:
                continue
            if None in got:
                und += 1
            elif len(probs) < 3:
                probs.append("the literal %s (%d significant digits) %s" % (abbreviate(want), len((a + b).strip("0")), "evaluates to null" if got == {"ERR"} else "is read from %s" % sorted(got)))
        key = "literal:build_numeric"
        if probs:
            rep.violation(rid, key, "%s: %s; a literal of up to 34 significant digits must evaluate to exactly its value" % (name.split("::")[-1], "; ".join(probs)), "%s:%s" % (h["file"], h["line"]))
        elif und:
            rep.undecided(rid, key, "%d of %d representative literals do not fold" % (und, len(fams)))
        else:
            rep.ok(rid, key, "%d representative literals (%s significant digits with %s leading or trailing zeros) reach the decimal reader unchanged" % (
                len(fams), "1..34" if tier == "thorough" else "1 / 33 / 34", "0 / 1 / 2 / 33 / 34 / 35 / 40 / 100" if tier == "thorough" else "0 / 1 / 35 / 40"))
    if not bn:
        rep.missing_anchor(rid, "dmntk_feel_evaluator::builders::build_numeric")
    # ---- typed input text
    bodies = ["5", "007", "1234567890123456789012345678901234"]
    dec_bodies = ["12.50", ".5", "5.", "0.0000000000000000000000000000000000001"]
    dbl_bodies = ["1E3", "1.5e-3", "1E+3"]
    forms = {"integer": bodies, "decimal": bodies + dec_bodies, "double": bodies + dec_bodies + dbl_bodies}
    nfn = 0
    for kind, bs in sorted(forms.items()):
        names = [n for n in F.hir if n.startswith("dmntk_feel::values::Value::") and n.endswith("::try_from_xsd_" + kind)]
        for name in names:
            nfn += 1
            h = F.hir[name]
            probs, und, n = [], 0, 0
            for sign in ("", "-", "+"):
                for body in bs:
                    n += 1
                    t = sign + body
                    outs, ev, sf = run_fn(name, [lit(t)])
                    got = {number_text(v, ev) for _, v in outs} if outs else {None}
                    if got <= {t, t.lstrip("+")} and got:
                        continue
                    if None in got:
                        und += 1
                    elif len(probs) < 3:
                        probs.append("the xsd:%s text %s %s" % (kind, abbreviate(t), "is rejected" if got == {"ERR"} else "is read from %s" % sorted(got)))
            key = "input:xsd:%s" % kind
            if probs:
                rep.violation(rid, key, "%s: %s before the decimal reader sees it" % (name.split("::")[-1], "; ".join(probs)), "%s:%s" % (h["file"], h["line"]))
            elif und:
                rep.undecided(rid, key, "%d of %d representative texts do not fold" % (und, n))
            else:
                rep.ok(rid, key, "%d representative texts (no sign / - / +, leading zeros, 34 digits, fraction-only forms%s) reach the decimal reader unchanged" % (n, ", exponents" if kind == "double" else ""))
    rep.floor(rid, "typed-input conversion functions", nfn, 3)


def abbreviate(t):
    return t if len(t) <= 24 else "%s..%s (%d characters)" % (t[:8], t[-6:], len(t))


# ====================================================================================================== R07.5
def whole_text_rule(F, rep):
    """the decimal reader sees the whole text: the C string handed to decQuadFromString is a heap copy sized by the text (CString), not a buffer of fixed size - a plain text of a
    finite decimal128 value can have thousands of digits (1E+6144), so any fixed buffer truncates or overflows"""
    import mirutil
    rid = rep.rule("R07.5", "the text handed to decQuadFromString is a NUL-terminated copy of the whole text (CString), not a fixed-size buffer")
    n = 0
    for name, b in sorted(F.bodies.items()):
        if not b["_crate"].startswith("dmntk_feel_number"):
            continue
        Bd = None
        for bl in b["blocks"]:
            t = bl["t"]
            if t[0] != "call":
                continue
            ff = F.foreign.get(t[1]["f"].get("p")) if hasattr(F, "foreign") else None
            sym = (ff or {}).get("sym") or (t[1]["f"].get("p") or "").split("::")[-1]
            if sym != "decQuadFromString" or len(t[1]["args"]) < 2:
                continue
            n += 1
            Bd = Bd or mirutil.Body(F, b)
            roots = Bd.pointer_root(t[1]["args"][1])
            key = "text:%s" % name.split("::")[-1]
            where = "%s:%s" % (b["file"], t[1].get("line"))
            kinds = set()
            for r in roots or []:
                if r[0] == "local":
                    ty = Bd.local_ty(r[1])
                    kinds.add("fixed buffer `%s`" % ty if re.match(r"^\[[iu]8; ", ty) else "CString" if "CString" in ty else ty)
                elif r[0] == "call":
                    kinds.add("CString" if "CString" in r[1] or "c_str" in r[1] else r[1].split("::")[-1])
                else:
                    kinds.add(str(r[0]))
            fixed = [k for k in kinds if k.startswith("fixed buffer")]
            if fixed:
                rep.violation(rid, key, "%s hands decQuadFromString a %s: a text longer than the buffer is cut off (or overruns it) - plain texts of decimal128 values have up to 6178 characters" % (name, fixed[0]), where)
            elif kinds and all(k == "CString" for k in kinds):
                rep.ok(rid, key, "CString (heap copy of the whole text)")
            else:
                rep.undecided(rid, key, "the text pointer derives from %s" % (sorted(kinds) or "?"))
    rep.floor(rid, "calls of decQuadFromString", n, 1)


# ====================================================================================================== panic-freedom of the rewriting, for the inventory of C05 / C12
_SHAPE_VERDICT = {}


def shape_fold_verdict(F):
    """(ok, functions, detail): the bodies of Display / Jsonify for FeelNumber and every function of the number crate they evaluate, folded on all shapes of
    to-scientific-string, never apply unwrap / expect to None / Err, contain no operation the fold could not follow, and every count they subtract is one of the
    differences the specification keeps non-negative (n - |f| for E+ with a fraction, n - 1 for E-).  The panic inventory uses this as a discharge for the unwrap and
    subtraction sites of those functions: the same premise its audits stated in prose (the text is the output of decQuadToString), now checked by folding."""
    key = id(F)
    if key in _SHAPE_VERDICT:
        return _SHAPE_VERDICT[key]
    impls = {}
    for n in F.hir:
        if re.match(r"^<dmntk_feel_number::number::FeelNumber as core::fmt::Display>::fmt$", n):
            impls["Display"] = n
        if re.match(r"^<dmntk_feel_number::number::FeelNumber as dmntk_common::[a-z_:]*Jsonify>::jsonify$", n):
            impls["Jsonify"] = n
    crate_fns = {n for n in F.hir if (n.startswith("dmntk_feel_number::") or n.startswith("<dmntk_feel_number::number::FeelNumber as ")) and "{closure" not in n and "::dec::" not in n}
    fns, ok, why = set(), bool(impls), []
    allowed = {"n-|f|", "n-1", "-|f|+n"}
    for key_, text, digits, ex, frac, sg in shapes():
        for k, name in impls.items():
            val, sf, ev = fold_text(F, name, text, crate_fns)
            fns |= ev.inlined | {name}
            if val is None or sf.unknown or sf.panics:
                ok = False
                why.append("%s:%s %s" % (k, key_, (sf.panics or sf.unknown or ["does not fold"])[0]))
            for pre in sf.preconditions:
                lin = ev.as_lin(pre)
                if lin is not None and all(c >= 0 for c in lin[0].values()) and lin[1] >= 0:
                    continue        # a sum of lengths / parsed unsigned numbers: non-negative by type
                if strfold.render_lin(pre) not in allowed:
                    ok = False
                    why.append("%s:%s subtracts %s" % (k, key_, strfold.render_lin(pre)))
    _SHAPE_VERDICT[key] = (ok, fns, "; ".join(why[:3]))
    return _SHAPE_VERDICT[key]
