"""C11: typed inputs and outputs - tag agreement of the per-type closure families, classification table, must-coerce rule (DESIGN §3 C11)."""
import hirflow
from facts import find_hir, pat_paths, strip, walk_hir

LEVEL = "other"
CRATES_QUICK = ["dmntk_model_evaluator", "dmntk_feel", "dmntk_model"]
CRATES_THOROUGH = None
SIMPLE = ["String", "Number", "Boolean", "Date", "Time", "DateTime", "DaysAndTimeDuration", "YearsAndMonthsDuration"]
VALUE = "dmntk_feel::values::Value::"
FTYPE = "dmntk_feel::types::FeelType::"
ME = "dmntk_model_evaluator::"
# type reference names of the simple FEEL types as used by DMN models / the TCK (specification-level vocabulary)
TYPE_REF_NAMES = {"string": "String", "number": "Number", "boolean": "Boolean", "date": "Date", "time": "Time", "dateTime": "DateTime",
                  "dayTimeDuration": "DaysAndTimeDuration", "yearMonthDuration": "YearsAndMonthsDuration"}
# which ItemDefinitionType the four facts (has typeRef, typeRef is a simple FEEL type, has components, is collection) denote
CLASSIFICATION = {
    (True, True, False, False): "SimpleType", (False, True, False, False): "SimpleType",
    (True, False, False, False): "ReferencedType",
    (False, False, True, False): "ComponentType",
    (True, True, False, True): "CollectionOfSimpleType", (False, True, False, True): "CollectionOfSimpleType",
    (True, False, False, True): "CollectionOfReferencedType",
    (False, False, True, True): "CollectionOfComponentType",
}


def kinds_in(F, node, seen_fns, depth=0):
    """simple kinds tested (Value::U patterns) and constructed (FeelType::U expressions) in a HIR subtree, following calls to local builder fns once"""
    tested, built = [], []

    def visit(n, parents):
        k = n.get("k")
        if k in ("TupleStruct", "Struct", "Path") and "path" in n and "l" not in n:   # pattern node
            p = n["path"]
            if p.startswith(VALUE) and p[len(VALUE):] in SIMPLE:
                tested.append((p[len(VALUE):], None))
        if k == "Path" and "l" in n and (n.get("path") or "").startswith(FTYPE) and n["path"][len(FTYPE):] in SIMPLE:
            built.append((n["path"][len(FTYPE):], n.get("l")))
        if k == "Call" and (n.get("callee") or "").startswith(FTYPE) and n["callee"][len(FTYPE):] in SIMPLE:
            built.append((n["callee"][len(FTYPE):], n.get("l")))
        if k == "Call" and (n.get("callee") or "").startswith(ME) and n["callee"] in F.hir and n["callee"] not in seen_fns and depth < 2:
            callee = n["callee"]
            # only follow per-type builder functions (they take no FeelType parameter to dispatch on again)
            h = F.hir[callee]
            params_t = [F.ty(h, p.get("t")) for p in h.get("params", []) if p.get("t") is not None]
            if not any("FeelType" in t for t in params_t) and "item_definition" in callee.split("::")[-3:-1][0] + callee:
                seen_fns.add(callee)
                t2, b2 = kinds_in(F, h["body"], seen_fns, depth + 1)
                tested.extend(t2)
                built.extend(b2)
        return True
    walk_hir(node, visit)
    return tested, built


def pattern_nodes(p, out):
    if isinstance(p, dict):
        if p.get("k") in ("TupleStruct", "Struct", "Path") and "path" in p:
            out.append(p["path"])
        if p.get("k") == "Lit" and p.get("lit") == "str":
            out.append(("lit", p["v"]))
        for v in p.values():
            if isinstance(v, (dict, list)):
                pattern_nodes(v, out)
    elif isinstance(p, list):
        for x in p:
            pattern_nodes(x, out)


def anchor(F, prefix, simple):
    """the unique function called `simple` below `prefix` (moving a function between sibling modules does not lose the anchor)"""
    c = [n for n, h in F.hir.items() if n.startswith(prefix) and n.endswith("::" + simple) and h.get("kind") in ("fn", "method")]
    return c[0] if len(c) == 1 else None


def run(F, rep, tier):
    rep.explanation = ("Type checking at the model boundary is written as families of copy-pasted per-type closures (simple, collection, referenced; values, types, contexts). "
                       "Rule R11.1 reads every `match` arm keyed by a simple FEEL type (FeelType::K pattern or its typeRef name) off the HIR and requires that every "
                       "Value::U(_) test and FeelType::U construction reached from that arm names the same kind. R11.2 checks the item-definition classification table, "
                       "R11.3 that decision / knowledge-model / service results flow through FeelType::coerced with the declared output type, R11.4 that collection "
                       "variants test for a list and check every item inside the loop. Allowed-values semantics and component-wise nulling for concrete values are not decided.")
    r1 = rep.rule("R11.1", "tag agreement: in every arm keyed by simple kind K, all Value::U tests and FeelType::U constructions reached have U = K")
    r2 = rep.rule("R11.2", "item definitions are classified (simple / referenced / component / collection-of-...) as the four defining facts prescribe")
    r3 = rep.rule("R11.3", "results of decisions, knowledge models and decision services pass through FeelType::coerced with the declared output type")
    r4 = rep.rule("R11.4", "collection evaluators test for a list and check the element inside the loop; allowed values are applied on the success path")
    # ---------------- R11.1
    narms = 0
    families = 0
    for n, h in sorted(F.hir.items()):
        if not n.startswith(ME + "builders"):
            continue
        for m, _ in find_hir(h["body"], lambda x: x.get("k") == "Match" and x.get("src") == "Normal"):
            keyed = []
            for arm in m["arms"]:
                pn = []
                pattern_nodes(arm["p"], pn)
                ks = [p[len(FTYPE):] for p in pn if isinstance(p, str) and p.startswith(FTYPE) and p[len(FTYPE):] in SIMPLE]
                ss = [p[1] for p in pn if isinstance(p, tuple) and p[1] in TYPE_REF_NAMES]
                if len(ks) == 1 and not ss:
                    keyed.append((ks[0], arm, "FeelType::" + ks[0]))
                elif len(ss) == 1 and not ks:
                    keyed.append((TYPE_REF_NAMES[ss[0]], arm, '"%s"' % ss[0]))
                elif len(ks) > 1 and not ss:
                    # one arm for several kinds (`t @ (FeelType::A | FeelType::B) => Some(t)`): it stands for one arm per kind; what it tests / builds
                    # must stay inside the set of kinds it matches
                    for kk in ks:
                        keyed.append((kk, arm, "FeelType::" + kk, set(ks)))
            if len(keyed) < 4:
                continue
            families += 1
            for entry in keyed:
                K, arm, label = entry[:3]
                allowed = entry[3] if len(entry) > 3 else {K}
                narms += 1
                tested, built = kinds_in(F, arm["b"], {n})
                wrong_t = sorted({u for u, _ in tested if u not in allowed})
                wrong_b = sorted({u for u, _ in built if u not in allowed})
                key = "%s:%s" % (n.replace(ME, ""), label)
                if wrong_t or wrong_b:
                    what = []
                    if wrong_t:
                        what.append("tests the value for %s" % ", ".join("Value::" + u for u in wrong_t))
                    if wrong_b:
                        what.append("produces %s" % ", ".join("FeelType::" + u for u in wrong_b))
                    rep.violation(r1, key, "in %s the arm for %s %s (a slipped copy: a %s would be accepted/typed as another kind)" % (n.replace(ME, ""), label, " and ".join(what), K),
                                  "%s:%s" % (h["file"], arm.get("l")))
                else:
                    rep.ok(r1, key, "tests %s, builds %s" % (sorted({u for u, _ in tested}) or "-", sorted({u for u, _ in built}) or "-"))
            # all eight simple kinds must be present in a family
            present = {e[0] for e in keyed}
            missing = [k for k in SIMPLE if k not in present]
            if missing:
                rep.violation(r1, "%s:missing" % n.replace(ME, ""), "%s dispatches on simple types but has no arm for %s" % (n.replace(ME, ""), missing), "%s:%s" % (h["file"], m.get("l")))
    rep.floor(r1, "per-type dispatch families", families, 7)
    rep.floor(r1, "per-type arms", narms, 56)
    rep.analysed.update(dict(per_type_families=families, per_type_arms=narms))
    # the typeRef name table itself
    tr = anchor(F, ME + "builders", "type_ref_to_feel_type")
    if tr is None:
        rep.missing_anchor(r1, ME + "builders::*::type_ref_to_feel_type")
    else:
        # the model parser hands over the text of <typeRef> verbatim (pretty-printed XML puts white space around it): the name table must be consulted
        # with the trimmed text, otherwise ` number ` is taken for a reference to an item definition that does not exist and every value becomes null
        ms = [m for m, _ in find_hir(F.hir[tr]["body"], lambda x: x.get("k") == "Match" and x.get("src") == "Normal")]
        trimmed = any(find_hir(m["e"], lambda x: x.get("k") == "MethodCall" and x.get("method") in ("trim", "trim_matches", "split_whitespace")) for m in ms)
        if ms and trimmed:
            rep.ok(r1, "typeRef:normalised", "the typeRef text is trimmed before it is matched against the built-in type names")
        elif ms:
            rep.violation(r1, "typeRef:normalised", "type_ref_to_feel_type matches the raw typeRef text: `<typeRef> number </typeRef>` is not recognised as the built-in type",
                          "%s:%s" % (F.hir[tr]["file"], F.hir[tr]["line"]))
        else:
            rep.missing_anchor(r1, "match on the typeRef text in type_ref_to_feel_type")

    # ---------------- R11.2
    cl = F.hir.get(anchor(F, ME + "builders", "item_definition_type") or "")
    if cl is None:
        rep.missing_anchor(r2, ME + "builders::item_definition_type")
    else:
        ms = [m for m, _ in find_hir(cl["body"], lambda x: x.get("k") == "Match" and x.get("src") == "Normal" and strip(x["e"]).get("k") in ("Path", "Tup"))]
        table = []
        for m in ms:
            for arm in m["arms"]:
                p = arm["p"]
                if p.get("k") != "Tuple" or len(p["ps"]) != 4:
                    continue
                pat = []
                for q in p["ps"]:
                    if q.get("k") == "Lit" and q.get("lit") == "bool":
                        pat.append(q["v"])
                    elif (q.get("path") or "").endswith("option::Option::Some"):
                        pat.append(True)        # the fact "is present" matched as an Option: Some(..) = true, None = false
                    elif (q.get("path") or "").endswith("option::Option::None"):
                        pat.append(False)
                    elif q.get("k") in ("Wild", "Bind"):
                        pat.append(None)
                    else:
                        pat.append("?")
                vs = [x.get("path") or x.get("callee") for x, _ in find_hir(arm["b"], lambda x: x.get("k") in ("Path", "Call") and "ItemDefinitionType::" in ((x.get("path") or x.get("callee") or "")))]
                table.append((pat, vs[0].split("::")[-1] if vs else None))
        if not table:
            # the classification is written in another form (an enum of cases, nested tests ..): nothing to compare the specification table with
            rep.undecided(r2, "classification", "item_definition_type has no match over a 4-tuple of the defining facts (typeRef present, simple type, components, collection)")
            table = None
        if table is not None and any("?" in pat for pat, _ in table):
            rep.undecided(r2, "classification", "the classification match uses patterns other than booleans / Some / None / wildcards")
            table = None
        import itertools
        for combo in (itertools.product([True, False], repeat=4) if table is not None else ()):
            want = CLASSIFICATION.get(combo, "error")
            if combo[1] and not combo[0]:
                continue   # a simple FEEL type without a typeRef cannot occur
            got = "error"
            for pat, v in table:
                if all(p is None or p == c for p, c in zip(pat, combo)):
                    got = v or "error"
                    break
            key = "typeRef=%s simple=%s components=%s collection=%s" % combo
            if got == want:
                rep.ok(r2, key, got)
            else:
                rep.violation(r2, key, "item definition with (%s) is classified as %s, expected %s" % (key, got, want), "%s:%s" % (cl["file"], cl["line"]))

    # ---------------- R11.3
    targets = [
        (ME + "builders::decision::build_decision_evaluator", "decision"),
        (ME + "builders::business_knowledge_model::build_business_knowledge_model_evaluator", "business knowledge model (function definition)"),
        (ME + "model_evaluator::ModelEvaluator::evaluate_business_knowledge_model", "business knowledge model invoked by name"),
        (ME + "builders::decision_service::build_decision_service_evaluator", "decision service"),
    ]
    for fn, what in targets:
        fn = anchor(F, ME, fn.split("::")[-1]) or fn
        h = F.hir.get(fn)
        if h is None:
            # the function-definition variants live in several builders; accept any function of the module
            rep.missing_anchor(r3, fn)
            continue
        co = [c for c, _ in find_hir(h["body"], lambda x: x.get("k") == "MethodCall" and (x.get("callee") or "").endswith("FeelType::coerced"))]
        mod = fn.rsplit("::", 1)[0]
        fd = []
        for n2, h2 in F.hir.items():
            if n2.startswith(mod + "::"):
                fd += [c for c, _ in find_hir(h2["body"], lambda x: x.get("k") == "Call" and (x.get("callee") or "").endswith("Value::FunctionDefinition"))]
        if co:
            rep.ok(r3, what, "%d coerced() call(s) on the result path" % len(co))
        elif fd and "business_knowledge_model" in fn:
            # the knowledge model is wrapped into a function value carrying its result type; coercion happens at invocation (checked for the invocation sites)
            rep.ok(r3, what, "wrapped into a function definition that carries the declared result type")
        else:
            rep.violation(r3, what, "the result of a %s is returned without FeelType::coerced(<declared output type>)" % what, "%s:%s" % (h["file"], h["line"]))
    # every write into the caller's output context (the `&mut FeelContext` parameter of a decision / decision-service evaluator closure) carries a coerced value
    nsink = 0
    for fn, what in targets:
        fn = anchor(F, ME, fn.split("::")[-1]) or fn
        h = F.hir.get(fn)
        if h is None or "business_knowledge_model" in fn:
            continue
        for clo, _ in find_hir(h["body"], lambda x: x.get("k") == "Closure"):
            outp = [i for i, p in enumerate(clo.get("params", [])) if p.get("t") is not None and F.ty(h, p["t"]).replace(" ", "") == "&mutdmntk_feel::context::FeelContext"]
            if not outp:
                continue
            fl = hirflow.Flow({"params": clo["params"], "body": clo["body"]})
            k = 0
            for c, args, cond, line, node in fl.calls:
                if not (c or "").endswith("FeelContext::set_entry") or len(args) < 3:
                    continue
                recv = args[0]
                while isinstance(recv, tuple) and recv and recv[0] == "via":
                    recv = recv[2]
                if recv not in [("arg", i) for i in outp]:
                    continue
                nsink += 1
                key = "result-sink:%s#%d" % (fn.split("::")[-1], k)
                k += 1
                v = args[2]
                while isinstance(v, tuple) and v and v[0] == "via":
                    v = v[2]
                def coerced_value(v, depth=0):
                    while isinstance(v, tuple) and v and v[0] in ("via", "unwrap", "payload"):
                        v = v[2] if v[0] != "payload" else v[2]
                    if isinstance(v, tuple) and v and v[0] == "ctor" and str(v[1]).endswith(("Option::Some", "Result::Ok")) and len(v) > 2 and v[2]:
                        return coerced_value(v[2][0], depth)
                    if isinstance(v, tuple) and v and v[0] == "call" and isinstance(v[1], str) and v[1].endswith("FeelType::coerced"):
                        return True
                    if isinstance(v, tuple) and len(v) > 3 and v[0] == "call" and v[1] is None and isinstance(v[3], tuple) and v[3] and v[3][0] == "closure" and depth < 2:
                        # the value is what a closure created in this body returns (`let evaluate = || -> Option<Value> { .. }; if let Some(v) = evaluate() ..`)
                        inner = [c2 for c2, _ in find_hir(clo["body"], lambda x: x.get("k") == "Closure" and x.get("name") == v[3][1])]
                        if len(inner) != 1:
                            return False
                        fl2 = hirflow.Flow({"params": inner[0].get("params", []), "body": inner[0]["body"]})
                        rets = [d for d, _, _ in fl2.returns if d is not None and not (isinstance(d, tuple) and d and d[0] == "ctor" and str(d[1]).endswith(("Option::None", "Result::Err")))
                                and not (isinstance(d, tuple) and d and d[0] in ("residual", "try-residual"))
                                and not (isinstance(d, tuple) and d and d[0] == "call" and str(d[1]).endswith("FromResidual::from_residual"))]          # `?`: the None / Err of the operand
                        return bool(rets) and all(coerced_value(d, depth + 1) for d in rets)
                    return False
                if coerced_value(v):
                    rep.ok(r3, key, "the value written to the output context is the result of coerced()")
                else:
                    rep.violation(r3, key, "%s writes %s into the caller's output context at line %s without FeelType::coerced(<declared output type>): a result that does not conform to the "
                                  "output variable's type is returned instead of null" % (fn.split("::")[-1], str(v)[:90], line), "%s:%s" % (h["file"], line))
    rep.floor(r3, "result writes into the output context", nsink, 3)
    inv = 0
    for n, h in F.hir.items():
        if not n.startswith(ME):
            continue
        evals = [c for c, _ in find_hir(h["body"], lambda x: x.get("k") == "MethodCall" and (x.get("callee") or "").endswith("FunctionBody::evaluate"))]
        if not evals:
            continue
        inv += 1
        co = [c for c, _ in find_hir(h["body"], lambda x: x.get("k") == "MethodCall" and (x.get("callee") or "").endswith("FeelType::coerced"))]
        if len(co) >= len(evals):
            rep.ok(r3, "invocation:%s" % n.replace(ME, ""), "function result coerced to the declared result type")
        else:
            rep.violation(r3, "invocation:%s" % n.replace(ME, ""), "%s evaluates a function body %d time(s) but coerces the result %d time(s)" % (n, len(evals), len(co)),
                          "%s:%s" % (h["file"], h["line"]))
    rep.floor(r3, "function-body invocation sites in the model evaluator", inv, 3)

    # ---------------- R11.4
    ncoll = 0
    for n, h in sorted(F.hir.items()):
        if not n.startswith(ME + "builders::item_definition::build_collection_of_"):
            continue
        for clo, _ in find_hir(h["body"], lambda x: x.get("k") == "Closure"):
            ncoll += 1
            key = n.replace(ME, "") + ":" + clo.get("name", "").split("::")[-1]
            lets = find_hir(clo["body"], lambda x: x.get("k") == "Let" and "Value::List" in repr(x.get("p")))
            loops = find_hir(clo["body"], lambda x: x.get("k") == "Loop")
            if not lets:
                rep.violation(r4, key, "collection evaluator does not test its input for Value::List", "%s:%s" % (h["file"], clo.get("l")))
                continue
            if not loops:
                rep.violation(r4, key, "collection evaluator does not iterate over the items", "%s:%s" % (h["file"], clo.get("l")))
                continue
            # the element test (a Value::U pattern or a call to an element evaluator) must be inside the loop
            inner = find_hir(loops[0][0], lambda x: (x.get("k") in ("Let", "Match") and "dmntk_feel::values::Value::" in repr(x.get("p") or [a.get("p") for a in x.get("arms", [])])) or
                             (x.get("k") in ("Call", "MethodCall") and ("eval" in (x.get("method") or x.get("callee") or ""))) or
                             (x.get("k") == "Call" and x.get("callee") is None and strip(x.get("f", {})).get("res") == "local"))
            fl = hirflow.Flow({"params": clo.get("params", []), "body": clo["body"]})
            null_in_loop = [1 for d, cond, line in fl.returns if d == ("null",) and any(isinstance(c[0], tuple) and c[0] and c[0][0] == "loop-enter" for c in cond)]
            delegated = find_hir(loops[0][0], lambda x: (x.get("k") in ("Call", "MethodCall") and ("eval" in (x.get("method") or x.get("callee") or ""))) or
                                 (x.get("k") == "Call" and x.get("callee") is None and strip(x.get("f", {})).get("res") == "local"))
            if inner and not null_in_loop and not delegated:
                rep.violation(r4, key, "the item loop tests each item but no path inside the loop returns null: a non-conforming item is skipped instead of making the whole value null",
                              "%s:%s" % (h["file"], clo.get("l")))
            elif inner:
                rep.ok(r4, key, "list test dominates a per-item test inside the loop" + ("; a failing item returns null" if null_in_loop else "; items are checked by an element evaluator"))
            else:
                rep.violation(r4, key, "no per-item type test inside the item loop", "%s:%s" % (h["file"], clo.get("l")))
    rep.floor(r4, "collection evaluator closures", ncoll, 9)
    # evaluators that check a value component by component / item by item must return the container they re-built from the checked parts
    # (non-conforming parts replaced by null), not the input value
    nre = 0
    for n, h in sorted(F.hir.items()):
        if not n.startswith(ME + "builders::item_definition::"):
            continue
        for clo, _ in find_hir(h["body"], lambda x: x.get("k") == "Closure"):
            if not find_hir(clo["body"], lambda x: x.get("k") == "Loop"):
                continue
            fl = hirflow.Flow({"params": clo.get("params", []), "body": clo["body"]})
            for c, args, cond, line, node in fl.calls:
                if not ((c or "").endswith("::check_allowed_values") or (c or "").endswith("::check_allowed_items")) or not args:
                    continue
                nre += 1
                a = args[0]
                key = "rebuilt:%s:%s" % (n.replace(ME, "").split("::")[-1], clo.get("name", "").split("::")[-1])
                rooted_in_input = "('arg', 0)" in repr(a) and not (a and a[0] == "ctor")
                if (c or "").endswith("::check_allowed_items") and "('arg', 0)" not in repr(a):
                    rep.ok(r4, key, "returns the list re-built from the checked items")
                elif a and a[0] == "ctor" and not ("('arg', 0)" in repr(a) and "unwrap" not in repr(a)):
                    rep.ok(r4, key, "returns the re-built %s" % a[1].split("::")[-1])
                elif rooted_in_input:
                    rep.violation(r4, key, "the evaluator checks the parts of its input in a loop but hands the *input value itself* to check_allowed_values (line %s): non-conforming "
                                  "components / items are not replaced by null" % line, "%s:%s" % (h["file"], line))
                else:
                    rep.ok(r4, key, "returns a value built in the evaluator")
    rep.floor(r4, "part-wise evaluators returning a re-built container", nre, 8)
    # allowed values on the success path of the simple evaluators
    nav = 0
    for n, h in sorted(F.hir.items()):
        if not n.startswith(ME + "builders::item_definition::build_simple_type_evaluator::build_"):
            continue
        nav += 1
        av = find_hir(h["body"], lambda x: x.get("k") == "Call" and (x.get("callee") or "").endswith("check_allowed_values"))
        if av:
            rep.ok(r4, "allowed-values:" + n.split("::")[-1], "success path goes through check_allowed_values")
        else:
            rep.violation(r4, "allowed-values:" + n.split("::")[-1], "%s returns the value without checking the allowed values" % n, "%s:%s" % (h["file"], h["line"]))
    rep.floor(r4, "simple-type evaluators", nav, 8)
    allowed_values_rules(F, rep)
    result_type_allowed_values_rule(F, rep)
    builtin_type_names_rule(F, rep)
    # ---------------- premises: "conforms" is FeelType::is_conformant / coerced over Value::type_of; their structural rules (C16) are re-evaluated here,
    # because a slip there changes which inputs and results pass the type check
    from props import c16
    expl = rep.explanation
    c16.run(F, rep, tier)
    rep.explanation = expl + " The structural rules of the conformance relation itself (R16.x, property C16) are re-evaluated as premises."


def allowed_values_rules(F, rep):
    """R11.5: the allowed values of an item definition are applied whatever the kind of its type: in the dispatch of build_item_definition_evaluator every arm for a kind that
    takes the prepared allowed-values evaluator as a parameter elsewhere (simple, referenced, collection of simple, collection of referenced) hands it over - an arm that drops it
    ignores the constraint.  R11.6: the values defined by a collection item definition are collections of allowed values: inside a collection evaluator the allowed values are
    tested on the items (a helper that loops over the items, or a test inside the item loop), never on the list as a whole (`? in ("a","b")` with ? bound to a list is never true)."""
    r5 = rep.rule("R11.5", "the allowed-values evaluator prepared for an item definition is handed to the builder of every kind of type that can carry allowed values (simple, referenced, collections of them)")
    r6 = rep.rule("R11.6", "inside a collection evaluator the allowed values are tested on the items, never on the list as a whole")
    fn = ME + "builders::item_definition::build_item_definition_evaluator"
    h = F.hir.get(fn)
    if h is None:
        rep.missing_anchor(r5, fn)
        return
    where = "%s:%s" % (h["file"], h["line"])
    avs = [st["p"]["name"] for st, _ in find_hir(h["body"], lambda x: x.get("k") == "LetStmt" and "e" in x and x.get("p", {}).get("k") == "Bind" and
                                                  find_hir(x["e"], lambda y: y.get("k") == "Call" and str(y.get("callee") or "").endswith("build_allowed_values_evaluator")))]
    if len(avs) != 1:
        rep.undecided(r5, "allowed-values:dispatch", "no single local holds the prepared allowed-values evaluator")
        return
    av = avs[0]
    n = 0
    for m, _ in find_hir(h["body"], lambda x: x.get("k") == "Match" and x.get("src") == "Normal"):
        for arm in m["arms"]:
            kinds = [c.split("::")[-1] for c in pat_paths(arm["p"]) if "ItemDefinitionType::" in c]
            if len(kinds) != 1:
                continue
            kind = kinds[0]
            if "Component" in kind:
                continue          # component types prepare their own evaluator from the item definition
            n += 1
            key = "allowed-values:arm:%s" % kind
            uses = find_hir(arm["b"], lambda x: x.get("k") == "Path" and x.get("res") == "local" and x.get("name") == av)
            if uses:
                rep.ok(r5, key, "hands `%s` to the builder" % av)
            else:
                rep.violation(r5, key, "the arm for ItemDefinitionType::%s does not use the prepared allowed-values evaluator `%s`: the allowed values of such an item definition are "
                              "ignored (a value outside them reaches the decision logic unchanged)" % (kind, av), "%s:%s" % (h["file"], arm.get("l")))
    rep.floor(r5, "dispatch arms for kinds that can carry allowed values", n, 4)
    # R11.6
    nc = 0
    helpers_per_item = set()
    for name, hh in F.hir.items():
        if name.startswith(ME + "builders::item_definition::check_allowed") and find_hir(hh["body"], lambda x: x.get("k") == "Loop"):
            helpers_per_item.add(name)
    for name, hh in sorted(F.hir.items()):
        if not name.startswith(ME + "builders::item_definition::build_collection_of"):
            continue
        for clo, _ in find_hir(hh["body"], lambda x: x.get("k") == "Closure"):
            loops = [lp for lp, _ in find_hir(clo["body"], lambda x: x.get("k") == "Loop")]
            if not loops:
                continue
            calls = find_hir(clo["body"], lambda x: x.get("k") == "Call" and "check_allowed" in str(x.get("callee") or ""))
            for c, ps in calls:
                nc += 1
                key = "allowed-items:%s:%s" % (name.replace(ME, "").split("::")[-1], clo.get("name", "").split("::")[-1])
                in_loop = any(find_hir(lp, lambda y: y is c) for lp in loops)
                first = c["args"][0] if c.get("args") else {}
                whole_list = bool(find_hir(first, lambda y: y.get("k") == "Call" and str(y.get("callee") or "").endswith("Value::List"))) or \
                    "Values" in str(F.crates.get(hh.get("_crate"), {}).get("types", [""])[first.get("t")] if isinstance(first.get("t"), int) else "")
                if c["callee"] in helpers_per_item or in_loop:
                    rep.ok(r6, key, "tested item by item")
                elif whole_list:
                    rep.violation(r6, key, "the collection evaluator tests the whole list against the allowed values (line %s): `? in (..)` with ? bound to a list is never true, so every "
                                  "input of this type becomes null" % c.get("l"), "%s:%s" % (hh["file"], c.get("l")))
                else:
                    rep.undecided(r6, key, "what is tested against the allowed values is neither an item nor visibly the list")
    rep.floor(r6, "allowed-values tests inside collection evaluators", nc, 8)


def result_type_allowed_values_rule(F, rep):
    """R11.7 (sibling agreement): an item definition is used in two ways - its *value evaluator* (builders::item_definition) decides whether an input value has the type, its
    *type evaluator* (builders::item_definition_type) yields the FEEL type the results of decisions, knowledge models and decision services are coerced to.  The allowed values
    are part of the declared type, so both must consult ItemDefinition::allowed_values; a side that never reads them lets values outside the allowed ones pass."""
    rid = rep.rule("R11.7", "both uses of an item definition - the value evaluator for inputs and the type evaluator for results - consult its allowed values")
    sides = {"inputs (value evaluator)": ME + "builders::item_definition::", "results (type evaluator)": ME + "builders::item_definition_type::"}
    n = 0
    for label, prefix in sorted(sides.items()):
        fns = {name: h for name, h in F.hir.items() if name.startswith(prefix)}
        if not fns:
            rep.missing_anchor(rid, prefix)
            continue
        n += 1
        reads = [name for name, h in fns.items() if find_hir(h["body"], lambda x: x.get("k") in ("Call", "MethodCall") and str(x.get("callee") or "").endswith("ItemDefinition::allowed_values"))]
        key = "allowed-values:%s" % ("result-types" if "results" in label else "input-values")
        h0 = sorted(fns.items())[0][1]
        if reads:
            rep.ok(rid, key, "%s: read in %s" % (label, ", ".join(sorted(r.split("::")[-1] for r in reads))[:120]))
        else:
            rep.violation(rid, key, "the %s of an item definition never reads its allowed values (%d functions under %s): a value outside them passes as a %s" % (
                label.split(" (")[1].rstrip(")"), len(fns), prefix.replace(ME, ""), "result" if "results" in label else "input"), "%s:%s" % (h0["file"], h0["line"]))
    rep.floor(rid, "uses of an item definition", n, 2)


def builtin_type_names_rule(F, rep):
    """R11.8: "a built-in FEEL type" as the declared type of input data.  build_variable_evaluator dispatches on the text of the typeRef; a name it does not list is looked up as an
    item definition (and the value becomes null when there is none).  Its list must contain every simple type name the sibling table type_ref_to_feel_type knows, and `Any` -
    the top of the type lattice, a built-in type name of dmntk_feel (FEEL_TYPE_NAME_ANY), to which every value conforms."""
    rid = rep.rule("R11.8", "the input-variable builder lists every built-in type name: those of type_ref_to_feel_type and Any")

    def names(fn):
        h = F.hir.get(fn)
        if h is None:
            rep.missing_anchor(rid, fn)
            return None, None
        out = set()
        for m, _ in find_hir(h["body"], lambda x: x.get("k") == "Match" and x.get("src") == "Normal"):
            for arm in m["arms"]:
                for lit, _ in find_hir(arm["p"], lambda x: x.get("k") == "Lit" and isinstance(x.get("v"), str)):
                    out.add(lit["v"])
        return out, h
    have, h = names(ME + "builders::build_variable_evaluator")
    ref, _ = names(ME + "builders::type_ref_to_feel_type")
    if have is None or ref is None:
        return
    where = "%s:%s" % (h["file"], h["line"])
    need = set(ref) | {"Any"}
    if not have:
        rep.undecided(rid, "type-names:input-variables", "build_variable_evaluator does not dispatch on string literals")
        return
    for nm in sorted(need):
        key = "type-name:%s" % nm
        if nm in have:
            rep.ok(rid, key, "listed")
        else:
            rep.violation(rid, key, "build_variable_evaluator has no arm for the built-in type name `%s`: an input data variable of that type is looked up as an item definition and "
                          "every value becomes null" % nm, where)
    rep.floor(rid, "built-in type names", len(need), 9)
