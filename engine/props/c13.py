"""C13: evaluation is pure and repeatable - scope-effect typestate analysis, grammar-level balance, immutability, ambient state (DESIGN §3 C13)."""
import os
import re

import callgraph
import g3_scope
import lalr

LEVEL = "other"
CRATES_QUICK = None
CRATES_THOROUGH = None
REPO = os.environ.get("DMNTK_REPO", "/repo")
EVAL_CRATES = ("dmntk_feel_evaluator", "dmntk_model_evaluator", "dmntk_feel", "dmntk_evaluator", "dmntk_workspace", "dmntk_server", "dmntk_recognizer", "dmntk")
AMBIENT = [
    (r"chrono::offset::local::Local::(now|today)", "local clock"), (r"chrono::offset::utc::Utc::(now|today)", "clock"),
    (r"std::time::SystemTime::now", "clock"), (r"std::time::Instant::now", "clock"),
    (r"std::env::(var|vars|args|current_dir|var_os)", "process environment"), (r"std::fs::", "file system"), (r"std::net::", "network"),
    (r"rand::", "random numbers"), (r"std::process::", "process"), (r"std::io::stdio::stdin", "standard input"),
    (r"std::thread::(current|sleep)", "thread identity / timing"),
    # state kept from one evaluation to the next (repeatability): caches and counters written during evaluation
    (r"(std::sync::once_lock::OnceLock|core::cell::once::OnceCell|std::sync::OnceLock|core::cell::OnceCell)::<.*>::(set|get_or_init|get_or_try_init|take|try_insert|get_mut_or_init)$", "once-cell cache"),
    (r"std::sync::poison::(rwlock::RwLock::<.*>::(write|try_write)|mutex::Mutex::<.*>::(lock|try_lock))$", "lock-protected state written during evaluation"),
    (r"core::sync::atomic::Atomic.*::(store|swap|fetch_\w+|compare_exchange\w*)$", "atomic counter / flag"),
    (r"std::thread::local::LocalKey::<.*>::(with|set|replace|with_borrow_mut)$", "thread-local state"),
]
# the carve-out the property itself names: the current date is consulted only to place a time of day in a named zone
AMBIENT_CARVE_OUT = {"dmntk_feel::temporal::date::FeelDate::today_local": "times of day in named zones need the current date (excepted by the property)"}
EVAL_ENTRIES = [
    "dmntk_model_evaluator::model_evaluator::ModelEvaluator::evaluate_invocable",
    "dmntk_model_evaluator::model_evaluator::ModelEvaluator::evaluate_decision",
    "dmntk_model_evaluator::model_evaluator::ModelEvaluator::evaluate_business_knowledge_model",
    "dmntk_model_evaluator::model_evaluator::ModelEvaluator::evaluate_decision_service",
    "dmntk_workspace::workspace::Workspace::evaluate_invocable",
]


def run(F, rep, tier):
    rep.explanation = ("Sub-expressions communicate through one Scope (a stack of contexts) by push/pop/set_entry. A path-sensitive typestate analysis over the MIR "
                       "of every body that can touch a caller-supplied scope computes (net depth change, minimum depth, writes at entry depth), tracking boolean flags "
                       "so that flag-guarded push/pop pairs are matched; evaluator closures must be neutral. Writers at entry depth are admitted only if the scope they "
                       "receive is provably private (constructed by the caller frame or under a pending push) - an interprocedural privacy fix-point with dyn calls "
                       "resolved through builder return sets. Parser actions are composed along feel.y to show every start alternative has net effect 0. "
                       "Input contexts are immutable by type; no ambient state is reachable from evaluation except the documented carve-out.")
    rep.assumptions += ["dyn Fn calls are neutral because every closure that can flow into them is itself an obligation of this analysis (assume/guarantee)",
                        "external functions never receive the caller's scope (checked: any such hand-over is reported)",
                        "error (Err) returns of build-time functions are reported informationally, the property speaks of successful runs"]
    r1 = rep.rule("R13.1", "every evaluator closure / evaluation function is scope-neutral: net depth change 0 on every normal return, never pops below its entry depth")
    r2 = rep.rule("R13.2", "no write into a context at entry depth unless the scope is provably private to the calling frame")
    r3 = rep.rule("R13.3", "parser actions composed along the grammar: every start alternative leaves the parsing scope at its entry depth; names are added at depth >= 1 only")
    r4 = rep.rule("R13.4", "input contexts and values have no interior mutability: `&FeelContext` cannot be altered")
    r5 = rep.rule("R13.5", "no ambient state is read during evaluation (documented carve-out excepted); evaluator closures capture no interior-mutable state")

    G = callgraph.CallGraph(F)
    A = g3_scope.ScopeAnalysis(F, G)
    prims = A.prims
    rep.floor(r1, "Scope methods classified", len(prims), 10)
    bad_prims = {n: e for n, e in prims.items() if any(x.startswith("restructure") or x == "write-any" for x in e)}
    for n, e in bad_prims.items():
        rep.violation(r1, "prim:%s" % n, "Scope method %s mutates the context stack other than by push/pop/write-top: %s" % (n, sorted(e)), F.bodies[n]["file"])
    for n, b in F.bodies.items():
        if b["_crate"].split(".")[0] in EVAL_CRATES + ("dmntk_feel_parser",):
            A.summary(n)
    touching = {n: s for n, s in A.summaries.items() if s.touches}
    rep.analysed.update(dict(bodies=len(F.bodies), bodies_touching_an_external_scope=len(touching), scope_passing_sites=sum(s.sites for s in touching.values()),
                             deferred_closures=len(G.deferred)))
    rep.floor(r1, "bodies touching an external scope", len(touching), 90)

    # ---------------- R13.1
    n_ev = 0
    for n, s in sorted(touching.items()):
        b = F.bodies[n]
        crate = b["_crate"].split(".")[0]
        if crate == "dmntk_feel_parser" or n in prims:
            continue              # (the methods of Scope are the primitives themselves, classified above)
        is_eval_closure = n in G.deferred
        is_immediate = b["kind"] == "closure" and not is_eval_closure
        is_api = b.get("vis") == "pub" and b["kind"] != "closure"
        returns_evaluator = "dyn " in F.crates[b["_crate"]]["types"][b["locals"][0]]
        where = "%s:%s" % (b["file"], b["line"])
        for pr in s.problems:
            rep.violation(r1, "%s:%s" % (n, pr[0]), "%s: %s" % (n, pr[2]), "%s:%s" % (b["file"], pr[1]))
        if not (is_eval_closure or is_immediate or is_api or not returns_evaluator):
            # build-time function that parses with the scope: its *successful* return must be neutral as well
            pass
        n_ev += 1
        key = n
        if s.deltas <= {0} and s.min >= 0:
            rep.ok(r1, key, "net 0, min depth %d%s" % (s.min, ("; Err returns leave %s (informational)" % sorted(s.err_deltas)) if s.err_deltas - {0} else ""))
            if s.err_deltas - {0}:
                rep.note("%s: an error return leaves the scope at relative depth %s (build-time, not claimed)" % (n, sorted(s.err_deltas)))
        else:
            what = []
            if not s.deltas <= {0}:
                what.append("returns with the scope depth changed by %s" % sorted(s.deltas - {0}))
            if s.min < 0:
                what.append("pops %d context(s) below its entry depth" % -s.min)
            rep.violation(r1, key, "%s %s: the next evaluation with this scope sees different contexts" % (n, " and ".join(what)), where)
    rep.floor(r1, "evaluation bodies judged", n_ev, 41)

    # ---------------- R13.2
    P = g3_scope.Privacy(F, G, A)
    api = [n for n, s in touching.items() if F.bodies[n].get("vis") == "pub" and F.bodies[n]["kind"] != "closure" and not F.bodies[n]["_crate"].startswith("dmntk_feel_parser")]
    private, reason, sites = P.compute(api)
    rep.analysed["scope_passing_edges_at_entry_depth"] = len([s for s in sites if s[2] <= 0])
    nw = 0
    for n, s in sorted(touching.items()):
        if F.bodies[n]["_crate"].startswith("dmntk_feel_parser") or n in prims:
            continue
        if not s.writes0:
            continue
        nw += 1
        b = F.bodies[n]
        if private.get(n, False):
            rep.ok(r2, n, "writes at entry depth (line %s) but every caller passes a scope it constructed or holds a pending push on" % s.writes0[0][0])
        else:
            rep.violation(r2, n, "%s writes an entry into the context at its entry depth (line %s) and can be reached with a caller-visible scope: %s"
                          % (n, s.writes0[0][0], reason.get(n, "?")), "%s:%s" % (b["file"], s.writes0[0][0]))
    # (until the repair of the boxed-context evaluator - fix: in /repo, DESIGN 9.13 - one writer existed and was examined; now none is expected. The control that the
    # rule can see such writes at all is the classification of the Scope primitives: at least one of them must be recognised as writing the top context.)
    if not any("write-top" in e for e in prims.values()):
        rep.missing_anchor(r2, "positive control: a Scope method classified as writing the top context (set_entry)")
    rep.note("entry-depth writers examined: %d" % nw)
    nneutral = len([n for n, s in touching.items() if not s.writes0])
    rep.rules[r2]["instances"] += nneutral
    rep.rules[r2]["discharged"] += nneutral

    datetime_component_rule(F, G, rep)
    # ---------------- R13.3
    grammar_rule(F, rep, r3, A)

    # ---------------- R13.4
    for n in ("dmntk_feel::context::FeelContext", "dmntk_feel::values::Value", "dmntk_feel::values::Values", "dmntk_feel::names::Name", "dmntk_feel_number::number::FeelNumber",
              "dmntk_feel::temporal::date::FeelDate", "dmntk_feel::temporal::FeelTime", "dmntk_feel::temporal::FeelDateTime",
              "dmntk_feel::temporal::dt_duration::FeelDaysAndTimeDuration", "dmntk_feel::temporal::ym_duration::FeelYearsAndMonthsDuration", "dmntk_feel::types::FeelType"):
        a = F.adts.get(n)
        if a is None:
            rep.missing_anchor(r4, n)
            continue
        cells = [d for d in a.get("deep", []) if d.startswith("cell:")]
        if cells:
            rep.violation(r4, n, "%s contains interior mutability (%s): a shared reference to it can be written through" % (n, [d for d in a["deep"] if d.startswith("via:")][:3]),
                          "%s:%s" % (a["file"], a["line"]))
        else:
            rep.ok(r4, n, "no UnsafeCell reachable through Box/Vec/Arc/BTreeMap")
    # evaluate_invocable takes the input context by shared reference
    for e in EVAL_ENTRIES:
        f = F.fns.get(e)
        if f is None:
            rep.missing_anchor(r4, e)
            continue
        tys = [F.ty(f, t) for t in f["inputs"]]
        ctxs = [t for t in tys if "FeelContext" in t]
        if ctxs and all(t.startswith("&") and not t.startswith("&mut") and "&mut" not in t for t in ctxs):
            rep.ok(r4, e, "input context is %s" % ctxs)
        else:
            rep.violation(r4, e, "%s takes its input context as %s" % (e, ctxs), "%s:%s" % (f["file"], f["line"]))

    # ---------------- R13.5
    roots = [e for e in EVAL_ENTRIES if e in F.bodies]
    roots += [n for n, b in F.bodies.items() if n.startswith("dmntk_feel_evaluator::evaluators::") and b.get("vis") == "pub"]
    seen, pred = G.reach(roots)
    rep.floor(r5, "evaluation-reachable bodies", len(seen), 600)
    namb = 0
    for n in sorted(seen):
        for (p, bi, line, c) in G.ext_calls.get(n, ()):
            if not p:
                continue
            for pat, what in AMBIENT:
                if re.search(pat, p):
                    namb += 1
                    key = "%s:%s" % (n, p.split("::")[-1])
                    if n in AMBIENT_CARVE_OUT:
                        rep.ok(r5, key, AMBIENT_CARVE_OUT[n], how="audited")
                    else:
                        rep.violation(r5, key, "evaluation reads ambient state (%s: %s) via %s" % (what, p, " -> ".join(x.split("::")[-1] for x in G.path(pred, n))),
                                      "%s:%s" % (F.bodies[n]["file"], line))
    capture_rule(F, G, rep, r5, 130)
    rep.analysed["ambient_calls_in_carve_out"] = namb


def scope_neutral_premise(F, rep, crate, floor):
    """R13.1 for the bodies of one crate (used by C04: boxed contexts / invocations / function definitions must leave the scope as they found it)"""
    r1 = rep.rule("R13.1", "every evaluator closure / evaluation function is scope-neutral: net depth change 0 on every normal return, never pops below its entry depth")
    G = callgraph.CallGraph(F)
    A = g3_scope.ScopeAnalysis(F, G)
    for n, b in F.bodies.items():
        if b["_crate"].split(".")[0] == crate:
            A.summary(n)
    touching = {n: s for n, s in A.summaries.items() if s.touches and F.bodies[n]["_crate"].split(".")[0] == crate}
    for n, s in sorted(touching.items()):
        b = F.bodies[n]
        for pr in s.problems:
            rep.violation(r1, "%s:%s" % (n, pr[0]), "%s: %s" % (n, pr[2]), "%s:%s" % (b["file"], pr[1]))
        if s.deltas <= {0} and s.min >= 0:
            rep.ok(r1, n, "net 0, min depth %d" % s.min)
        else:
            what = []
            if not s.deltas <= {0}:
                what.append("returns with the scope depth changed by %s" % sorted(s.deltas - {0}))
            if s.min < 0:
                what.append("pops %d context(s) below its entry depth" % -s.min)
            rep.violation(r1, n, "%s %s: the next evaluation with this scope sees different contexts" % (n, " and ".join(what)), "%s:%s" % (b["file"], b["line"]))
    rep.floor(r1, "bodies of %s touching an external scope" % crate, len(touching), floor)


def capture_rule(F, G, rep, r5, floor):
    """evaluator closures (closures whose call is deferred: stored and invoked at evaluation time) capture no interior-mutable state except the
    registries behind RwLocks: a value computed by one evaluation cannot be kept for - or seen by - another one"""
    ndef = 0
    for clo in sorted(G.deferred):
        c = F.closures.get(clo)
        if c is None:
            continue
        ndef += 1
        cells = [d for d in c["deep"] if d.startswith("cell:")]
        if not cells:
            rep.ok(r5, "captures:%s" % clo, "no interior mutability captured")
            continue
        vias = [d[4:] for d in c["deep"] if d.startswith("via:")]
        only_registries = "dmntk_model_evaluator::model_evaluator::ModelEvaluator" in vias and not any(
            v in ("core::cell::RefCell", "core::cell::Cell", "std::sync::poison::mutex::Mutex", "dmntk_feel::scope::Scope") for v in vias)
        if only_registries:
            rep.ok(r5, "captures:%s" % clo, "captures Arc<ModelEvaluator>: registries behind RwLocks that evaluation only reads (R20.5)", how="audited")
        else:
            rep.violation(r5, "captures:%s" % clo, "evaluator closure %s captures interior-mutable state (%s): a later evaluation can observe an earlier one" % (clo, vias[:6]),
                          "%s:%s" % (F.bodies[clo]["file"], F.bodies[clo]["line"]) if clo in F.bodies else None)
    rep.floor(r5, "deferred evaluator closures examined", ndef, floor)


def grammar_rule(F, rep, rid, A):
    p = os.path.join(REPO, "feel-grammar", "src", "feel.y")
    if not os.path.exists(p):
        rep.missing_anchor(rid, p)
        return
    g = lalr.parse_y(open(p).read())
    impl_prefix = "<dmntk_feel_parser::parser::Parser<'parser> as dmntk_feel_parser::lalr::ReduceActions>::action_"
    INF = 10 ** 6
    act = {}
    for r in g.rules:
        a = r["action"]
        if not a or a in act:
            continue
        n = impl_prefix + a
        if n not in F.bodies:
            rep.violation(rid, "action:%s" % a, "grammar action %s has no implementation" % a, "feel-parser/src/parser.rs")
            continue
        s = A.summary(n)
        for pr in s.problems:
            rep.violation(rid, "action:%s:%s" % (a, pr[0]), "action_%s: %s" % (a, pr[2]), "feel-parser/src/parser.rs:%s" % pr[1])
        if len(s.deltas) > 1:
            rep.violation(rid, "action:%s" % a, "action_%s changes the scope depth by %s depending on the path" % (a, sorted(s.deltas)), "feel-parser/src/parser.rs")
        d = sorted(s.deltas)[0] if s.deltas else 0
        act[a] = (d, s.min, 0 if s.writes0 else INF)
    rep.analysed["parser_actions_with_scope_effect"] = {a: v[0] for a, v in act.items() if v[0] != 0}
    rep.analysed["parser_actions_adding_names"] = sorted(a for a, v in act.items() if v[2] == 0)
    rep.floor(rid, "parser actions with a scope effect", len([a for a, v in act.items() if v[0] != 0]), 11)
    rep.floor(rid, "parser actions adding names", len([a for a, v in act.items() if v[2] == 0]), 5)
    # nonterminal effects by fix-point
    eff = {}    # nt -> (delta, min, wmin)
    by_lhs = {}
    for i, r in enumerate(g.rules):
        by_lhs.setdefault(r["lhs"], []).append(i)

    def elem(sym):
        if sym in g.termset:
            return (0, 0, INF)
        return eff.get(sym)
    changed = True
    rounds = 0
    conflicts = {}
    while changed and rounds < 200:
        changed = False
        rounds += 1
        for nt, idxs in by_lhs.items():
            vals = []
            for i in idxs:
                r = g.rules[i]
                d, mn, wm = 0, 0, INF
                ok = True
                for sym in r["rhs"]:
                    e = elem(sym)
                    if e is None:
                        ok = False
                        break
                    mn = min(mn, d + e[1])
                    wm = min(wm, d + e[2]) if e[2] < INF else wm
                    d += e[0]
                if not ok:
                    continue
                if r["action"] and r["action"] in act:
                    a = act[r["action"]]
                    mn = min(mn, d + a[1])
                    wm = min(wm, d + a[2]) if a[2] < INF else wm
                    d += a[0]
                vals.append((i, d, mn, wm))
            if not vals:
                continue
            ds = {v[1] for v in vals}
            if len(ds) > 1:
                conflicts[nt] = vals
            d = vals[0][1]
            new = (d, min(v[2] for v in vals), min(v[3] for v in vals))
            if eff.get(nt) != new:
                # monotone: min/wmin only decrease
                old = eff.get(nt)
                if old is not None:
                    new = (new[0], min(new[1], old[1]), min(new[2], old[2]))
                if old != new:
                    eff[nt] = new
                    changed = True
    for nt, vals in conflicts.items():
        rep.violation(rid, "nt:%s" % nt, "alternatives of %s have different net scope effects: %s" % (
            nt, [("%s: %s" % (g.rules[i]["lhs"], " ".join(g.rules[i]["rhs"])), d) for i, d, _, _ in vals]), "feel-grammar/src/feel.y")
    for nt in by_lhs:
        if nt not in eff:
            rep.violation(rid, "nt:%s" % nt, "cannot determine the scope effect of non-terminal %s" % nt, "feel-grammar/src/feel.y")
        elif nt not in conflicts:
            rep.ok(rid, "nt:%s" % nt, "net %d, min %d%s" % (eff[nt][0], eff[nt][1], "" if eff[nt][2] >= INF else ", names added at relative depth >= %d" % eff[nt][2]))
    # start alternatives
    for i in by_lhs.get(g.start, []):
        r = g.rules[i]
        d, mn, wm = 0, 0, INF
        for sym in r["rhs"]:
            e = elem(sym) or (0, 0, INF)
            mn = min(mn, d + e[1])
            wm = min(wm, d + e[2]) if e[2] < INF else wm
            d += e[0]
        key = "start:%s" % " ".join(r["rhs"])
        if d != 0 or mn < 0:
            rep.violation(rid, key, "a successful parse of `%s` leaves the parsing scope at relative depth %d (min %d)" % (" ".join(r["rhs"]), d, mn), "feel-grammar/src/feel.y")
        elif wm < 1:
            rep.violation(rid, key, "a parse of `%s` adds a name to the caller's own context (relative depth %d)" % (" ".join(r["rhs"]), wm), "feel-grammar/src/feel.y")
        else:
            rep.ok(rid, key, "net 0, never below entry depth, names only at depth >= %s" % ("1" if wm < INF else "n/a"))


def datetime_component_rule(F, G, rep):
    """R13.6: the only ambient input evaluation may consult is today's date, and only to place a *time of day* in a named zone (the carve-out of R13.5). A date-and-time value
    carries its own date: its time component must never reach the FeelTime operations that resolve a zone at today's date - otherwise `.time offset`, comparison or
    subtraction of a zoned date-and-time would depend on the day of evaluation. Label propagation: born at the time component of a date-and-time (FeelDateTime::time(), or the
    receiver of a FeelDateTime method), read at the receiver of every FeelTime / temporal function from which FeelDate::today_local is reachable."""
    import taint
    rid = rep.rule("R13.6", "the time component of a date-and-time value never reaches an operation that resolves its zone at today's date")
    TODAY = "dmntk_feel::temporal::date::FeelDate::today_local"
    if TODAY not in F.bodies:
        rep.undecided(rid, "datetime-component", "FeelDate::today_local not found: no ambient date is consulted")
        return
    # functions of the temporal module from which today_local is reachable (taking a FeelTime as their first argument)
    R = set()
    for n, b in F.bodies.items():
        if not n.startswith("dmntk_feel::temporal::") and not n.startswith("<dmntk_feel::temporal::"):
            continue
        if b.get("kind") == "closure" or not b.get("argc"):
            continue
        t1 = F.ty(b, b["locals"][1])
        if "FeelTime" not in t1 or "FeelDateTime" in t1:
            continue
        seen, _ = G.reach([n])
        if TODAY in seen:
            R.add(n)
    if not R:
        rep.undecided(rid, "datetime-component", "no operation on a time of day reaches FeelDate::today_local")
        return
    DT_TIME = "dmntk_feel::temporal::FeelDateTime::time"
    tt = taint.Taint(F, is_source=lambda p: "time-of-datetime" if p == DT_TIME else None,
                     is_sink=lambda p: ("zone-at-today", [0]) if p in R else None,
                     param_source=lambda n, i: "time-of-datetime" if i == 1 and n in dt_methods else None)
    dt_methods = {n for n, b in F.bodies.items() if b.get("kind") != "closure" and b.get("argc") and n.startswith(("dmntk_feel::temporal::FeelDateTime::", "<dmntk_feel::temporal::FeelDateTime as "))
                  and "FeelDateTime" in F.ty(b, b["locals"][1])}
    entries = [n for n, b in F.bodies.items() if b.get("kind") != "closure" and (n in dt_methods or n.startswith("dmntk_feel_evaluator::builders::") or n.startswith("dmntk_feel_evaluator::bifs::"))]
    for n in sorted(entries):
        tt.analyse(n)
    bad = [(k, a) for k, a in tt.site_args.items() if "time-of-datetime" in a.get(0, set())]
    rep.analysed["R13.6 zone-at-today operations"] = sorted(x.split("::")[-1] for x in R)
    rep.analysed["R13.6 entry bodies"] = len(entries)
    if bad:
        for (sname, fn, line), a in bad[:5]:
            rep.violation(rid, "datetime-component:%s" % fn, "%s hands the time component of a date-and-time value to an operation that resolves the zone at today's date (line %s): the result "
                          "depends on the day of evaluation, not on the date of the value" % (fn, line), "%s:%s" % (F.bodies[fn]["file"], line))
    else:
        rep.ok(rid, "datetime-component", "%d entry bodies, %d zone-at-today operations: no flow from a date-and-time's time component" % (len(entries), len(R)))
