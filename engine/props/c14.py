"""C14 (clauses): the validation gates and unit tables behind temporal literals - time-of-day bounds, the 14-hour limit of offsets, sign handling of
offsets when read and printed, the unit constants durations are normalised with.  Which texts denote which values in general is not decided."""
import re

from facts import find_hir, strip
from props import c15

LEVEL = "other"
CRATES_QUICK = ["dmntk_feel"]
CRATES_THOROUGH = None
T = "dmntk_feel::temporal::"


def contains_time_ctor(v, depth=0):
    """does an abstract value contain a constructed FeelTime (5 fields)"""
    if depth > 8 or not isinstance(v, (tuple, list)):
        return False
    if isinstance(v, tuple) and len(v) == 3 and v[0] == "v" and v[1] in ("Self", "FeelTime") and isinstance(v[2], list) and len(v[2]) == 5:
        return True
    return any(contains_time_ctor(x, depth + 1) for x in v if isinstance(x, (tuple, list)))


def run(F, rep, tier):
    rep.explanation = ("Reading and printing temporal literals for all texts is value-level (regular expressions, chrono) and is not decided. Decided are the finite gates "
                       "the clauses name, by folding the functions of the pinned tree over abstract operands (one representative per cell cut out by the constants they compare "
                       "with; symbolic hours / minutes / seconds for offsets): is_valid_time is exactly hour < 24, minute < 60, second < 60, and no function that consults it "
                       "builds a time of day when it answered false; offset hours above 14 are rejected; an offset's sign applies to the whole hh:mm:ss amount when read, and "
                       "minutes / seconds are printed from the magnitude; durations are normalised with the correct unit constants (P1DT12H for PT36H, P1Y2M for P14M). "
                       "A function rewritten into a form the folding cannot follow is reported as UNDECIDED, not as a violation.")
    rep.assumptions += ["the regular expressions of the literals", "chrono's and chrono-tz's calendars and zone data", "fraction-of-second conversion"]
    r1 = rep.rule("R14.1", "is_valid_time folds to hour < 24 && minute < 60 && second < 60 on every cell, and no caller builds a FeelTime on a path where it answered false")
    vts = c15.fns_named(F, "is_valid_time")
    if not vts:
        rep.missing_anchor(r1, "a function is_valid_time in dmntk_feel")
    for vt in vts:
        h = F.hir[vt]
        params = [p.get("name") for p in h.get("params", [])]
        cells_ok = len(params) == 3 and all(c15.compared_only(F, h, p) for p in params)
        reps = tuple(sorted(set((0, 1, 22, 23, 24, 25, 58, 59, 60, 61, 254, 255)) | set(c15.around(c15.code_constants(F, h), 0, 255))))
        probs, und = [], 0
        for hh in reps:
            for mm in reps:
                for ss in reps:
                    outs, _ = c15.fold(F, vt, [("lit", hh), ("lit", mm), ("lit", ss)])
                    got = c15.single(outs)
                    want = hh < 24 and mm < 60 and ss < 60
                    if got is None or got[0] != "bool":
                        und += 1
                    elif got[1] != want and len(probs) < 3:
                        probs.append("%02d:%02d:%02d is %s" % (hh, mm, ss, "accepted" if got[1] else "rejected"))
        if probs:
            rep.violation(r1, "bounds", "%s: %s; a time of day requires hour < 24, minute < 60 and second < 60" % (vt, "; ".join(probs)), "%s:%s" % (h["file"], h["line"]))
        elif und or not cells_ok:
            rep.undecided(r1, "bounds", "%s %s" % (vt, "does not fold to a boolean on %d representative(s)" % und if und else
                                                   "agrees on all representatives but uses its parameters other than in comparisons with constants"))
        else:
            rep.ok(r1, "bounds", "%d cells folded: hour < 24 && minute < 60 && second < 60" % len(reps) ** 3)
    # gates: every function that consults is_valid_time must not build a time of day when the answer is false
    users = sorted(n for n, h in F.hir.items() if n.startswith(("dmntk_feel::", "<dmntk_feel::")) and "::{closure" not in n and n not in vts and
                   find_hir(h["body"], lambda x: x.get("k") == "Call" and (x.get("callee") or "") in vts))
    rep.floor(r1, "constructors / parsers gated by is_valid_time", len(users), 3)
    for u in users:
        h = F.hir[u]

        def hook(callee, args, s):
            if callee in vts:
                return ("bool", False)
            return None
        outs, _ = c15.fold(F, u, [("sym", p.get("name") or "p%d" % i) for i, p in enumerate(h.get("params", []))], hook)
        key = "gate:%s" % u.split("dmntk_feel::")[-1]
        if outs is None:
            rep.undecided(r1, key, "%s has too many paths to fold" % u)
        elif any(contains_time_ctor(v) for _, v in outs):
            rep.violation(r1, key, "%s builds a time of day on a path where is_valid_time answered false" % u, "%s:%s" % (h["file"], h["line"]))
        else:
            rep.ok(r1, key, "%d path(s) folded with is_valid_time = false: none builds a FeelTime" % len(outs))
    c15.offset_rule(F, rep)
    c15.unit_constants_rule(F, rep)
    # "impossible calendar dates evaluate to null": the calendar tables and the validity gate of C15
    c15.calendar_tables_rule(F, rep)
    c15.date_validity_rule(F, rep)
    # a literal with a named zone (or none) denotes the written wall clock reading in that zone: the zone's offset is resolved for that reading as local time
    c15.wall_clock_rule(F, rep)
    fraction_carrier_rule(F, rep)
    lexical_pattern_rule(F, rep)
    date_text_rule(F, rep)
    duration_literal_rule(F, rep)
    duration_text_rule(F, rep)


# ======================================================================================================
# R14.3: the value of a duration literal is the signed weighted sum of its components
NS = 10 ** 9
DURATIONS = {
    # type name -> (component group -> weight, sign group)
    "FeelDaysAndTimeDuration": ({"days": 86400 * NS, "hours": 3600 * NS, "minutes": 60 * NS, "seconds": NS, "fractional": NS}, "sign"),
    "FeelYearsAndMonthsDuration": ({"years": 12, "months": 1}, "sign"),
}


def duration_literal_rule(F, rep):
    rid = rep.rule("R14.3", "a duration literal denotes sign * (sum of component * unit) over the components present, the sign applying to the whole sum, and is rejected when a written component cannot be converted (try_from(&str) folded with symbolic components)")
    some = lambda x: ("v", "Some", [x])
    none = ("v", "None", [])
    n = 0
    for tname, (weights, sign_group) in sorted(DURATIONS.items()):
        cands = [k for k in F.hir if k.startswith("<dmntk_feel::temporal::") and ("::%s as core::convert::TryFrom<&" % tname) in k and k.endswith("::try_from") and "str" in k]
        if not cands:
            rep.missing_anchor(rid, "TryFrom<&str> for %s" % tname)
            continue
        name = cands[0]
        h = F.hir[name]
        n += 1
        ev_holder = [None]

        def hook(callee, args, st):
            c = callee or ""
            last = c.split("::")[-1]
            if last == "captures" and "Regex" in c:
                return some(("sym", "captures"))
            if last == "name" and "Captures" in c and len(args) == 2 and args[1][0] == "lit":
                g = args[1][1]
                return [(("group", g, True), some(("sym", "m:" + g))), (("group", g, False), none)]
            if last == "parse" and args and args[0][0] == "sym" and args[0][1].startswith("m:"):
                g = args[0][1][2:]
                # the digits of a component may not fit the integer type they are converted to: both outcomes are explored
                return [(("parsed", g, True), ("v", "Ok", [("sym", g)])), (("parsed", g, False), ("v", "Err", [("sym", "parse-error")]))]
            if last in ("trunc", "round", "floor") and args:
                return args[0]           # the fraction scaled to nanoseconds; rounding of the product is not modelled
            if c.startswith("dmntk_feel::temporal") and len(args) == 1 and args[0][0] == "sym" and args[0][1].startswith("m:") and c in F.bodies and \
                    re.search(r"^u(32|64|size)$", F.ty(F.bodies[c], F.bodies[c]["locals"][0])):
                # a converter of the fraction text into nanoseconds (its reading of the digits is judged by R14.5's fold): 10^9 times the fraction the text denotes
                return ev_holder[0].binop("*", ("lit", NS), ("sym", args[0][1][2:]))
            if last == "try_from" and "TryFrom" in c and len(args) == 1 and args[0][0] in ("lin", "sym", "lit"):
                return ("v", "Ok", [args[0]])      # the representable case
            return None
        # the digits of a component are converted into a type wide enough for every duration the value type can hold (at least 64 bits): a narrower type rejects / drops valid literals
        b0 = F.bodies.get(name)
        narrow = []
        for bi, c0 in (F.body_calls(b0) if b0 else []):
            p0 = c0["f"].get("p") or ""
            if p0.endswith("::parse") and "str" in p0:
                sub = (c0["f"].get("substs") or "").strip("[]")
                if re.fullmatch(r"[iu](8|16|32)|f32", sub):
                    narrow.append((sub, c0.get("line")))
        if narrow:
            rep.violation(rid, "literal:%s:width" % tname, "%s converts a component with parse::<%s>() (line %s): components beyond that type's range make a valid literal null or lose the component"
                          % (name, narrow[0][0], narrow[0][1]), "%s:%s" % (h["file"], narrow[0][1]))
        from hireval import Evaluator as _Ev
        ev_holder[0] = _Ev(F, ints=True)
        outs, ev = c15.fold(F, name, [("sym", "value")], hook)
        key = "literal:%s" % tname
        if outs is None:
            rep.undecided(rid, key, "%s has too many paths to fold" % name)
            continue
        probs, seen, und = [], 0, 0
        for conds, v in outs:
            if not (v[0] == "v" and v[1] == "Ok" and v[2] and v[2][0][0] == "v" and v[2][0][1] in (tname, "Self") and v[2][0][2]):
                continue
            lin = ev.as_lin(v[2][0][2][0])
            if lin is None:
                und += 1
                continue
            seen += 1
            present = {}
            for c in conds:
                if c[0] == "group":
                    present[c[1]] = c[2]
            # (the fraction group is `.` followed by digits; the only text that does not convert is the bare `.`, which denotes no fraction: PT0.S is pinned by the repository's tests)
            dropped = sorted({c[1] for c in conds if c[0] == "parsed" and c[2] is False and present.get(c[1]) and c[1] != "fractional"})
            if dropped:
                probs.append("a literal whose %s component is written but cannot be converted is accepted with that component ignored (it must be rejected)" % " / ".join(dropped))
                continue
            sg = -1 if present.get(sign_group) else 1
            unparsed = {c[1] for c in conds if c[0] == "parsed" and c[2] is False}
            want = {g: sg * w for g, w in weights.items() if present.get(g) and g not in unparsed}
            if lin[0] != want or lin[1] != 0:
                got = " + ".join("%d*%s" % (c, g) for g, c in sorted(lin[0].items())) or "0"
                exp = " + ".join("%d*%s" % (c, g) for g, c in sorted(want.items())) or "0"
                probs.append("with %s%s present the value is %s, expected %s" % ("sign, " if sg < 0 else "", ", ".join(sorted(want)), got, exp))
        if probs:
            rep.violation(rid, key, "%s: %s" % (name, "; ".join(sorted(set(probs))[:3])), "%s:%s" % (h["file"], h["line"]))
        elif und or not seen:
            rep.undecided(rid, key, "%s: %s" % (name, "the value does not fold to a linear form of the components on %d path(s)" % und if und else "no path returning Ok(%s(..)) was folded" % tname))
        else:
            rep.ok(rid, key, "%d returning paths: sign * sum(component * unit)" % seen)
    return n


# ======================================================================================================
# R14.4: the text form of a duration: every arm of the component-presence table prints the sign and exactly the present components, in order
def decode_template(v):
    """format_args template of this toolchain: ByteStr([...]) -> list of 'ARG' / literal text; None when not decodable"""
    import re as _re
    m = _re.match(r"^ByteStr\(\[([0-9, ]*)\]", str(v))
    if not m:
        return None
    bs = [int(x) for x in m.group(1).split(",") if x.strip()]
    out, i = [], 0
    while i < len(bs):
        b = bs[i]
        if b == 0:
            break
        if b == 192:
            out.append("ARG")
            i += 1
        elif b < 128:
            out.append(bytes(bs[i + 1:i + 1 + b]).decode("utf-8", "replace"))
            i += 1 + b
        else:
            return None
    return out


def duration_text_rule(F, rep):
    rid = rep.rule("R14.4", "text form of durations: every arm of the presence table prints the sign first and exactly the components whose presence flag is true, in calendar order with their unit letters (P nD T nH nM n.fS)")
    SPEC = {"FeelDaysAndTimeDuration": ["D", "H", "M", "S", "f"], "FeelYearsAndMonthsDuration": ["Y", "M"]}
    for tname, units in sorted(SPEC.items()):
        cands = [k for k in F.hir if k.startswith("<dmntk_feel::temporal::") and ("::%s as core::fmt::Display>::fmt" % tname) in k and "{closure" not in k]
        key = "text:%s" % tname
        if not cands:
            rep.missing_anchor(rid, "Display for %s" % tname)
            continue
        h = F.hir[cands[0]]
        tables = [m for m, _ in find_hir(h["body"], lambda x: x.get("k") == "Match" and x.get("src") == "Normal" and strip(x["e"]).get("k") == "Tup" and len(strip(x["e"])["es"]) == len(units))]
        if len(tables) != 1:
            rep.undecided(rid, key, "Display for %s is not a match over a tuple of %d presence flags" % (tname, len(units)))
            continue
        m = tables[0]
        # the local tested by each flag `x > 0`
        flag_locals = []
        for e in strip(m["e"])["es"]:
            e = strip(e)
            a = strip(e.get("a", {}))
            flag_locals.append(a.get("name") if e.get("k") == "Binary" and e.get("op") in (">", "!=") and a.get("res") == "local" else None)
        if None in flag_locals:
            rep.undecided(rid, key, "presence flags of %s are not of the form `component > 0`" % tname)
            continue
        probs, narms, und = [], 0, 0
        for arm in m["arms"]:
            ps = arm["p"].get("ps") if arm["p"].get("k") == "Tuple" else None
            if not ps or not all(q.get("k") == "Lit" and q.get("lit") == "bool" for q in ps):
                und += 1
                continue
            flags = [q["v"] for q in ps]
            tm = [x for x, _ in find_hir(arm["b"], lambda x: x.get("k") == "Lit" and x.get("lit") == "other" and str(x.get("v", "")).startswith("ByteStr("))]
            tpl = decode_template(tm[0]["v"]) if len(tm) == 1 else None
            argt = [x for x, _ in find_hir(arm["b"], lambda x: x.get("k") == "LetStmt" and x.get("p", {}).get("name") == "args" and strip(x.get("e", {})).get("k") == "Tup")]
            args = [local_of(e) for e in strip(argt[0]["e"])["es"]] if argt else []
            if tm and not argt:
                args = []
            if not tm:
                # no placeholders: the template is a plain string literal
                lits = [x["v"] for x, _ in find_hir(arm["b"], lambda x: x.get("k") == "Lit" and x.get("lit") == "str")]
                tpl = [lits[0]] if len(lits) == 1 else None
            if tpl is None:
                und += 1
                continue
            narms += 1
            text = "".join("{}" if t == "ARG" else t for t in tpl)
            if not any(flags):
                if "{}" in text or not text.startswith("P"):
                    probs.append("the zero duration prints as %r" % text)
                continue
            # expected template
            exp, exp_args = "{}P", ["<sign>"]
            if tname == "FeelYearsAndMonthsDuration":
                for f, u, l in zip(flags, units, flag_locals):
                    if f:
                        exp += "{}" + u
                        exp_args.append(l)
            else:
                d, hh, mm, ss, nn = flags
                if d:
                    exp += "{}D"
                    exp_args.append(flag_locals[0])
                if hh or mm or ss or nn:
                    exp += "T"
                if hh:
                    exp += "{}H"
                    exp_args.append(flag_locals[1])
                if mm:
                    exp += "{}M"
                    exp_args.append(flag_locals[2])
                if ss and nn:
                    exp += "{}.{}S"
                    exp_args += [flag_locals[3], None]
                elif ss:
                    exp += "{}S"
                    exp_args.append(flag_locals[3])
                elif nn:
                    exp += "0.{}S"
                    exp_args.append(None)
            if text != exp:
                probs.append("the arm %s prints %r, expected %r" % (tuple(flags), text, exp))
            elif len(args) == len(exp_args):
                for i, (a, w) in enumerate(zip(args, exp_args)):
                    if w is not None and w != "<sign>" and a != w:
                        probs.append("the arm %s prints `%s` where the component `%s` belongs" % (tuple(flags), a, w))
                    if w == "<sign>" and a in flag_locals:
                        probs.append("the arm %s prints the component `%s` in the position of the sign" % (tuple(flags), a))
        if probs:
            rep.violation(rid, key, "Display for %s: %s" % (tname, "; ".join(probs[:3])), "%s:%s" % (h["file"], h["line"]))
        elif und or narms < 2 ** len(units):
            rep.undecided(rid, key, "Display for %s: %d of %d arms decoded" % (tname, narms, 2 ** len(units)))
        else:
            rep.ok(rid, key, "%d arms agree with the generated templates" % narms)


def local_of(e):
    e = strip(e)
    while e.get("k") in ("AddrOf", "Cast") or (e.get("k") == "Unary" and e.get("op") == "*"):
        e = strip(e.get("e") or e.get("a"))
    return e.get("name") if e.get("k") == "Path" and e.get("res") == "local" else None


# ======================================================================================================
# R14.5: the fraction of a second written in a literal reaches the nanosecond count without a binary floating point carrier
def fraction_carrier_rule(F, rep):
    """'denotes exactly the written value': the digits behind the point are a decimal fraction, and most decimal fractions have no exact binary representation -
    `(text.parse::<f64>() * 1e9).trunc()` is one nanosecond short for about one fraction in sixty (`.0157` -> 15 699 999 ns).  Decided on MIR: wherever a function of the
    temporal module builds a FeelTime, the backward data slice of the nanosecond component must not contain a parse into f32 / f64 or a float-to-integer cast."""
    import mirutil
    rid = rep.rule("R14.5", "the fractional seconds of a literal reach the nanosecond component of the time as decimal digits: no f32 / f64 parse and no float-to-integer cast in its data slice")
    n_sites = 0
    converters = set()
    for n, b in sorted(F.bodies.items()):
        if "dmntk_feel::temporal" not in n:
            continue
        B = None
        for bi, bl in enumerate(b["blocks"]):
            for st in bl["s"]:
                if not (st[0] == "A" and st[2][0] == "Agg" and isinstance(st[2][1], list) and st[2][1][0] == "adt"):
                    continue
                if st[2][1][1].endswith("::FeelTime") and len(st[2][2]) == 5:
                    nanos = st[2][2][3]
                elif st[2][1][1].endswith("::FeelDaysAndTimeDuration") and len(st[2][2]) == 1 and n.endswith("::try_from"):
                    nanos = st[2][2][0]           # the total of a duration literal, in nanoseconds
                else:
                    continue
                if nanos[0] not in ("C", "M"):
                    continue
                n_sites += 1
                B = B or mirutil.Body(F, b)
                seen, work = set(), [nanos[1][0]]
                floats = []
                while work:
                    l = work.pop()
                    if l in seen:
                        continue
                    seen.add(l)
                    for (dbi, si, kind, d) in B.defs.get(l, []):
                        ls = set()
                        if kind == "call":
                            p = d["f"].get("p") or ""
                            sub = str(d["f"].get("substs") or "")
                            if (p == "core::str::<impl str>::parse" and re.search(r"\bf(32|64)\b", sub)) or re.search(r"<f(32|64) as core::str::traits::FromStr>::from_str$", p):
                                floats.append("parse::<%s>() (line %s)" % ("f64" if "64" in sub + p else "f32", d.get("line")))
                            c15.operand_locals(d.get("args", []), ls)
                        else:
                            rv = d[2]
                            if rv[0] == "Cast" and "FloatToInt" in str(rv[1]):
                                floats.append("a float-to-integer cast (line %s)" % d[-1])
                            c15.operand_locals(rv, ls)
                            if rv[0] in ("Ref", "AddrOf", "RawPtr") and isinstance(rv[2], list) and rv[2] and isinstance(rv[2][0], int):
                                ls.add(rv[2][0])
                        work.extend(ls - seen)
                # functions of the temporal module that turn the fraction *text* into the number (a &str parameter, an integer result) are folded on representative texts below
                near = [bb for nn, bb in F.bodies.items() if nn == n or nn.startswith(n + "::{closure")]
                for p_ in {bl["t"][1]["f"].get("p") or "" for bb in near for bl in bb["blocks"] if bl["t"][0] == "call"}:
                    if True:
                        hb = F.bodies.get(p_)
                        if p_.startswith("dmntk_feel::temporal") and hb is not None and hb.get("argc") == 1 and "str" in F.ty(hb, hb["locals"][1]) and re.search(r"^u(32|64|size)$", F.ty(hb, hb["locals"][0])):
                            converters.add(p_)
                key = "%s:%s" % (n.split("::")[-1], st[-1])
                if floats:
                    rep.violation(rid, "carrier:%s" % n.split("::")[-1], "%s builds the nanoseconds of the value through %s: decimal fractions such as .0157 have no exact binary representation and come out one "
                                  "nanosecond short" % (n, sorted(set(floats))[0]), "%s:%s" % (b["file"], st[-1]))
                else:
                    rep.ok(rid, key, "no binary floating point value in the data slice of the nanosecond component")
    if not n_sites:
        rep.undecided(rid, "sites", "no function of the temporal module builds a FeelTime from a computed nanosecond value")
    # the conversion of the fraction text, folded on representative texts: `.d1..dk` denotes d1..dk padded / cut to nine digits
    import strfold
    from hireval import Evaluator, TooManyPaths
    for cv in sorted(converters):
        probs, und = [], 0
        for t in (".5", ".0157", ".123456789", ".1234567891", ".000000001", ".999999999", ".10"):
            ev = Evaluator(F, ints=True, max_paths=400)
            sf = strfold.StrFold(ev)
            ev.call_hook = sf.hook
            try:
                outs = ev.run_fn(cv, [("lit", t)])
            except (TooManyPaths, ValueError, KeyError, RecursionError):
                outs = []
            vals = {v[1] if isinstance(v, tuple) and v[0] == "lit" and isinstance(v[1], int) else None for _, v in outs}
            if len(vals) != 1 or None in vals:
                und += 1
                continue
            want = int((t[1:] + "000000000")[:9])
            got = vals.pop()
            if got != want:
                probs.append("%s is read as %d ns, it denotes %d ns" % (t, got, want))
        key = "fraction:%s" % cv.split("::")[-1]
        if probs:
            rep.violation(rid, key, "%s: %s" % (cv, "; ".join(probs[:3])), F.bodies[cv]["file"])
        elif und:
            rep.undecided(rid, key, "%d of 7 representative fraction texts do not fold to a number" % und)
        else:
            rep.ok(rid, key, "7 representative fraction texts fold to their nanosecond value")


# ======================================================================================================
# R14.6: the regular expressions of the literal readers admit the lexical forms of XML Schema dates / times and the names of the zone database
LEXICAL = {
    # constant -> (texts that are valid lexical forms, texts that are malformed in a way no later validation can repair)
    "DATE_PATTERN": (["2021-03-28", "-2021-03-28", "999999999-12-31", "-999999999-01-01", "0999-01-01", "0001-01-01", "12345-06-07"],
                     ["21-03-28", "2021-3-28", "2021-03-8", "02021-03-28", "1234567890-01-01", "2021/03/28"]),
    "TIME_PATTERN": (["10:00:00", "23:59:59.999999999", "00:00:00.5"], ["1:00:00", "10:00", "10:00:00.", "10.00.00"]),
    "OFFSET_PATTERN": (["+05:30", "-00:30", "+14:00", "-14:59:59"], ["+5:30", "05:30", "+05:3", "+05-30"]),
    "ZONE_PATTERN": (["@UTC", "@Europe/Warsaw", "@America/Argentina/Buenos_Aires", "@Etc/GMT+5", "@Etc/GMT-14", "@America/Port-au-Prince", "@Asia/Ho_Chi_Minh", "@EST5EDT"],
                     ["@", "Europe/Warsaw", "@Europe Warsaw"]),
    # XML Schema durations: a `T` is followed by at least one time component, a decimal point by at least one digit (texts without any component - "P", "PT" - match the
    # pattern and are rejected later by the reader, which wants one component: they are not in the table)
    "REGEX_DAYS_AND_TIME": (["P1D", "-P1D", "PT1H", "PT1M", "PT1S", "PT0.5S", "P1DT2H3M4.123456789S", "-PT0.000000001S", "P18446744073709551615D", "PT36H"],
                            ["P1DT", "-P0DT", "PT1.S", "P2DT3H4M5.S", "P1D2H", "1D", "P1H", "PT1D", "P-1D", "PT1S "]),
    "REGEX_YEARS_AND_MONTHS": (["P1Y", "P1M", "P1Y2M", "-P1Y", "P14M", "P999999999Y"], ["P1Y2", "1Y", "P1M1Y", "P-1Y", "PT1M", "P1.5Y"]),
}


def lexical_pattern_rule(F, rep):
    """The readers of temporal literals first match the text against regular expressions assembled from four constants.  A constant is a specification of a lexical form and can
    be judged as such: it is compiled (same syntax in Python's re for the constructs used; a constant that does not compile there is UNDECIDED) and matched against a table of
    valid forms - XML Schema 1.1 part 2 for dates (at least four year digits, a leading zero only to pad to four), times and offsets, the IANA time zone database for zone names
    (letters, digits, `_`, `-`, `+`, `/`) - and of malformed ones.  A valid form the pattern rejects can never be read; a malformed one it admits is parsed as something else."""
    rid = rep.rule("R14.6", "the regular expressions of the literal readers admit the valid lexical forms of dates, times, offsets and zone names (XML Schema, IANA zone database) and reject malformed ones")
    for const, (valid, malformed) in sorted(LEXICAL.items()):
        cands = [n for n in F.hir if n.startswith("dmntk_feel::temporal") and n.split("::")[-1] == const]
        if not cands:
            rep.undecided(rid, const, "no constant of this name in the temporal module (the patterns have been reorganised)")
            continue
        b = strip(F.hir[cands[0]]["body"])
        if b.get("k") != "Lit" or not isinstance(b.get("v"), str):
            rep.undecided(rid, const, "the constant is not a string literal")
            continue
        try:
            rx = re.compile("(?:%s)" % b["v"])
        except re.error as e:
            rep.undecided(rid, const, "the pattern does not compile as a Python regular expression (%s)" % e)
            continue
        rejected = [t for t in valid if rx.fullmatch(t) is None]
        admitted = [t for t in malformed if rx.fullmatch(t) is not None]
        where = "%s:%s" % (F.hir[cands[0]]["file"], F.hir[cands[0]]["line"])
        if rejected or admitted:
            rep.violation(rid, const, "%s = %r %s" % (const, b["v"], "; ".join(x for x in (
                "rejects the valid form(s) %s" % ", ".join(rejected) if rejected else "", "admits the malformed text(s) %s" % ", ".join(admitted) if admitted else "") if x)), where)
        else:
            rep.ok(rid, const, "%d valid forms matched, %d malformed texts rejected" % (len(valid), len(malformed)))


# ======================================================================================================
# R14.7: the text of a date is a literal that reads back as the same date
def date_text_rule(F, rep):
    """Display for FeelDate folded on representative (year, month, day) triples - both signs, fewer than four year digits, nine digits; the text must match the reader's own
    DATE_PATTERN constant and the matched sign / year / month / day must be the components printed."""
    import strfold
    from hireval import Evaluator, TooManyPaths
    rid = rep.rule("R14.7", "the text form of a date (Display for FeelDate, folded on representative dates) matches the reader's date pattern and reads back as the same year, month and day")
    disp = [n for n in F.hir if re.match(r"^<dmntk_feel::temporal::date::FeelDate as core::fmt::Display>::fmt$", n)]
    pat = [n for n in F.hir if n.startswith("dmntk_feel::temporal") and n.split("::")[-1] == "DATE_PATTERN"]
    if not disp:
        rep.missing_anchor(rid, "Display for FeelDate")
        return
    pb = strip(F.hir[pat[0]]["body"]) if pat else {}
    try:
        rx = re.compile("(?:%s)" % pb["v"]) if pb.get("k") == "Lit" else None
    except re.error:
        rx = None
    if rx is None:
        rep.undecided(rid, "date-text", "the date pattern constant was not found / does not compile")
        return
    h = F.hir[disp[0]]
    probs, und, ok = [], 0, 0
    for y in (-999999999, -12345, -1000, -999, -1, 1, 999, 1000, 2021, 999999999):
        for m_, d_ in ((1, 1), (12, 31)):
            ev = Evaluator(F, ints=True, max_paths=400)
            sf = strfold.StrFold(ev)

            def hook(c, a, s_, sf=sf):
                c = c or ""
                if c.endswith("::write_fmt") and len(a) == 2:
                    r = sf.format_value(a[1])
                    return ("written", r) if r is not None else None
                return sf.hook(c, a, s_)
            ev.call_hook = hook
            try:
                outs = ev.run(h["params"], h["body"], [("tuple", [("lit", y), ("lit", m_), ("lit", d_)]), ("sym", "f")])
            except (TooManyPaths, ValueError, KeyError, RecursionError):
                outs = []
            txts = set()
            for _, v in outs:
                if isinstance(v, tuple) and v[0] == "written" and strfold.as_str(v[1]) is not None and all(a_[0] == "c" for a_ in strfold.as_str(v[1])[1]):
                    txts.add("".join(a_[1] for a_ in strfold.as_str(v[1])[1]))
                else:
                    txts.add(None)
            if len(txts) != 1 or None in txts:
                und += 1
                continue
            t = txts.pop()
            mt = rx.fullmatch(t)
            back = None
            if mt:
                try:
                    gd = mt.groupdict()
                    back = ((-1 if gd.get("sign") else 1) * int(gd["year"]), int(gd["month"]), int(gd["day"]))
                except (KeyError, ValueError, TypeError):
                    back = None
            if back != (y, m_, d_):
                probs.append("the date (%d, %d, %d) is printed `%s`, which %s" % (y, m_, d_, t, "is not a date literal" if not mt else "reads back as %s" % (back,)))
            else:
                ok += 1
    if probs:
        rep.violation(rid, "date-text", "; ".join(probs[:3]) + " (%d of 20 representative dates)" % len(probs), "%s:%s" % (h["file"], h["line"]))
    elif und:
        rep.undecided(rid, "date-text", "%d of 20 representative dates do not fold to a literal text" % und)
    else:
        rep.ok(rid, "date-text", "20 representative dates print as literals that read back as the same date")
