"""C14 (clauses): the validation gates and unit tables behind temporal literals - time-of-day bounds, the 14-hour limit of offsets, sign handling of
offsets when read and printed, the unit constants durations are normalised with.  Which texts denote which values in general is not decided."""
import re

from facts import find_hir, strip
from props import c15

LEVEL = "other"
CRATES_QUICK = ["dmntk_feel"]
CRATES_THOROUGH = None
T = "dmntk_feel::temporal::"


def run(F, rep, tier):
    rep.explanation = ("Reading and printing temporal literals for all texts is value-level (regular expressions, chrono) and is not decided. Decided are the finite gates "
                       "the clauses name: hour < 24, minute < 60, second < 60 for every time of day that is constructed from parts; offset hours above 14 are rejected; "
                       "an offset's sign applies to the whole hh:mm:ss amount when read, and minutes / seconds are printed from the magnitude (so the text of a negative "
                       "offset is itself a valid literal); durations are normalised with the correct unit constants (P1DT12H for PT36H, P1Y2M for P14M).")
    rep.assumptions += ["the regular expressions of the literals", "chrono's and chrono-tz's calendars and zone data", "fraction-of-second conversion"]
    r1 = rep.rule("R14.1", "is_valid_time admits exactly hour < 24, minute < 60, second < 60, and every constructor of a time of day from parts passes through it")
    r2 = rep.rule("R14.2", "UTC offsets with more than 14 hours are rejected when read")
    vt = F.hir.get(T + "is_valid_time")
    if vt is None:
        rep.missing_anchor(r1, T + "is_valid_time")
    else:
        params = [p.get("name") for p in vt.get("params", [])]
        got = c15.canon(vt["body"], params).replace(" ", "")
        conj = sorted(re.findall(r"\(p\d<\d+\)", got))
        if conj == ["(p0<24)", "(p1<60)", "(p2<60)"] and got.count("&&") == 2 and "||" not in got:
            rep.ok(r1, "bounds", "hour < 24 && minute < 60 && second < 60")
        else:
            rep.violation(r1, "bounds", "is_valid_time computes %s; a time of day requires hour < 24, minute < 60 and second < 60" % got, "%s:%s" % (vt["file"], vt["line"]))
        # gates: the Option-returning constructors from parts and the text parsers call it
        users = sorted(n for n, h in F.hir.items() if n.startswith(T) and n != T + "is_valid_time" and
                       find_hir(h["body"], lambda x: x.get("k") == "Call" and x.get("callee") == T + "is_valid_time"))
        rep.floor(r1, "constructors / parsers gated by is_valid_time", len(users), 3)
        for u in users:
            h = F.hir[u]
            # the construction of the time (FeelTime(..) / Self(..) with 5 fields) must be inside the branch taken when the test holds
            ok = True
            for i, _ in find_hir(h["body"], lambda x: x.get("k") == "If" and find_hir(x["c"], lambda y: y.get("k") == "Call" and y.get("callee") == T + "is_valid_time")):
                neg = strip(i["c"]).get("k") == "Unary" and strip(i["c"]).get("op") == "!"
                branch = i.get("else") if neg else i["then"]
                other = i["then"] if neg else i.get("else")
                ctor = lambda b: bool(b) and bool(find_hir(b, lambda y: y.get("k") == "Call" and "Ctor" in (y.get("dk") or "") and (y.get("callee") or "").endswith(("FeelTime", "::Self")) and len(y.get("args", [])) == 5))
                if other is not None and ctor(other) and not ctor(branch):
                    ok = False
            if ok:
                rep.ok(r1, "gate:%s" % u[len(T):], "time built under is_valid_time")
            else:
                rep.violation(r1, "gate:%s" % u[len(T):], "%s builds the time on the branch where is_valid_time failed" % u, "%s:%s" % (h["file"], h["line"]))
    fz = F.hir.get(T + "zone::FeelZone::from_captures")
    if fz is None:
        rep.missing_anchor(r2, T + "zone::FeelZone::from_captures")
    else:
        lims = []
        for i, _ in find_hir(fz["body"], lambda x: x.get("k") == "If"):
            c = strip(i["c"])
            if c.get("k") == "Binary" and c.get("op") in (">", ">=", "<", "<=") and "hours" in (strip(c["a"]).get("name") or "") + (strip(c["b"]).get("name") or ""):
                a, b, op = strip(c["a"]), strip(c["b"]), c["op"]
                k = b.get("v") if b.get("k") == "Lit" else a.get("v")
                # normalise to "hours > k rejects"
                rejects_none = bool(find_hir(i["then"], lambda y: y.get("k") == "Ret" and "None" in repr(y)))
                if a.get("name") and op == ">" and rejects_none:
                    lims.append(k)
                elif a.get("name") and op == ">=" and rejects_none:
                    lims.append(k - 1)
        if lims == [14]:
            rep.ok(r2, "offset-hours", "hours > 14 -> no zone")
        else:
            rep.violation(r2, "offset-hours", "the hour limit of UTC offsets is %s (expected: offsets with more than 14 hours are rejected)" % (lims or "not found"), "%s:%s" % (fz["file"], fz["line"]))
    c15.offset_rule(F, rep)
    c15.unit_constants_rule(F, rep)
