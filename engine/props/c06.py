"""C06: the parser builds the tree dictated by FEEL precedence and associativity (DESIGN §3 C06)."""
import json
import os
import re

import lalr
from facts import find_hir, strip, walk_hir

LEVEL = "translation_validation"
CRATES_QUICK = ["dmntk_feel_parser", "dmntk_feel"]
CRATES_THOROUGH = None
VERIF = os.path.dirname(os.path.dirname(os.path.dirname(os.path.abspath(__file__))))
REPO = os.environ.get("DMNTK_REPO", "/repo")


def camel(tok):
    return "".join(p.capitalize() for p in tok.lower().split("_"))


def load_grammar(rep, rid):
    p = os.path.join(REPO, "feel-grammar", "src", "feel.y")
    if not os.path.exists(p):
        rep.missing_anchor(rid, p)
        return None
    return lalr.parse_y(open(p).read())


def load_tables(F, rep, rid):
    consts = lalr.const_arrays_from_hir([h for h in F.hir.values() if h["_crate"].startswith("dmntk_feel_parser")])
    try:
        return lalr.Tables(consts)
    except lalr.GrammarError as e:
        rep.missing_anchor(rid, str(e))
        return None


def run(F, rep, tier):
    rep.explanation = ("Translation validation of the committed LALR(1) tables against feel.y (independent LALR(1) construction, "
                       "state bijection, cell-by-cell comparison), operator-pair check of the decoded tables against the FEEL "
                       "specification's binding levels, token numbering lexer<->tables, rule->action->AST node and operand order. "
                       "Nothing is executed; 'programs' = (state, look-ahead) cells compared.")
    rep.assumptions += ["bison's yyparse semantics for the packed tables (as re-implemented by Parser::parse)",
                        "lexing of literals and the exact extent of a comment are not decided (R06.10 decides that skipping is iterated)"]
    r1 = rep.rule("R06.1", "committed LALR tables == LALR(1)(feel.y): state bijection, every action/goto cell")
    r2 = rep.rule("R06.2", "operator pairs: table action at every precedence conflict agrees with the FEEL specification's binding levels")
    r3 = rep.rule("R06.3", "token numbering: TokenType discriminants, YY_TRANSLATE, YY_R1/YY_R2, YY_FINAL agree with feel.y")
    r4 = rep.rule("R06.4", "rule -> action -> AST node: reduce() dispatch equals the grammar's actions; operands in source order")
    # premise (C10): which token a word becomes decides the tree of `for x in a return x in b` - the iteration variable ends at the first `in`, and it is cut out before
    # the scope is consulted
    from props import c10
    c10.first_in_rule(F, rep)
    c10.variable_before_scope_rule(F, rep)
    g = load_grammar(rep, r1)
    T = load_tables(F, rep, r1)
    if g is None or T is None:
        return
    driver_guard_rule(F, rep, T)
    driver_decision_rule(F, rep, T)
    lexer_mode_rule(F, rep)
    skipper_rule(F, rep)
    layout_siblings_rule(F, rep)
    utf8_mask_rule(F, rep)
    comment_extent_rule(F, rep)
    layout_fold_rule(F, rep)
    char_class_rule(F, rep)
    binary_action_rule(F, rep)
    a = lalr.build_lalr(g)
    actions, conflicts = lalr.resolve_actions(a)
    info, mism = lalr.compare(a, actions, T)
    cells = info.get("cells", 0) + info.get("gotos", 0)
    rep.analysed.update(dict(grammar_rules=len(g.rules), tokens=len(g.terminals), lr0_states=len(a.states), table_states=T.nstates,
                             cells_compared=info.get("cells", 0), gotos_compared=info.get("gotos", 0),
                             tolerated_default_reductions=info.get("tolerated_default_reductions", 0),
                             conflicts_resolved_by_precedence=len(conflicts), programs=cells))
    for m in mism:
        key = ":".join(str(m.get(k)) for k in ("kind", "state", "token", "symbol", "rule") if m.get(k) is not None)
        rep.violation(r1, key, "tables disagree with feel.y: %s" % json.dumps(m), "feel-parser/src/lalr.rs")
    for _ in range(cells - len([m for m in mism if m["kind"] in ("cell", "goto")])):
        pass
    rep.rules[r1]["instances"] += cells
    rep.rules[r1]["discharged"] += cells - len([m for m in mism if m["kind"] in ("cell", "goto")])
    rep.rules[r1]["samples"] = [
        {"instance": "state %d (%s), look-ahead %s" % (s, "; ".join(lalr.items_text(a, s, 2)), t), "verdict": "equal", "detail": list(actions[s][t])}
        for s, t in [(s, t) for s in (60, 120, 200) if s < len(a.states) for t in list(actions[s])[:1]]]
    rep.floor(r1, "grammar rules", len(g.rules), 150)
    rep.floor(r1, "LR(0) states", len(a.states), 282)
    rep.floor(r1, "compared cells", info.get("cells", 0), 16000)
    unresolved = [c for c in conflicts if c["resolution"].startswith("unresolved")]
    for c in unresolved:
        rep.violation(r1, "unresolved:%s:%s" % (c["state"], c["token"]), "grammar has an unresolved %s conflict (bison would default): %s" % (c["kind"], c), "feel-grammar/src/feel.y")
    bad = lalr.derives_self(g, a.nullable)
    for nt in bad:
        rep.violation(r1, "cycle:%s" % nt, "non-terminal derives itself: the reduce loop may not terminate", "feel-grammar/src/feel.y")

    if not mism:
        operator_pairs(rep, r2, g, a, T, info, conflicts)
        numbering(F, rep, r3, g, T)
    actions_rule(F, rep, r4, g)


def operator_pairs(rep, rid, g, a, T, info, conflicts):
    orc = json.load(open(os.path.join(VERIF, "tables", "feel_precedence.json")))
    lv = orc["levels"]
    E = orc["expression_nonterminal"]
    pair = info["pair"]
    tnum = info["tnum"]
    judged = 0
    skipped = 0
    uncovered = []
    for c in conflicts:
        if c["kind"] != "S/R":
            continue
        r = g.rules[c["rule"]]
        t = c["token"]
        rhs = r["rhs"]
        if not rhs or rhs[-1] != E or t not in lv:
            uncovered.append("%s: %s / %s" % (r["lhs"], " ".join(rhs), t))
            continue
        if rhs[0] in orc["prefix_lowest"] or r["lhs"] in orc["lowest_lhs"]:
            rl = 0
        elif rhs[0] == "MINUS" and len(rhs) == 2:
            rl = orc["negation_level"]
        elif rhs[0] == E and len(rhs) >= 3 and rhs[1] in lv:
            rl = lv[rhs[1]]
        else:
            uncovered.append("%s: %s / %s" % (r["lhs"], " ".join(rhs), t))
            continue
        tl = lv[t]
        if rl == tl and rl in orc["unordered_levels"]:
            skipped += 1
            continue
        if rl < tl:
            want = "shift"
        elif rl > tl:
            want = "reduce"
        elif rl in orc["left_associative_levels"]:
            want = "reduce"
        else:
            skipped += 1
            continue
        got, dflt = T.action(pair[c["state"]], tnum[t])
        judged += 1
        key = "%s|%s" % (" ".join(rhs), t)
        ok = (got[0] == want) and (want != "reduce" or got[1] == c["rule"] + 1)
        if ok:
            rep.ok(rid, key, "after '%s' on look-ahead %s the tables %s (spec level %d vs %d)" % (" ".join(rhs), t, want, rl, tl))
        else:
            rep.violation(rid, key, "after '%s' on look-ahead %s the tables %s but the FEEL grammar levels (%d vs %d) demand %s"
                          % (" ".join(rhs), t, got, rl, tl, want), "feel-parser/src/lalr.rs (state %d)" % pair[c["state"]])
    rep.floor(rid, "judged operator-pair conflicts", judged, 350)
    rep.analysed["operator_pair_conflicts_judged"] = judged
    rep.analysed["same_level_comparison_pairs_not_ordered_by_spec"] = skipped
    if uncovered:
        rep.note("conflicts outside the oracle (name/path tokenisation, decided by R06.1 only): %s" % sorted(set(uncovered)))


def numbering(F, rep, rid, g, T):
    tt = F.adts.get("dmntk_feel_parser::lalr::TokenType")
    if tt is None:
        rep.missing_anchor(rid, "dmntk_feel_parser::lalr::TokenType")
        return
    discr = {v["name"]: int(v["discr"]) for v in tt["variants"]}
    used = set()
    for r in g.rules:
        used.update(s for s in r["rhs"] if s in g.termset)
    tr = T.c["YY_TRANSLATE"]
    n = 0
    for i, tok in enumerate(g.tokens):
        want = 258 + i
        name = camel(tok)
        n += 1
        if name not in discr:
            if tok in used:
                rep.violation(rid, "token:%s" % tok, "token %s is used by the grammar but TokenType has no variant %s" % (tok, name), "feel-parser/src/lalr.rs")
            else:
                rep.ok(rid, "token:%s" % tok, "precedence-only token, no lexer variant needed")
            continue
        d = discr[name] & 0xFFFF if discr[name] >= 0 else discr[name]
        if d != want:
            rep.violation(rid, "token:%s" % tok, "TokenType::%s = %d but bison numbers %s as %d" % (name, d, tok, want), "feel-parser/src/lalr.rs")
        elif want >= len(tr) or tr[want] != 3 + i:
            rep.violation(rid, "translate:%s" % tok, "YY_TRANSLATE[%d] = %s, expected symbol %d" % (want, tr[want] if want < len(tr) else None, 3 + i), "feel-parser/src/lalr.rs")
        else:
            rep.ok(rid, "token:%s" % tok, "TokenType::%s = %d -> symbol %d" % (name, d, 3 + i))
    # all other entries of YY_TRANSLATE map to $undefined (2), entry 0 to $end
    badtr = [i for i, v in enumerate(tr) if not ((i == 0 and v == 0) or (258 <= i < 258 + len(g.tokens)) or (i == 256 and v == 1) or v == 2)]
    if badtr:
        rep.violation(rid, "translate:other", "YY_TRANSLATE maps non-token codes %s to grammar symbols" % badtr[:8], "feel-parser/src/lalr.rs")
    else:
        rep.ok(rid, "translate:other", "%d non-token codes map to $undefined" % (len(tr) - len(g.tokens) - 1))
    for nm, want in (("YyEof", 0), ("YyError", 256), ("YyUndef", 257), ("YyEmpty", -2)):
        d = discr.get(nm)
        if d is not None and d > (1 << 63):
            d -= 1 << 128 if d > (1 << 127) else 1 << 64
        if d != want:
            rep.violation(rid, "token:%s" % nm, "TokenType::%s = %s, bison uses %d" % (nm, d, want), "feel-parser/src/lalr.rs")
        else:
            rep.ok(rid, "token:%s" % nm)
    if T.c["YY_LAST"] != len(T.c["YY_TABLE"]) - 1 or len(T.c["YY_TABLE"]) != len(T.c["YY_CHECK"]):
        rep.violation(rid, "YY_LAST", "YY_LAST=%d but YY_TABLE has %d and YY_CHECK %d entries" % (T.c["YY_LAST"], len(T.c["YY_TABLE"]), len(T.c["YY_CHECK"])), "feel-parser/src/lalr.rs")
    else:
        rep.ok(rid, "YY_LAST")
    rep.floor(rid, "tokens", n, 58)


def pop_provenance(fn_hir, F=None):
    """returns (pushed constructor path, [pop index per constructor argument]) for every yy_node_stack.push(AstNode::V(..))"""
    env = {}
    counter = [0]
    pushes = []

    def is_pop(n):
        return n.get("k") == "MethodCall" and n.get("method") == "pop" and "Vec" in (n.get("callee") or "")

    def prov(e):
        """set of pop indices an expression's value derives from"""
        e0 = e
        out = set()

        def f(n, parents):
            if n.get("k") == "Path" and n.get("res") == "local" and n["name"] in env:
                out.update(env[n["name"]])
            elif is_pop(n):
                if id(n) not in popids:
                    popids[id(n)] = counter[0]
                    counter[0] += 1
                out.add(popids[id(n)])
        walk_hir(e0, f)
        return out
    popids = {}

    def bind(pat, val):
        names = []

        def f(p):
            if isinstance(p, dict):
                if p.get("k") == "Bind":
                    names.append(p["name"])
                for v in p.values():
                    if isinstance(v, (dict, list)):
                        f(v)
            elif isinstance(p, list):
                for x in p:
                    f(x)
        f(pat)
        for nm in names:
            env[nm] = val

    ctor_env = {}      # function-pointer parameters of an expanded helper bound to the constructor passed by the action

    def expand_helper(n):
        """`self.reduce_binary_operator(AstNode::Add)`: a private Parser method shared by several actions is analysed in place, its constructor
        parameter bound to the constructor the action passes"""
        cal = n.get("callee") or ""
        if F is None or not re.match(r"^dmntk_feel_parser::parser::Parser::(<[^>]*>::)?\w+$", cal) or cal.split("::")[-1].startswith("action_"):
            return False
        hh = F.hir.get(cal)
        if hh is None or hh is fn_hir or len(expanding) > 2 or cal in expanding:
            return False
        actual = ([n["recv"]] if n.get("k") == "MethodCall" else []) + list(n.get("args", []))
        saved = dict(ctor_env)
        for p2, a in zip(hh.get("params", []), actual):
            a = strip(a)
            if p2.get("k") == "Bind" and a.get("k") == "Path" and a.get("res") == "def" and ("Ctor" in (a.get("dk") or "") or a.get("dk") in ("Fn", "AssocFn")):
                ctor_env[p2["name"]] = a["path"]
        expanding.append(cal)
        walk_hir(hh["body"], visit)
        expanding.pop()
        ctor_env.clear()
        ctor_env.update(saved)
        return True
    expanding = []

    def is_helper_call(x):
        cal = x.get("callee") or ""
        return x.get("k") in ("MethodCall", "Call") and F is not None and re.match(r"^dmntk_feel_parser::parser::Parser::(<[^>]*>::)?\w+$", cal) \
            and not cal.split("::")[-1].startswith("action_") and cal in F.hir and F.hir[cal] is not fn_hir and cal not in expanding and len(expanding) <= 2

    def helper_components(n):
        """`let (lhs, rhs) = self.pop_operands()?`: a private Parser method that pops and *returns* nodes - provenance of each component of its result"""
        cal = n["callee"]
        hh = F.hir[cal]
        saved = dict(env)
        expanding.append(cal)
        walk_hir(hh["body"], visit)
        expanding.pop()
        body = strip(hh["body"])
        ret = body["b"].get("e") if body.get("k") == "Block" else body
        rets = [r["e"] for r, _ in find_hir(hh["body"], lambda x: x.get("k") == "Ret" and "e" in x)]
        comps = None
        for r in ([ret] if ret is not None else []) + rets:
            r = strip(r)
            while r.get("k") == "Call" and "Ctor" in (r.get("dk") or "") and (r.get("callee") or "").split("::")[-1] in ("Ok", "Some") and r.get("args"):
                r = strip(r["args"][0])
            if r.get("k") == "Call" and "Ctor" in (r.get("dk") or "") and (r.get("callee") or "").split("::")[-1] in ("Err", "None"):
                continue
            if r.get("k") == "Call" and (r.get("callee") or "").endswith("from_residual"):
                continue          # the error exit of a `?`
            cs = [prov(x) for x in r["es"]] if r.get("k") == "Tup" else [prov(r)]
            if comps is None:
                comps = cs
            elif len(cs) == len(comps):
                comps = [a | b2 for a, b2 in zip(comps, cs)]
            else:
                comps = [set().union(*comps, *cs)]
        env.clear()
        env.update(saved)
        return comps

    def visit(n, parents):
        k = n.get("k")
        if k == "LetStmt" and "e" in n:
            hc = [x for x, _ in find_hir(n["e"], is_helper_call)]
            if len(hc) == 1:
                comps = helper_components(hc[0])
                if comps is not None:
                    pat = n["p"]
                    if pat.get("k") == "Tuple" and len(pat.get("ps", [])) == len(comps):
                        for q, c in zip(pat["ps"], comps):
                            bind(q, set(c))
                    else:
                        bind(pat, set().union(*comps) if comps else set())
                    return False
        if k in ("MethodCall", "Call") and n.get("callee") and expand_helper(n):
            return False
        if k == "LetStmt" and "e" in n:
            bind(n["p"], prov(n["e"]))
            return False
        if k == "Let":  # if let PAT = EXPR
            bind(n["p"], prov(n["e"]))
            return False
        if k == "MethodCall" and n.get("method") == "push" and "Vec" in (n.get("callee") or ""):
            recv = strip(n["recv"])
            if recv.get("k") == "Field" and recv.get("name") == "yy_node_stack" and n["args"]:
                arg = strip(n["args"][0])
                fpath = strip(arg["f"]) if arg.get("k") == "Call" and isinstance(arg.get("f"), dict) else {}
                if arg.get("k") == "Call" and "Ctor" in (arg.get("dk") or ""):
                    pushes.append((arg["callee"], [sorted(prov(x)) for x in arg["args"]], n.get("l")))
                elif arg.get("k") == "Call" and not arg.get("callee") and fpath.get("k") == "Path" and fpath.get("res") == "local" and fpath.get("name") in ctor_env:
                    pushes.append((ctor_env[fpath["name"]], [sorted(prov(x)) for x in arg["args"]], n.get("l")))
                elif arg.get("k") == "Path" and arg.get("res") == "def" and "Ctor" in (arg.get("dk") or ""):
                    pushes.append((arg["path"], [], n.get("l")))
                else:
                    pushes.append((None, [sorted(prov(arg))], n.get("l")))
            return False
        return True
    # statements must be visited in order: walk_hir is pre-order over dict insertion order, which follows the source
    walk_hir(fn_hir["body"], visit)
    return pushes


def actions_rule(F, rep, rid, g):
    red = F.hir.get("dmntk_feel_parser::lalr::reduce")
    if red is None:
        rep.missing_anchor(rid, "dmntk_feel_parser::lalr::reduce")
        return
    matches = find_hir(red["body"], lambda n: n.get("k") == "Match" and n.get("src") == "Normal")
    if not matches:
        rep.missing_anchor(rid, "match in dmntk_feel_parser::lalr::reduce")
        return
    m = matches[0][0]
    disp = {}
    wild = None
    for arm in m["arms"]:
        p = arm["p"]
        calls = find_hir(arm["b"], lambda n: n.get("k") == "MethodCall")
        act = None
        for c, _ in calls:
            mm = re.search(r"ReduceActions::action_(\w+)$", c.get("callee_decl") or c.get("callee") or "")
            if mm:
                act = mm.group(1)
        pats = p["ps"] if p.get("k") == "Or" else [p]
        for q in pats:
            if q.get("k") == "Lit":
                if q["v"] in disp:
                    rep.violation(rid, "rule:%d" % q["v"], "rule number matched twice in reduce()", "feel-parser/src/lalr.rs:%s" % arm.get("l"))
                disp[q["v"]] = act
            elif q.get("k") == "Wild":
                wild = act
    n = 0
    for i, r in enumerate(g.rules):
        num = i + 1
        want = r["action"]
        got = disp.get(num, wild)
        n += 1
        if want != got:
            rep.violation(rid, "rule:%d" % num, "rule %d (%s: %s) has grammar action %s but reduce() dispatches to %s" % (num, r["lhs"], " ".join(r["rhs"]) or "%empty", want, got),
                          "feel-parser/src/lalr.rs")
        else:
            rep.ok(rid, "rule:%d" % num, "%s: %s -> %s" % (r["lhs"], " ".join(r["rhs"]) or "%empty", want))
    for num in disp:
        if not (1 <= num <= len(g.rules)):
            rep.violation(rid, "rule:%d" % num, "reduce() dispatches a rule number the grammar does not have", "feel-parser/src/lalr.rs")
    rep.floor(rid, "dispatched rules", len(disp), 115)
    # action -> node variant and operand order
    tab = json.load(open(os.path.join(VERIF, "tables", "parser_actions.json")))["variant"]
    impl_prefix = "<dmntk_feel_parser::parser::Parser<'parser> as dmntk_feel_parser::lalr::ReduceActions>::action_"
    acts = {nm[len(impl_prefix):]: h for nm, h in F.hir.items() if nm.startswith(impl_prefix)}
    rep.floor(rid, "ReduceActions impl methods", len(acts), 90)
    used_actions = {r["action"] for r in g.rules if r["action"]}
    multi = 0
    for a in sorted(used_actions):
        h = acts.get(a)
        if h is None:
            rep.violation(rid, "action:%s" % a, "grammar action %s has no implementation in Parser" % a, "feel-parser/src/parser.rs")
            continue
        pushes = pop_provenance(h, F)
        for ctor, provs, line in pushes:
            flat = [p for p in provs if p]
            if len(flat) >= 2:
                multi += 1
                mins = [min(p) for p in flat]
                key = "order:%s" % a
                if all(mins[i] > mins[i + 1] for i in range(len(mins) - 1)):
                    rep.ok(rid, key, "%s(%s): arguments in reverse pop order = source order" % (ctor, mins))
                else:
                    rep.violation(rid, key, "action_%s builds %s with node-stack operands in pop order %s; source order requires strictly decreasing pop indices" % (a, ctor, mins),
                                  "%s:%s" % (h["file"], line))
        if a in tab:
            want = "dmntk_feel::ast::AstNode::" + tab[a]
            ctors = [c for c, _, _ in pushes]
            if want in ctors and all(c == want for c in ctors):
                rep.ok(rid, "variant:%s" % a, "pushes %s" % want)
            else:
                rep.violation(rid, "variant:%s" % a, "action_%s pushes %s, the grammar action denotes %s" % (a, ctors, want), "%s:%s" % (h["file"], h["line"]))
    rep.floor(rid, "multi-operand node constructions", multi, 25)


def driver_guard_rule(F, rep, T):
    """R06.5: the driver reads the packed tables (YY_TABLE / YY_CHECK, YY_LAST + 1 entries each) exactly under the guard of bison's skeleton,
    0 <= index <= YY_LAST: a narrower guard silently drops valid table entries (the default action is taken instead), a wider one is a panic
    (C05). Decided on the MIR of Parser::parse: at every bounds check against a constant length of YY_LAST + 1, the interval the dominating
    comparisons / range tests impose on the index must be exactly [0, YY_LAST]."""
    import g1_panic
    rid = rep.rule("R06.5", "the LALR driver consults the packed action/goto table under exactly the skeleton's guard 0 <= index <= YY_LAST")
    names = [k for k in F.bodies if re.match(r"^dmntk_feel_parser::parser::Parser::(<[^>]*>::)?parse$", k)]
    if not names:
        rep.missing_anchor(rid, "dmntk_feel_parser::parser::Parser::parse")
        return
    last = len(T.c["YY_TABLE"]) - 1 if "YY_TABLE" in T.c else None
    if last is None or len(T.c.get("YY_CHECK", [])) != last + 1:
        rep.missing_anchor(rid, "YY_TABLE / YY_CHECK of equal length")
        return
    n = 0
    # the driver = Parser::parse and the private (non-action) methods of Parser its loop may have been split into
    driver = names + sorted(k for k in F.bodies if re.match(r"^dmntk_feel_parser::parser::Parser::(<[^>]*>::)?\w+$", k) and k not in names
                            and not k.split("::")[-1].startswith("action_") and F.bodies[k].get("kind") != "closure")
    sites = []
    for nm in driver:
        A0 = g1_panic.Analyzer(F, nm)
        for s0 in g1_panic.collect_sites(F, nm):
            sites.append((nm, A0, s0))
    for nm, A, s in sites:
        b = F.bodies[nm]
        if s.kind != "assert" or "BoundsCheck" not in s.what or not s.ops or len(s.ops) < 2:
            continue
        ln, ix = A.sym(s.ops[0]), A.sym(s.ops[1])
        if ln != ("c", last + 1):
            continue
        n += 1
        key = "packed-table-access#%d" % (n - 1)
        lo, hi = None, None
        for f in A.facts_at(s.block):
            if f[0] == "cmp":
                op, x, y = f[1], f[2], f[3]
                if y == ix and x[0] == "c":
                    op, x, y = g1_panic.FLIP[op], y, x
                if x == ix and y[0] == "c":
                    k = y[1]
                    if op == ">=":
                        lo = k if lo is None else max(lo, k)
                    elif op == ">":
                        lo = k + 1 if lo is None else max(lo, k + 1)
                    elif op == "<=":
                        hi = k if hi is None else min(hi, k)
                    elif op == "<":
                        hi = k - 1 if hi is None else min(hi, k - 1)
        # `(a..=b).contains(&i)` / `(a..b).contains(&i)` evaluated true on the path
        isig = g1_panic.expr_sig(A, s.ops[1])
        dom = A.dom[s.block]
        for bi in dom:
            t = b["blocks"][bi]["t"]
            if t[0] != "call" or not re.search(r"ops::range::Range(Inclusive)?::<.*>::contains$", t[1]["f"].get("p") or ""):
                continue
            if not any(f[0] == "call" and f[1] == t[1]["f"]["p"] and f[2] is True for f in A.facts_at(s.block)):
                continue
            args = t[1]["args"]
            if len(args) != 2 or g1_panic.expr_sig(A, args[1]) != isig:
                continue
            rs = g1_panic.expr_sig(A, args[0])
            m = re.match(r"^RangeInclusive::new\((-?\d+),(-?\d+)\)$", rs)
            m2 = re.match(r"^Range\{(-?\d+),(-?\d+)\}$", rs)
            if m:
                lo, hi = int(m.group(1)), int(m.group(2))
            elif m2:
                lo, hi = int(m2.group(1)), int(m2.group(2)) - 1
            else:
                # the range is a promoted constant in MIR: read its end points from the type-checked HIR of the same call (same source line)
                h = F.hir.get(nm)
                for mc, _ in find_hir(h["body"], lambda x: x.get("k") == "MethodCall" and x.get("method") == "contains" and x.get("l") == t[1].get("line")):
                    r = strip(mc["recv"])
                    ends = None
                    if r.get("k") == "Call" and (r.get("callee") or "").endswith("RangeInclusive::<Idx>::new") and len(r.get("args", [])) == 2:
                        ends = [const_value(T, x) for x in r["args"]]
                        incl = True
                    elif r.get("k") == "Struct" and (r.get("path") or "").endswith("ops::range::Range"):
                        fs = {f["name"]: f["e"] for f in r.get("fields", [])}
                        ends = [const_value(T, fs.get("start")), const_value(T, fs.get("end"))]
                        incl = False
                    if ends and None not in ends:
                        lo, hi = ends[0], ends[1] if incl else ends[1] - 1
        where = "%s:%s" % (b["file"], s.line)
        if (lo, hi) == (0, last):
            rep.ok(rid, key, "index guarded by 0 <= i <= %d" % last)
        else:
            rep.violation(rid, key, "the packed table is read at line %s under the guard %s <= index <= %s; bison's skeleton requires exactly 0 <= index <= YY_LAST (= %d): "
                          "entries outside the narrower guard are ignored and the default action is taken" % (s.line, lo, hi, last), where)
    rep.floor(rid, "packed-table accesses in Parser::parse", n, 4)


def const_value(T, e):
    if e is None:
        return None
    e = strip(e)
    if e.get("k") == "Lit" and isinstance(e.get("v"), int):
        return e["v"]
    if e.get("k") == "Path" and e.get("res") == "def":
        v = T.c.get((e.get("path") or "").split("::")[-1])
        return v if isinstance(v, int) else None
    if e.get("k") == "Unary" and e.get("op") == "-":
        v = const_value(T, e["a"])
        return -v if v is not None else None
    return None


def driver_decision_rule(F, rep, T):
    """R06.6: what the driver does with the number it reads from a table is bison's: after YY_PACT the default action iff the value is YY_PACT_N_INF;
    after YY_TABLE shift iff > 0, error iff YY_TABLE_N_INF, otherwise reduce; after YY_DEF_ACT error iff 0, otherwise reduce. Decided from the path
    conditions (type-checked HIR) under which `action` is assigned each variant: the comparisons of yy_n with constants are evaluated on the finitely
    many representative values, so any equivalent arrangement of the tests passes."""
    import hirflow
    rid = rep.rule("R06.6", "the driver turns the table value into shift / reduce / error / default exactly as bison's skeleton (regions of yy_n decided on representative values)")
    names = [k for k in F.hir if re.match(r"^dmntk_feel_parser::parser::Parser::(<[^>]*>::)?parse$", k)]
    if not names:
        rep.missing_anchor(rid, "Parser::parse (HIR)")
        return
    h = F.hir[names[0]]

    def driver_helper(callee):
        """private (non-action) methods of Parser the driver loop delegates to (`action = self.step_default()`): expanded at their call sites"""
        if not re.match(r"^dmntk_feel_parser::parser::Parser::(<[^>]*>::)?\w+$", callee or "") or callee.split("::")[-1].startswith("action_") or callee in names:
            return None
        return F.hir.get(callee)
    fl = hirflow.Flow(h, inline=driver_helper)
    # a helper's `return Action::X` (possibly inside Ok(..)) under its conditions is the assignment `action = X` of the single-function form
    for d0, c0, l0, _callee in fl.helper_returns:
        d1 = d0
        while isinstance(d1, tuple) and d1 and d1[0] == "ctor" and isinstance(d1[1], str) and d1[1].endswith(("Result::Ok", "Option::Some")) and len(d1) > 2 and d1[2]:
            d1 = d1[2][0]
        if isinstance(d1, tuple) and d1 and d1[0] == "ctor" and isinstance(d1[1], str) and "::Action::" in d1[1]:
            fl.assigns.append((("local", "action"), ("ctor", d1[1]), c0, c0, l0))
    consts = {k: v for k, v in T.c.items() if isinstance(v, int)}
    ninf, pninf = consts.get("YY_TABLE_N_INF"), consts.get("YY_PACT_N_INF")
    if ninf is None or pninf is None:
        rep.missing_anchor(rid, "YY_TABLE_N_INF / YY_PACT_N_INF")
        return

    def is_yyn(d):
        return isinstance(d, tuple) and d and d[0] == "field" and d[1] == "yy_n"

    def const_of(d):
        if isinstance(d, tuple) and d and d[0] == "lit" and isinstance(d[1], int):
            return d[1]
        if isinstance(d, tuple) and d and d[0] == "def":
            return consts.get((d[1] or "").split("::")[-1])
        if isinstance(d, tuple) and d and d[0] == "un" and d[1] == "-":
            c = const_of(d[2])
            return -c if c is not None else None
        return None

    def holds(entry, v):
        """truth of the conjunction of the simple yy_n-vs-constant comparisons for yy_n = v (None if a condition about yy_n is not of that form)"""
        for c in entry:
            d, pats, taken = c
            if "yy_n" not in repr(d):
                continue
            if not (isinstance(d, tuple) and d and d[0] == "bin" and d[1] in ("==", "!=", "<", "<=", ">", ">=")):
                return None
            a, b, op = d[2], d[3], d[1]
            if is_yyn(b) and const_of(a) is not None:
                a, b, op = b, a, {"<": ">", ">": "<", "<=": ">=", ">=": "<=", "==": "==", "!=": "!="}[op]
            k = const_of(b)
            if not is_yyn(a) or k is None:
                return None
            r = {"==": v == k, "!=": v != k, "<": v < k, "<=": v <= k, ">": v > k, ">=": v >= k}[op]
            if r != taken:
                return False
        return True
    # table reads into yy_n, in source order
    reads = []
    for tgt, val, cond, entry, line in fl.assigns:
        if tgt and tgt[0] == "field" and tgt[1] == "yy_n":
            m = re.search(r"lalr::(YY_TABLE|YY_DEF_ACT|YY_PACT)'", repr(val))
            node = [x for x, _ in find_hir(h["body"], lambda x: x.get("k") == "Assign" and x.get("l") == line)]
            txt = json.dumps(node[0]["b"]) if node else ""
            m2 = re.search(r"lalr::(YY_TABLE|YY_DEF_ACT|YY_PACT)\"", txt)
            reads.append((line, (m or m2).group(1) if (m or m2) else None))
    expected = {"YY_TABLE": {ninf: {"Error"}, -1: {"Reduce"}, 0: {"Reduce"}, 1: {"Shift"}},
                "YY_DEF_ACT": {0: {"Error"}, 1: {"Reduce"}},
                "YY_PACT": {pninf: {"Default"}, 0: set()}}
    got = {t: {v: set() for v in vs} for t, vs in expected.items()}
    nass = 0
    for tgt, val, cond, entry, line in fl.assigns:
        if tgt != ("local", "action") or not (val and val[0] == "ctor"):
            continue
        variant = val[1].split("::")[-1]
        prior = [t for (l, t) in reads if l < line and t]
        if not prior:
            continue
        tab = prior[-1]
        if any(isinstance(c[0], tuple) and c[0] and c[0][0] == "bin" and c[0][1] == "||" and "yy_n" in repr(c[0]) for c in entry):
            continue      # the range / YY_CHECK test (R06.5)
        if not entry or "yy_n" not in repr(entry[-1][0]):
            continue      # the innermost test that selects this assignment is not about yy_n (e.g. the lexer's error token)
        nass += 1
        for v in expected[tab]:
            r = holds(entry, v)
            if r is None:
                rep.violation(rid, "decision:%s@%s" % (variant, tab), "the condition under which `action = %s` is chosen after reading %s (line %s) is not a comparison of yy_n with a constant: cannot be judged"
                              % (variant, tab, line), "%s:%s" % (h["file"], line))
                break
            if r:
                got[tab][v].add(variant)
    label = {ninf: "YY_TABLE_N_INF", pninf: "YY_PACT_N_INF", -1: "a negative value", 0: "0", 1: "a positive value"}
    for tab, exp in expected.items():
        for v, want in exp.items():
            key = "decision:%s:%s" % (tab, label.get(v, v))
            if got[tab][v] == want:
                rep.ok(rid, key, "%s -> %s" % (label.get(v, v), sorted(want) or "falls through to the look-ahead"))
            else:
                rep.violation(rid, key, "after reading %s, the value %s leads to %s; bison's skeleton prescribes %s" % (tab, label.get(v, v), sorted(got[tab][v]) or "no action", sorted(want) or "no action here"),
                              "%s:%s" % (h["file"], h["line"]))
    rep.floor(rid, "action assignments decided by yy_n", nass, 6)


def lexer_mode_rule(F, rep):
    """R06.7: the parser switches the lexer into a mode for the next token(s) through setter methods (`set_between`, `set_till_in`, ...): a boolean
    field set to true. A mode must end: either next_token() clears it unconditionally after every token, or every branch that is taken because the
    flag is set clears it. A mode that stays on re-interprets later tokens (`a between 1 and 2 and b`: the second `and`)."""
    rid = rep.rule("R06.7", "every lexer mode flag switched on by a setter is switched off: unconditionally after each token, or in every branch selected by the flag")
    LEX = "dmntk_feel_parser::lexer::Lexer::"
    meths = {n: h for n, h in F.hir.items() if n.startswith(LEX) and h.get("kind") == "method"}

    def self_field(e):
        e = strip(e)
        if e.get("k") == "Field" and strip(e["e"]).get("k") == "Path" and strip(e["e"]).get("name") == "self":
            return e["name"]
        return None

    def assigns(node, value):
        out = []
        for a, _ in find_hir(node, lambda x: x.get("k") == "Assign"):
            f = self_field(a["a"])
            b = strip(a["b"])
            if f and b.get("k") == "Lit" and b.get("lit") == "bool" and b.get("v") is value:
                out.append(f)
        return out
    flags = set()
    for n, h in meths.items():
        st = h["body"]["b"].get("stmts", []) if h["body"].get("k") == "Block" else []
        if h.get("vis") == "pub" and len(st) == 1 and h["body"]["b"].get("e") is None:
            flags |= set(assigns(st[0], True))
    rep.floor(rid, "lexer mode flags (boolean fields with a setter)", len(flags), 4)
    nt = [h for n, h in meths.items() if n.endswith("::next_token")]
    uncond = set()
    for h in nt:
        for st in h["body"]["b"].get("stmts", []):
            if st.get("k") == "Assign":
                uncond |= set(assigns(st, False))

    def conjuncts(c):
        c = strip(c)
        if c.get("k") == "Binary" and c.get("op") == "&&":
            return conjuncts(c["a"]) + conjuncts(c["b"])
        return [c]
    for f in sorted(flags):
        key = "mode:%s" % f
        if f in uncond:
            rep.ok(rid, key, "cleared unconditionally by next_token() after every token")
            continue
        branches = []
        for n, h in meths.items():
            for m, _ in find_hir(h["body"], lambda x: x.get("k") == "Match"):
                for arm in m["arms"]:
                    if "g" in arm and f in [self_field(c) for c in conjuncts(arm["g"])]:
                        branches.append((arm["b"], arm.get("l"), n))
            for i, _ in find_hir(h["body"], lambda x: x.get("k") == "If"):
                c = i["c"]
                if c.get("k") != "Let" and f in [self_field(x) for x in conjuncts(c)]:
                    branches.append((i["then"], i.get("l"), n))
        # `if std::mem::take(&mut self.flag)` / `mem::replace(&mut self.flag, false)`: the test clears the flag whatever its value
        taken = []
        for n, h in meths.items():
            for c, _ in find_hir(h["body"], lambda x: x.get("k") == "Call" and (x.get("callee") or "") in ("core::mem::take", "core::mem::replace") and x.get("args")):
                a0 = c["args"][0]
                if a0.get("k") == "AddrOf" and a0.get("mut") and self_field(a0["e"]) == f:
                    if c["callee"].endswith("take") or (len(c["args"]) > 1 and strip(c["args"][1]).get("k") == "Lit" and strip(c["args"][1]).get("v") is False):
                        taken.append((c.get("l"), n))
        if taken and not branches:
            rep.ok(rid, key, "tested and cleared in one step by mem::take / mem::replace(.., false) (line %s)" % taken[0][0])
            continue
        if not branches and any(f in assigns(h2["body"], False) for h2 in meths.values()):
            # the flag is read in some other form (`self.flag.then(|| ..)`, handed to a helper) and is cleared somewhere: which paths depend on it cannot be named
            rep.undecided(rid, key, "mode flag `%s` is cleared in the lexer, but no `if` / match guard is conditioned on it directly: the paths selected by it are not followed" % f)
            continue
        if not branches:
            rep.violation(rid, key, "mode flag `%s` is switched on by a setter but no branch of the lexer is selected by it and it is never cleared unconditionally" % f, "feel-parser/src/lexer.rs")
            continue
        bad = [(l, n) for b, l, n in branches if f not in assigns(b, False)]
        if bad:
            rep.violation(rid, key, "the branch at line %s of %s is taken because `%s` is set but does not clear it: the mode stays on and re-interprets later tokens"
                          % (bad[0][0], bad[0][1].split("::")[-1], f), "feel-parser/src/lexer.rs:%s" % bad[0][0])
        else:
            rep.ok(rid, key, "%d branch(es) selected by the flag, each clears it" % len(branches))


# DMN 1.3, 10.3.1.2, grammar rules 61 (white space) and 62 (vertical space)
VERTICAL_SPACE = set(range(0x0A, 0x0E))
WHITE_SPACE = VERTICAL_SPACE | {0x09, 0x20, 0x85, 0xA0, 0x1680, 0x180E, 0x2028, 0x2029, 0x202F, 0x205F, 0x3000, 0xFEFF} | set(range(0x2000, 0x200C))
CHAR_CLASSES = {"is_whitespace": WHITE_SPACE, "is_vertical_space": VERTICAL_SPACE}


def char_class_rule(F, rep):
    """R06.8: 'white space between tokens does not change the tree' presupposes that the lexer's notion of white space is the grammar's. The character
    sets of is_whitespace / is_vertical_space are read off their patterns (literals, ranges, calls to each other) and compared with grammar rules 61/62;
    delegating to char::is_whitespace (Unicode White_Space, which lacks U+180E, U+200B and U+FEFF) is not the same set."""
    rid = rep.rule("R06.8", "the lexer's white-space and vertical-space character classes are exactly those of FEEL grammar rules 61 and 62")
    LEX = "dmntk_feel_parser::lexer::"

    def charset(name, stack=()):
        h = F.hir.get(LEX + name)
        if h is None or name in stack:
            return None, "function %s not found" % name
        chars = set()
        problems = []
        for m, _ in find_hir(h["body"], lambda x: x.get("k") == "Match"):
            for arm in m["arms"]:
                truthy = strip(arm["b"]).get("k") == "Lit" and strip(arm["b"]).get("v") is True
                if not truthy:
                    continue

                def pat(p):
                    k = p.get("k")
                    if k == "Or":
                        for q in p["ps"]:
                            pat(q)
                    elif k == "Lit" and p.get("lit") == "char":
                        chars.add(ord(p["v"]))
                    elif k == "Range" and p.get("lo", {}).get("lit") == "char" and p.get("hi", {}).get("lit") == "char":
                        hi = ord(p["hi"]["v"]) + (1 if p.get("end") == "Included" else 0)
                        chars.update(range(ord(p["lo"]["v"]), hi))
                    elif k in ("Wild", "Bind"):
                        problems.append("a catch-all arm answers true")
                    else:
                        problems.append("pattern %s not understood" % k)
                pat(arm["p"])
        for c, _ in find_hir(h["body"], lambda x: x.get("k") in ("Call", "MethodCall") and x.get("callee")):
            cal = c["callee"]
            if cal.startswith(LEX) and cal[len(LEX):] in CHAR_CLASSES:
                sub, pr = charset(cal[len(LEX):], stack + (name,))
                if sub is None:
                    problems.append(pr)
                else:
                    chars |= sub
            elif "char::methods" in cal or cal.startswith("core::char") or "unicode" in cal:
                problems.append("delegates to %s (Unicode property, not the grammar's set)" % cal.split("::")[-1])
        if problems:
            return None, "; ".join(problems)
        return chars, None
    for name, want in CHAR_CLASSES.items():
        got, pr = charset(name)
        key = "class:%s" % name
        if got is None:
            rep.violation(rid, key, "%s: %s" % (name, pr), "feel-parser/src/lexer.rs")
        elif got != want:
            rep.violation(rid, key, "%s accepts %s and misses %s compared with the grammar" % (name, ["U+%04X" % c for c in sorted(got - want)][:8], ["U+%04X" % c for c in sorted(want - got)][:8]),
                          "feel-parser/src/lexer.rs")
        else:
            rep.ok(rid, key, "%d characters, as in the grammar" % len(got))
    # one notion of white space: a lexer function that asks the standard library (Unicode White_Space lacks U+180E, U+200B, U+FEFF and has no notion of FEEL's vertical
    # space) disagrees with the grammar on those characters - at a token boundary the keyword / name decision then differs from the skipping
    for n, h in sorted(F.hir.items()):
        if not n.startswith("dmntk_feel_parser::lexer::") or "body" not in h or "::tests::" in n:
            continue
        for c, _ in find_hir(h["body"], lambda x: x.get("k") in ("Call", "MethodCall") and re.search(r"core::char::methods::<impl char>::is_(ascii_)?whitespace$", x.get("callee") or "")):
            rep.violation(rid, "foreign-class:%s" % n.split("::")[-1], "%s tests white space with %s instead of the lexer's own class: the two sets differ (U+180E, U+200B, U+FEFF ...), "
                          "so a token followed by such a character is delimited differently from how the character is skipped" % (n.split("::")[-1], c["callee"].split("::")[-1]),
                          "%s:%s" % (h["file"], c.get("l")))


BINARY_ACTIONS = ("addition", "subtraction", "multiplication", "division", "exponentiation", "conjunction", "disjunction")


def binary_action_rule(F, rep):
    """R06.9: the tree for `a op b` is decided by the tables alone (R06.1/R06.2) only if the reduce action of a binary operator does nothing but
    combine the two nodes it pops: exactly one push, of the operator's node, whose operands are the popped nodes themselves - no re-association,
    no look into the operands."""
    rid = rep.rule("R06.9", "reduce actions of the binary operators push exactly one node built directly from the two popped nodes (no restructuring of operands)")
    impl_prefix = "<dmntk_feel_parser::parser::Parser<'parser> as dmntk_feel_parser::lalr::ReduceActions>::action_"
    n = 0
    for a in BINARY_ACTIONS:
        h = F.hir.get(impl_prefix + a)
        if h is None:
            rep.missing_anchor(rid, "action_%s" % a)
            continue
        n += 1
        pushes = pop_provenance(h, F)
        key = "binary:%s" % a
        probs = []
        if len(pushes) != 1:
            probs.append("%d pushes onto the node stack (expected one)" % len(pushes))
        # constructors applied to AstNode values outside the single push: nested node construction / pattern matching on operands
        bodies = [h["body"]] + [F.hir[c["callee"]]["body"] for c, _ in find_hir(h["body"], lambda x: x.get("k") in ("MethodCall", "Call") and (x.get("callee") or "") in F.hir
                                                                                 and re.match(r"^dmntk_feel_parser::parser::Parser::", x.get("callee") or ""))]
        ctor_calls = [c for b2 in bodies for c, _ in find_hir(b2, lambda x: x.get("k") == "Call" and (x.get("callee") or "").startswith("dmntk_feel::ast::AstNode::") and "Ctor" in (x.get("dk") or ""))]
        node_pats = [p for b2 in bodies for p, _ in find_hir(b2, lambda x: x.get("k") in ("TupleStruct", "Struct") and "l" not in x and (x.get("path") or "").startswith("dmntk_feel::ast::AstNode::"))]
        if len(ctor_calls) > 1:
            probs.append("%d AstNode constructions (expected one)" % len(ctor_calls))
        if node_pats:
            probs.append("the action inspects its operands (%s): the shape of the result would depend on the operands, not only on the tables" % node_pats[0].get("path", "").split("::")[-1])
        loops = [l for b2 in bodies for l, _ in find_hir(b2, lambda x: x.get("k") == "Loop")]
        if loops:
            probs.append("the action contains a loop")
        if probs:
            rep.violation(rid, key, "action_%s: %s" % (a, "; ".join(probs)), "%s:%s" % (h["file"], h["line"]))
        else:
            rep.ok(rid, key, "one push of one node built from the two pops")
    rep.floor(rid, "binary operator actions", n, 7)


def skipper_rule(F, rep):
    """R06.10 ('extra white space, line breaks and comments between tokens do not change the tree'): in front of a token any number of white-space runs and
    comments may stand, so the skipping that precedes the token dispatch must be *iterated*: the comment skipper is called inside a loop (of its caller, or of a
    caller further up towards next_token), or it loops itself around its test for a comment start.  A loop-free composition of k calls skips at most k comments -
    the layout with k + 1 adjacent comments is a counterexample by itself, so this is positive evidence, not a heuristic.  A `for` over a fixed range is a bounded
    composition as well; it is reported UNDECIDED (the bound is not evaluated)."""
    rid = rep.rule("R06.10", "white space and comments in front of a token are skipped by an iteration (any number of comments), not by a loop-free sequence of calls")
    LEX = "dmntk_feel_parser::lexer::Lexer::"
    meths = {n: h for n, h in F.hir.items() if n.startswith(LEX) and h.get("kind") == "method"}

    def slash_star(h):
        """does the body test for a comment start: a character pattern / comparison with '/' next to one with '*'"""
        lits = {x.get("v") for x, _ in find_hir(h["body"], lambda x: x.get("k") == "Lit" and x.get("lit") == "char")}
        return "/" in lits and "*" in lits
    skippers = [n for n, h in meths.items() if n.endswith("::consume_comment")] or [n for n, h in meths.items() if slash_star(h) and "comment" in n.rsplit("::", 1)[-1]]
    if not skippers:
        rep.missing_anchor(rid, "the comment skipper of the lexer (consume_comment)")
        return
    skipper = skippers[0]

    def loops_above(parents):
        return [p_ for p_ in parents if p_.get("k") == "Loop"]

    def call_sites(target):
        out = []
        for n, h in meths.items():
            if n == target:
                continue
            for c, parents in find_hir(h["body"], lambda x: x.get("k") in ("MethodCall", "Call") and x.get("callee") == target):
                out.append((n, c, parents))
        return out
    # the skipper loops itself around its comment-start test?
    own = meths[skipper]
    tests = find_hir(own["body"], lambda x: (x.get("k") == "Lit" and x.get("lit") == "char" and x.get("v") == "/") or
                     (x.get("k") == "Lit" and x.get("lit") == "char" and x.get("v") == "/" ))
    first_test_in_loop = False
    pats = find_hir(own["body"], lambda x: x.get("k") in ("Match", "If"))
    if pats:
        outer = pats[0]
        first_test_in_loop = bool(loops_above(outer[1]))
    verdicts = []
    seen = set()

    def up(target, depth):
        """is some call chain towards next_token iterated?  returns list of (chain text, 'loop' | 'for' | 'straight')"""
        res = []
        sites = call_sites(target)
        if not sites:
            return [("%s is not called" % target.rsplit("::", 1)[-1], "straight")]
        for n, c, parents in sites:
            ls = loops_above(parents)
            chain = "%s:%s" % (n.rsplit("::", 1)[-1], c.get("l"))
            if any(l_.get("src") in ("While", "Loop") for l_ in ls):
                res.append((chain, "loop"))
            elif ls:
                res.append((chain, "for"))
            elif n.endswith("::next_token") or depth >= 3 or n in seen:
                res.append((chain, "straight"))
            else:
                seen.add(n)
                for ch, v in up(n, depth + 1):
                    res.append((chain + " <- " + ch, v))
        return res
    if first_test_in_loop:
        rep.ok(rid, "skipper", "%s iterates around its own test for a comment start" % skipper.rsplit("::", 1)[-1])
        return
    chains = up(skipper, 0)
    straight = [c for c, v in chains if v == "straight"]
    fors = [c for c, v in chains if v == "for"]
    where = "%s:%s" % (own["file"], own["line"])
    if straight:
        rep.violation(rid, "loop-free", "the comment skipper is reached by a loop-free sequence of calls (%s): only %d comment(s) between two tokens are skipped, the next one is lexed as "
                      "tokens (`1 /* a */ /* b */ + 2` is a syntax error)" % ("; ".join(straight), len(straight)), where)
    elif fors:
        rep.undecided(rid, "bounded", "the comment skipper is called in a `for` loop (%s): the number of skipped comments is bounded by the range" % "; ".join(fors))
    else:
        rep.ok(rid, "skipper", "every call of the comment skipper is inside a loop of its caller chain: %s" % "; ".join(c for c, _ in chains))


def layout_siblings_rule(F, rep):
    """R06.11 (same clause as R06.10): between two tokens white space *and* comments are layout.  Besides the skipper in front of the token dispatch the lexer has other places
    that step over white space - the look-ahead that decides whether `function` / `list` / `context` is a keyword, the white-space state of the name collector.  A place that
    advances over characters of the white-space class but knows nothing of comments (neither calls the comment skipper nor tests for a comment start) treats `/* c */` as a
    token there: a contradiction between siblings (one path skips comments, the other does not), reported per function.  The skipper pair itself - the functions called in one
    loop with the comment skipper - is the reference."""
    rid = rep.rule("R06.11", "every place of the lexer that steps over white space between tokens also steps over comments (look-ahead helpers and the name collector agree with the skipper)")
    LEX = "dmntk_feel_parser::lexer::Lexer::"
    meths = {n: h for n, h in F.hir.items() if n.startswith(LEX) and h.get("kind") == "method"}
    skipper = next((n for n in meths if n.endswith("::consume_comment")), None)
    if skipper is None:
        rep.missing_anchor(rid, "the comment skipper of the lexer (consume_comment)")
        return
    # the functions that run in one loop with the skipper are its partners (consume_whitespace)
    partners = {skipper}
    for n, h in meths.items():
        for lp, _ in find_hir(h["body"], lambda x: x.get("k") == "Loop"):
            callees = {c.get("callee") for c, _ in find_hir(lp, lambda x: x.get("k") in ("MethodCall", "Call") and (x.get("callee") or "").startswith(LEX))}
            if skipper in callees:
                partners |= callees

    def ws_test(h):
        return find_hir(h["body"], lambda x: x.get("k") in ("Call", "MethodCall") and ((x.get("callee") or "").endswith("lexer::is_whitespace") or (x.get("callee") or "").endswith("::is_next_whitespace")))

    def advances(h):
        return find_hir(h["body"], lambda x: x.get("k") == "AssignOp" and x.get("op") == "+=" and strip(x["b"]).get("k") == "Lit" and strip(x["b"]).get("v") == 1)

    def knows_comments(h):
        if find_hir(h["body"], lambda x: x.get("k") in ("Call", "MethodCall") and x.get("callee") in partners and x.get("callee") == skipper):
            return True
        lits = {x.get("v") for x, _ in find_hir(h["body"], lambda x: x.get("k") == "Lit" and x.get("lit") == "char")}
        return "/" in lits and "*" in lits
    n_places = 0
    for n, h in sorted(meths.items()):
        if n in partners or not ws_test(h) or not advances(h):
            continue
        n_places += 1
        short = n.rsplit("::", 1)[-1]
        key = "layout:%s" % short
        if knows_comments(h):
            rep.ok(rid, key, "steps over white space and knows comments")
        else:
            rep.violation(rid, key, "%s steps over white space but not over comments: a comment at this place is read as tokens although the skipper in front of the token dispatch "
                          "would have skipped it" % short, "%s:%s" % (h["file"], h["line"]))
    if not n_places:
        rep.ok(rid, "layout", "no other place of the lexer steps over white space")


def utf8_mask_rule(F, rep):
    """R06.12: `\\uXXXX` / `\\UXXXXXX` escapes in string literals are part of the surface syntax; the lexer encodes the code point as UTF-8 by hand, in four places (one to four
    bytes, and the four bytes of a surrogate pair).  UTF-8 fixes the masks: a continuation byte is `(bits & 0x3F) | 0x80`, the lead bytes are `(bits & 0x1F) | 0xC0`,
    `(bits & 0x0F) | 0xE0`, `(bits & 0x07) | 0xF0`.  Every `(x & M) | T` of the encoder must be one of these pairs (a sibling with another mask yields bytes that are not the
    code point - or not UTF-8 at all, and the literal is rejected)."""
    from facts import find_hir, strip
    rid = rep.rule("R06.12", "the hand-written UTF-8 encoder of string escapes pairs every tag with its mask: (.. & 0x3F) | 0x80, (.. & 0x1F) | 0xC0, (.. & 0x0F) | 0xE0, (.. & 0x07) | 0xF0")
    PAIRS = {0x80: 0x3F, 0xC0: 0x1F, 0xE0: 0x0F, 0xF0: 0x07}
    n = 0
    for name, h in sorted(F.hir.items()):
        if not name.startswith("dmntk_feel_parser::lexer::") or "consume_unicode" not in name.split("::")[-1] or name.split("::")[-1] == "consume_unicode_literal":
            continue
        k = 0
        for b, _ in find_hir(h["body"], lambda x: x.get("k") == "Binary" and x.get("op") == "|"):
            tag, lhs = strip(b["b"]), strip(b["a"])
            while lhs.get("k") in ("Cast", "Paren"):
                lhs = strip(lhs.get("e", {}))
            if tag.get("k") != "Lit" or tag.get("v") not in PAIRS or lhs.get("k") != "Binary" or lhs.get("op") != "&":
                continue
            mask = strip(lhs["b"])
            if mask.get("k") != "Lit" or not isinstance(mask.get("v"), int):
                continue
            n += 1
            key = "utf8:%s#%d" % (name.split("::")[-1], k)
            k += 1
            if mask["v"] == PAIRS[tag["v"]]:
                rep.ok(rid, key, "(.. & 0x%02X) | 0x%02X" % (mask["v"], tag["v"]))
            else:
                rep.violation(rid, key, "%s builds a UTF-8 byte as (.. & 0x%02X) | 0x%02X at line %s; the mask of the tag 0x%02X is 0x%02X: the bytes are not the encoding of the code point "
                              "(a string literal such as \"\\uD83D\\uDE4F\" is rejected or denotes another character)" % (name.split("::")[-1], mask["v"], tag["v"], b.get("l"), tag["v"], PAIRS[tag["v"]]),
                              "%s:%s" % (h["file"], b.get("l")))
    rep.floor(rid, "UTF-8 byte constructions in the escape decoder", n, 13)


COMMENT_TEXTS = ["/* x */ + 1", "/** doc **/+2", "/***/1", "/****/1", "/* x **/y", "/* a * b */x", "/* a / b */x", "/*/ x */1", "/**/1", "/* x *", "/* unterminated", "/*", "/",
                 "// c\nx", "// c", "//\n", "///\n1", "// a */ b\n1", "1+2", "/ 2", "* /", "a /* c */", " /* c */"]


def comment_extent_rule(F, rep):
    """R06.13: what a comment is.  A block comment `/*` extends to the first `*/` behind its opener (to the end of the text when there is none), a line comment `//` to the end
    of the line; anything else is not a comment.  The lexer's comment skipper is folded (concrete loops over the character input, the cursor a field of the lexer record) on a table of
    texts; the cursor must stand behind the comment - neither inside it (the rest of the comment would be read as tokens) nor behind it (tokens would be swallowed)."""
    from hireval import Evaluator, State, TooManyPaths
    rid = rep.rule("R06.13", "the comment skipper, folded on a table of texts, leaves the cursor exactly behind the comment: a block comment ends at the first `*/` behind its opener, a line comment at the end of the line")
    cands = [n for n in F.hir if n.startswith("dmntk_feel_parser::lexer::Lexer") and n.split("::")[-1] == "consume_comment"]
    if len(cands) != 1:
        rep.missing_anchor(rid, "Lexer::consume_comment")
        return
    fn = cands[0]
    h = F.hir[fn]

    def want(t):
        if t.startswith("/*"):
            i = t.find("*/", 2)
            return len(t) if i < 0 else i + 2
        if t.startswith("//"):
            i = t.find("\n")
            return len(t) if i < 0 else i
        return 0
    bad, unknown, ok = [], [], 0
    helpers = {n for n in F.hir if n.startswith("dmntk_feel_parser::lexer::") and "{closure" not in n and n != fn and n.split("::")[-1] not in ("read_input", "next_token", "read_next_token")}
    for t in COMMENT_TEXTS:
        ev = Evaluator(F, ints=True, max_paths=800, inline=helpers)
        ev.vecs = True
        ev.crate = h.get("_crate")
        st = State({})
        lex = ("rec", {"input": ("array", [("lit", c) for c in t]), "position": ("lit", 0)})
        for p, a in zip(h["params"], [lex]):
            ev.match(p, a, st.env)
        try:
            outs = list(ev.ev(h["body"], st))
        except (TooManyPaths, ValueError, KeyError, TypeError, IndexError, RecursionError) as x:
            unknown.append("%r: %s" % (t, type(x).__name__))
            continue
        pos = set()
        for s2, v in outs:
            me = s2.env.get("self")
            p2 = me[1].get("position") if isinstance(me, tuple) and me and me[0] == "rec" else None
            pos.add(p2[1] if (not s2.conds and isinstance(p2, tuple) and p2[0] == "lit" and isinstance(p2[1], int)) else None)
        if len(pos) != 1 or None in pos:
            unknown.append("%r: the cursor does not fold" % t)
        elif pos != {want(t)}:
            bad.append("%r: the cursor stops at %d, the comment ends at %d" % (t, pos.pop(), want(t)))
        else:
            ok += 1
    where = "%s:%s" % (h["file"], h["line"])
    if bad:
        rep.violation(rid, "comment:extent", "the comment skipper does not stop where the comment ends: %s" % "; ".join(bad[:4]), where)
    elif unknown:
        rep.undecided(rid, "comment:extent", "%d of %d texts fold, %d do not: %s" % (ok, len(COMMENT_TEXTS), len(unknown), "; ".join(unknown[:2])))
    else:
        rep.ok(rid, "comment:extent", "%d texts: the cursor stands exactly behind the comment" % ok)
    rep.floor(rid, "comment texts folded", ok + len(bad), 18)


LAYOUT_TEXTS = ["x", "  x", "\t\n x", "\r\n\r\nx", "\u00a0x", "\u2003\u3000x", " /* a */x", "/* a */ x", "/* a *//* b */1", " /* a */ // b\n  /* c */x", "// a\n// b\n1", "/* a */\n\n/* b */\t// c\n  +",
                "  ", "", "/* a */", " // a", "/x", "- /* a */ 1", "/* a */ /* b */ /* c */ /* d */ /* e */ z"]
WHITE = set(" \t\n\u000b\u000c\r\u0085\u00a0\u1680\u180e\u2000\u2001\u2002\u2003\u2004\u2005\u2006\u2007\u2008\u2009\u200a\u200b\u2028\u2029\u202f\u205f\u3000\ufeff")


def layout_fold_rule(F, rep):
    """R06.14: 'extra white space, line breaks and comments between tokens do not change the tree' - at the lexer's entry to a token (read_input) everything that separates
    two tokens is skipped: any sequence of white space and comments, however long.  read_input is folded on a table of texts; afterwards the cursor must stand on the first
    character that is neither white space nor part of a comment (or at the end of the text)."""
    from hireval import Evaluator, State, TooManyPaths
    rid = rep.rule("R06.14", "the layout skipper at the entry to a token, folded on a table of texts, leaves the cursor on the first character that is neither white space nor inside a comment")
    cands = [n for n in F.hir if n.startswith("dmntk_feel_parser::lexer::Lexer") and n.split("::")[-1] == "read_input"]
    if len(cands) != 1:
        rep.missing_anchor(rid, "Lexer::read_input")
        return
    fn = cands[0]
    h = F.hir[fn]

    def want(t):
        i = 0
        while True:
            j = i
            while j < len(t) and t[j] in WHITE:
                j += 1
            if t.startswith("/*", j):
                k = t.find("*/", j + 2)
                j = len(t) if k < 0 else k + 2
            elif t.startswith("//", j):
                k = t.find("\n", j)
                j = len(t) if k < 0 else k
            if j == i:
                return i
            i = j
    helpers = {n for n in F.hir if n.startswith("dmntk_feel_parser::lexer::") and "{closure" not in n and n != fn and n.split("::")[-1] not in ("next_token", "read_next_token")}
    bad, unknown, ok = [], [], 0
    for t in LAYOUT_TEXTS:
        ev = Evaluator(F, ints=True, max_paths=1500, inline=helpers)
        ev.vecs = True
        ev.crate = h.get("_crate")
        st = State({})
        lex = ("rec", {"input": ("array", [("lit", c) for c in t]), "position": ("lit", 0)})
        for p, a in zip(h["params"], [lex]):
            ev.match(p, a, st.env)
        try:
            outs = list(ev.ev(h["body"], st))
        except (TooManyPaths, ValueError, KeyError, TypeError, IndexError, RecursionError) as x:
            unknown.append("%r: %s" % (t, type(x).__name__))
            continue
        pos = set()
        for s2, v in outs:
            me = s2.env.get("self")
            p2 = me[1].get("position") if isinstance(me, tuple) and me and me[0] == "rec" else None
            open_conds = [c for c in s2.conds if c not in (("loop-done",), ("loop-iteration",))]
            pos.add(p2[1] if (not open_conds and isinstance(p2, tuple) and p2[0] == "lit" and isinstance(p2[1], int)) else None)
        if len(pos) != 1 or None in pos:
            unknown.append("%r: the cursor does not fold" % t)
        elif pos != {want(t)}:
            bad.append("%r: the cursor stops at %d, the next token begins at %d" % (t, pos.pop(), want(t)))
        else:
            ok += 1
    where = "%s:%s" % (h["file"], h["line"])
    if bad:
        rep.violation(rid, "layout:read_input", "white space and comments in front of a token are not skipped completely (or too much is skipped): %s" % "; ".join(bad[:4]), where)
    elif unknown:
        rep.undecided(rid, "layout:read_input", "%d of %d texts fold, %d do not: %s" % (ok, len(LAYOUT_TEXTS), len(unknown), "; ".join(unknown[:2])))
    else:
        rep.ok(rid, "layout:read_input", "%d texts: the cursor stands on the first character of the next token" % ok)
    rep.floor(rid, "layout texts folded", ok + len(bad), 15)
