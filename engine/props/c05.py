"""C05: FEEL parsing and evaluation are total - panic-site inventory with discharge, recursion classes, LALR driver termination (DESIGN §3 C05)."""
import json
import os
import re
from collections import defaultdict

import callgraph
import g1_panic
import lalr
import mirutil
from facts import find_hir, strip

LEVEL = "other"
CRATES_QUICK = None
CRATES_THOROUGH = None
VERIF = os.path.dirname(os.path.dirname(os.path.dirname(os.path.abspath(__file__))))
REPO = os.environ.get("DMNTK_REPO", "/repo")
PID = "C05"


def entry_points(F, tier):
    roots = [n for n, b in F.bodies.items() if n.startswith("dmntk_feel_parser::parser::parse_") and b.get("vis") == "pub"]
    roots += [n for n, b in F.bodies.items() if n.startswith("dmntk_feel_evaluator::evaluators::") and b.get("vis") == "pub"]
    if tier == "thorough":
        # rendering a result is part of every use: all Display / Jsonify / ToFeelString impls of the value types,
        # and the remaining pub functions of the evaluator crate
        for n, b in F.bodies.items():
            if re.match(r"^<dmntk_feel(_number)?::.* as (core::fmt::Display|dmntk_common::jsonify::Jsonify|dmntk_feel::strings::ToFeelString|core::fmt::Debug)>::", n):
                roots.append(n)
            if b.get("vis") == "pub" and b["_crate"].split(".")[0] == "dmntk_feel_evaluator" and b["kind"] != "closure":
                roots.append(n)
    return sorted(set(roots))


FLOORS = {"quick": dict(bodies=900, sites=400), "thorough": dict(bodies=1000, sites=420)}


def run(F, rep, tier):
    run_inventory(F, rep, tier, PID, entry_points(F, tier), FLOORS[tier],
                  ("FEEL parsing and evaluation", "the six parser entry points and dmntk_feel_evaluator's public evaluation functions (thorough: plus every pub fn of feel-evaluator and every Display / Jsonify / ToFeelString impl of the value types, i.e. rendering of results)"))
    r3 = rep.rule("R05.3", "the LALR driver cannot loop on reductions: no non-terminal derives itself; every table index the driver computes is in range for every (state, look-ahead)")
    g, T, A = load_lalr(F, rep, r3)
    if g is not None:
        bad = lalr.derives_self(g, A.nullable)
        for nt in bad:
            rep.violation(r3, "cycle:%s" % nt, "non-terminal %s derives itself: the reduce loop may not terminate" % nt, "feel-grammar/src/feel.y")
        if not bad:
            rep.ok(r3, "grammar-acyclic", "%d non-terminals, none derives itself; every reduction of a non-empty rule shortens the stack, empty rules are finitely nested" % len(g.nonterminals))
        for k, (ok, msg) in driver_index_proof(T).items():
            if ok:
                rep.ok(r3, "driver:%s" % k, msg)
            else:
                rep.violation(r3, "driver:%s" % k, msg, "feel-parser/src/lalr.rs")
    lexer_progress_rule(F, rep)
    integer_conversion_rule(F, rep)


# ======================================================================================================
# R05.5: premise of the audited index arithmetic - a number converts to an integer type only when it *is* that integer
VALUE_CHANGING = ("trunc", "round", "floor", "ceiling", "ceil", "abs", "neg", "fract", "rescale", "quantize", "reduce_to")


def integer_conversion_rule(F, rep):
    """About thirty audited sites of the built-in functions (positions of sublist / remove / insert before, lengths, scales) argue "the value passed the sign test and
    to_usize() succeeded, so it is an integer >= 1".  That holds because the conversions TryFrom<&FeelNumber> for the primitive integer types succeed only for integral
    values: the number's own text is parsed as the integer type.  The premise is checked here: between the parameter and the parse no value-changing operation of FeelNumber
    (trunc, round, floor, ...) may sit - with one, 0.5 converts to 0 and the audited `index - 1` underflows."""
    rid = rep.rule("R05.5", "FeelNumber converts to a primitive integer only when it is that integer: no truncation / rounding between the number and the integer parse (premise of the audited position arithmetic)")
    impls = [n for n in F.hir if re.search(r"TryFrom<&dmntk_feel_number::number::FeelNumber> for (u|i)(8|16|32|64|128|size)>::try_from$", n)]
    if not impls:
        rep.undecided(rid, "conversions", "no TryFrom<&FeelNumber> implementation for a primitive integer type found")
        return
    for n in sorted(impls):
        h = F.hir[n]
        key = "conv:%s" % n.split(" for ")[-1].split(">")[0]
        bad = [c for c, _ in find_hir(h["body"], lambda x: x.get("k") == "MethodCall" and x.get("method") in VALUE_CHANGING and
                                      "FeelNumber" in ((x.get("callee") or "") + str(F.ty(h, x["recv"].get("t")) if x["recv"].get("t") is not None else "")))]
        if bad:
            rep.violation(rid, key, "%s applies %s() to the number before converting it: a fraction such as 0.5 then converts (to 0) instead of failing, and the position arithmetic "
                          "that relies on 'converted, hence an integer >= 1' underflows" % (n, bad[0]["method"]), "%s:%s" % (h["file"], bad[0].get("l")))
        else:
            rep.ok(rid, key, "the number's own text is parsed as the integer type")
    rep.floor(rid, "integer conversions of FeelNumber", len(impls), 3)


# ======================================================================================================
# R05.4: the lexer's loops make progress
def lexer_progress_rule(F, rep):
    """Termination of the scanner: in every loop of a Lexer method each iteration moves the cursor forward (directly, or through a method that advances on
    every Ok return), steps a bounded iterator, or counts a local counter down. Decided on the MIR control-flow graph: after removing the progress blocks
    from a loop no cycle may remain."""
    rid = rep.rule("R05.4", "lexer loops make progress: every cycle of every loop in a Lexer method advances the cursor, steps an iterator or decrements a counter")
    adt = F.adts.get("dmntk_feel_parser::lexer::Lexer")
    if adt is None:
        rep.missing_anchor(rid, "dmntk_feel_parser::lexer::Lexer")
        return
    pos = [i for i, f in enumerate(adt["variants"][0]["fields"]) if f["name"] == "position"]
    if not pos:
        rep.missing_anchor(rid, "Lexer.position")
        return
    pos = pos[0]
    fns = {n: b for n, b in F.bodies.items() if re.match(r"^dmntk_feel_parser::lexer::Lexer::(<[^>]*>::)?\w+$", n) and b["kind"] != "closure"}

    def is_pos_place(pl):
        return len(pl) == 3 and pl[0] == 1 and pl[1] == "*" and isinstance(pl[2], list) and pl[2][0] == "." and pl[2][1] == pos

    def local_progress(b, B):
        """blocks that advance the cursor, step an iterator or decrement a counter"""
        out = set()
        for bi, bl in enumerate(b["blocks"]):
            for st in bl["s"]:
                if st[0] != "A":
                    continue
                dest, rv = st[1], st[2]
                if rv[0] != "Use" or rv[1][0] not in ("C", "M"):
                    continue
                src = rv[1][1]
                if not (len(src) == 2 and isinstance(src[1], list) and src[1][0] == "." and src[1][1] == 0):
                    continue
                defs = B.defs.get(src[0], [])
                if len(defs) != 1 or defs[0][2] != "assign" or defs[0][3][2][0] != "Bin":
                    continue
                bop, a, c = defs[0][3][2][1], defs[0][3][2][2], defs[0][3][2][3]
                if c[0] != "K" or len(c) < 4 or not isinstance(c[3], int) or c[3] < 1 or a[0] not in ("C", "M"):
                    continue
                if bop == "AddWithOverflow" and is_pos_place(dest) and is_pos_place(a[1]):
                    out.add(bi)          # self.position += k
                if bop in ("SubWithOverflow", "AddWithOverflow") and len(dest) == 1 and a[1] == dest:
                    out.add(bi)          # counter -= k / offset += k on a local (overflow / underflow is a panic site of R05.1; the scan ends when char_at() is None)
            t = bl["t"]
            if t[0] == "call":
                p = t[1]["f"].get("p") or ""
                if re.search(r"Iterator(<.*>)?>?::next$|::iter::.*::next$|range::.*::next$", p):
                    out.add(bi)
        return out

    def err_blocks(b):
        out = set()
        for bi, bl in enumerate(b["blocks"]):
            for st in bl["s"]:
                if st[0] == "A" and st[1] == [0] and st[2][0] == "Agg" and isinstance(st[2][1], list) and st[2][1][0] == "adt" and st[2][1][1].endswith("result::Result") and st[2][1][-1] == "Err":
                    out.add(bi)
            t = bl["t"]
            if t[0] == "call" and t[1].get("dest") == [0] and (t[1]["f"].get("p") or "").endswith("FromResidual>::from_residual"):
                out.add(bi)
            if t[0] == "call" and t[1].get("target") is None:
                out.add(bi)              # diverging call
        return out

    bodies = {n: (b, mirutil.Body(F, b)) for n, b in fns.items()}
    lp = {n: local_progress(b, B) for n, (b, B) in bodies.items()}
    eb = {n: err_blocks(b) for n, (b, B) in bodies.items()}
    # must-advance-or-fail summaries (fixpoint from below)
    ADV = set()

    def calls_adv(b):
        return {bi for bi, bl in enumerate(b["blocks"]) if bl["t"][0] == "call" and (bl["t"][1]["f"].get("p") or "") in ADV}
    changed = True
    while changed:
        changed = False
        for n, (b, B) in bodies.items():
            if n in ADV:
                continue
            stop = lp[n] | eb[n] | calls_adv(b)
            seen, work, reach_ret = {0}, [0], False
            if 0 in stop:
                work = []
            while work:
                x = work.pop()
                t = b["blocks"][x]["t"]
                if t[0] == "ret":
                    reach_ret = True
                    break
                for y in mirutil.normal_successors(t):
                    if y not in seen and y not in stop:
                        seen.add(y)
                        work.append(y)
            if not reach_ret:
                ADV.add(n)
                changed = True
    # methods that never move the cursor backwards: every write of `position` is `position += k` and every Lexer method they call is of that kind too
    def pos_writes_ok(b, B):
        for bl in b["blocks"]:
            for st in bl["s"]:
                if st[0] == "A" and is_pos_place(st[1]):
                    rv = st[2]
                    ok = False
                    if rv[0] == "Use" and rv[1][0] in ("C", "M"):
                        src = rv[1][1]
                        if len(src) == 2 and isinstance(src[1], list) and src[1][0] == "." and src[1][1] == 0:
                            defs = B.defs.get(src[0], [])
                            if len(defs) == 1 and defs[0][2] == "assign" and defs[0][3][2][0] == "Bin" and defs[0][3][2][1] == "AddWithOverflow":
                                a, c = defs[0][3][2][2], defs[0][3][2][3]
                                ok = a[0] in ("C", "M") and is_pos_place(a[1]) and c[0] == "K" and len(c) > 3 and isinstance(c[3], int) and c[3] >= 0
                    if not ok:
                        return False
        return True
    NONDECR = {n for n, (b, B) in bodies.items() if pos_writes_ok(b, B)}
    changed = True
    while changed:
        changed = False
        for n in sorted(NONDECR):
            b = bodies[n][0]
            for bl in b["blocks"]:
                if bl["t"][0] == "call":
                    p = bl["t"][1]["f"].get("p") or ""
                    if p in bodies and p not in NONDECR:
                        NONDECR.discard(n)
                        changed = True
                        break

    def changed_guard_edges(b, B, cs):
        """edges of the loop that are taken only when the cursor differs from a copy of it saved earlier in the same iteration, in a loop whose calls never
        move the cursor backwards: the cursor has then moved forward, i.e. the iteration made progress (`loop { let start = self.position; ...; if self.position
        == start { break } }`)"""
        blocks = b["blocks"]
        for x in cs:
            t = blocks[x]["t"]
            if t[0] == "call":
                p = t[1]["f"].get("p") or ""
                if p in bodies and p not in NONDECR:
                    return set()
            for st in blocks[x]["s"]:
                if st[0] == "A" and is_pos_place(st[1]):
                    return set()          # the loop itself writes the cursor: left to the other progress rules

        def through(op):
            """(kind, local) of an operand followed through copies of locals"""
            for _ in range(4):
                if op[0] not in ("C", "M") or len(op[1]) != 1:
                    return op
                defs = B.defs.get(op[1][0], [])
                if len(defs) == 1 and defs[0][2] == "assign" and defs[0][3][2][0] == "Use":
                    nxt = defs[0][3][2][1]
                    if nxt[0] in ("C", "M") and is_pos_place(nxt[1]):
                        return ("POS", defs[0][0])          # a read of the cursor, in block defs[0][0]
                    op = nxt
                else:
                    return op
            return op
        out = set()
        for x in cs:
            t = blocks[x]["t"]
            if t[0] != "switch" or t[1][0] not in ("C", "M") or len(t[1][1]) != 1:
                continue
            defs = B.defs.get(t[1][1][0], [])
            if len(defs) != 1 or defs[0][2] != "assign" or defs[0][3][2][0] != "Bin" or defs[0][3][2][1] not in ("Eq", "Ne"):
                continue
            a, c = through(defs[0][3][2][2]), through(defs[0][3][2][3])
            if a[0] != "POS" or c[0] != "POS" or a[1] not in cs or c[1] not in cs or a[1] == c[1]:
                continue
            # one read is in the block of the test (the current cursor), the other in an earlier block of the loop (the saved one)
            if x not in (a[1], c[1]):
                continue
            eq = defs[0][3][2][1] == "Eq"
            for val, tgt in t[2]:
                if (val == 0) == eq and tgt in cs:
                    out.add((x, tgt))
            if not eq and t[3] in cs:
                out.add((x, t[3]))
        return out

    # predicates that answer `true` only after the cursor has moved (`while self.consume_comment() { .. }`): in the part of the body that is reachable from the
    # entry without passing a progress block, the return place is only ever assigned the constant `false`; the method never moves the cursor backwards
    BOOLADV = set()
    for n, (b, B) in bodies.items():
        if B.local_ty(0) != "bool" or n not in NONDECR:
            continue
        stop = lp[n] | calls_adv(b)
        region, work = ({0}, [0]) if 0 not in stop else (set(), [])
        while work:
            x = work.pop()
            for y in mirutil.normal_successors(b["blocks"][x]["t"]):
                if y not in region and y not in stop:
                    region.add(y)
                    work.append(y)
        ok = bool(stop)
        for (bi, si, kind, st) in B.defs.get(0, []):
            if bi not in region and not (bi in stop and kind == "call"):
                continue
            if not (kind == "assign" and st[2][0] == "Use" and st[2][1][0] == "K" and len(st[2][1]) > 3 and st[2][1][3] in (0, False)):
                ok = False
        if ok:
            BOOLADV.add(n)
    rep.analysed["R05.4 predicates that are true only after the cursor moved"] = sorted(x.split("::")[-1] for x in BOOLADV)

    def true_edges(b, B, cs):
        """edges of the loop taken only when a BOOLADV predicate, called in the loop, answered true"""
        blocks = b["blocks"]
        out = set()
        for x in cs:
            t = blocks[x]["t"]
            if t[0] != "switch" or t[1][0] not in ("C", "M") or len(t[1][1]) != 1:
                continue
            l = t[1][1][0]
            for _ in range(3):
                defs = B.defs.get(l, [])
                if len(defs) == 1 and defs[0][2] == "assign" and defs[0][3][2][0] == "Use" and defs[0][3][2][1][0] in ("C", "M") and len(defs[0][3][2][1][1]) == 1:
                    l = defs[0][3][2][1][1][0]
                else:
                    break
            defs = B.defs.get(l, [])
            if len(defs) != 1 or defs[0][2] != "call" or defs[0][0] not in cs or (defs[0][3]["f"].get("p") or "") not in BOOLADV:
                continue
            for val, tgt in t[2]:
                if val != 0 and tgt in cs:
                    out.add((x, tgt))
            if any(val == 0 for val, _ in t[2]) and t[3] in cs:
                out.add((x, t[3]))
        return out

    nloops = 0
    for n, (b, B) in sorted(bodies.items()):
        prog = lp[n] | calls_adv(b)
        blocks = b["blocks"]
        nodes = [i for i, bl in enumerate(blocks) if not bl.get("cleanup")]
        succ = {i: [y for y in mirutil.normal_successors(blocks[i]["t"]) if not blocks[y].get("cleanup")] for i in nodes}
        sccs = _sccs(nodes, succ)
        k = 0
        for comp in sccs:
            cs = set(comp)
            if len(comp) == 1 and comp[0] not in succ[comp[0]]:
                continue
            nloops += 1
            short = n.split("::")[-1]
            key = "loop:%s#%d" % (short, k)
            k += 1
            rest = [x for x in comp if x not in prog]
            moved = changed_guard_edges(b, B, cs) | true_edges(b, B, cs)
            rsucc = {x: [y for y in succ[x] if y in cs and y not in prog and (x, y) not in moved] for x in rest}
            bad = [c for c in _sccs(rest, rsucc) if len(c) > 1 or c[0] in rsucc[c[0]]]
            lines = sorted({st[-1] for x in comp for st in blocks[x]["s"] if isinstance(st[-1], int)})
            where = "%s:%s" % (b["file"], lines[0] if lines else b["line"])
            if not bad:
                rep.ok(rid, key, "every cycle passes a progress block (%d of %d blocks)" % (len(cs & prog), len(cs)))
            elif _state_machine_ok(b, B, rest, rsucc):
                rep.ok(rid, key, "state machine: with the constant state variable tracked, every cycle passes a progress block")
            else:
                bl_lines = sorted({st[-1] for c in bad for x in c for st in blocks[x]["s"] if isinstance(st[-1], int)})
                rep.violation(rid, key, "a cycle of the loop in %s (source lines %s) neither moves the cursor, nor steps an iterator, nor counts down: the scanner may not terminate on some input"
                              % (short, bl_lines[:8]), where)
    rep.floor(rid, "lexer loops", nloops, 9)
    rep.floor(rid, "lexer methods that advance on every Ok return", len(ADV), 5)


def _state_machine_ok(b, B, rest, rsucc):
    """The progress-free part of a loop still has cycles in the plain CFG. Explore it path-sensitively, tracking (a) one local that only ever holds
    constants (`state = 2`): a `match state` follows only the arm of the tracked value; (b) the results of `&self` predicates without further arguments
    (`self.is_next_whitespace()`): inside the progress-free part neither the cursor nor any other field of the lexer is written, so a predicate that was
    true stays true. True if, for some state local, the product graph has no cycle."""
    blocks = b["blocks"]
    rest_set = set(rest)
    # soundness side condition for (b): no write through self in the progress-free blocks
    for x in rest:
        for st in blocks[x]["s"]:
            if st[0] == "A" and len(st[1]) > 1 and st[1][0] == 1 and st[1][1] == "*":
                return False
    def const_of(st, depth=0):
        """the constant a statement assigns: an integer literal, or a field-less enum variant (its index = its discriminant), possibly via a temporary"""
        rv = st[2]
        if rv[0] == "Use" and rv[1][0] in ("C", "M") and len(rv[1][1]) == 1 and depth < 2:
            ds = B.defs.get(rv[1][1][0], [])
            if len(ds) == 1 and ds[0][2] == "assign":
                return const_of(ds[0][3], depth + 1)
            return None
        if rv[0] == "Use" and rv[1][0] == "K" and len(rv[1]) > 3 and isinstance(rv[1][3], int):
            return rv[1][3]
        if rv[0] == "Agg" and isinstance(rv[1], list) and rv[1] and rv[1][0] == "adt" and len(rv[1]) > 2 and isinstance(rv[1][2], int) and not rv[2]:
            return rv[1][2]
        return None
    cands = {}
    for l, defs in B.defs.items():
        vals = []
        for (bi, si, kind, st) in defs:
            if kind == "assign" and st[1] == [l] and const_of(st) is not None:
                vals.append(const_of(st))
            else:
                vals = None
                break
        if vals and len(set(vals)) > 1 and not B.is_arg(l):
            cands[l] = sorted(set(vals))

    def through_copies(l):
        for _ in range(4):
            defs = B.defs.get(l, [])
            if len(defs) == 1 and defs[0][2] == "assign" and defs[0][3][2][0] == "Use" and defs[0][3][2][1][0] in ("C", "M") and len(defs[0][3][2][1][1]) == 1:
                l = defs[0][3][2][1][1][0]
            else:
                break
        return l

    def switch_on(t):
        if t[0] != "switch" or t[1][0] not in ("C", "M") or len(t[1][1]) != 1:
            return None
        l0 = through_copies(t[1][1][0])
        defs = B.defs.get(l0, [])
        if len(defs) == 1 and defs[0][2] == "assign" and defs[0][3][2][0] == "Disc" and len(defs[0][3][2][1]) == 1:
            return through_copies(defs[0][3][2][1][0])      # `match state` on an enum: switch on discriminant(state)
        return l0

    def predicate_of(l):
        """name of the &self predicate whose result local l holds"""
        defs = B.defs.get(l, [])
        if len(defs) != 1 or defs[0][2] != "call":
            return None
        c = defs[0][3]
        p = c["f"].get("p") or ""
        if not re.match(r"^dmntk_feel_parser::lexer::Lexer::(<[^>]*>::)?\w+$", p) or len(c.get("args", [])) != 1:
            return None
        a = c["args"][0]
        if a[0] not in ("C", "M") or len(a[1]) != 1 or "&mut" in B.local_ty(a[1][0]) or B.local_ty(l) != "bool":
            return None
        return p
    # (the last candidate is "no state variable": only the results of the predicates are tracked - a scanner written with nested loops instead of a state machine)
    for l, vals in list(cands.items()) + [(None, [0])]:
        if l is not None and not any(switch_on(blocks[x]["t"]) == l for x in rest):
            continue

        def succs(node):
            x, v, preds = node
            for st in blocks[x]["s"]:
                if st[0] == "A" and st[1] == [l]:
                    v = const_of(st)
            t = blocks[x]["t"]
            sl = switch_on(t)
            out = []
            if l is not None and sl == l:
                tg = [tb for val, tb in t[2] if val == v] or [t[3]]
                out = [(y, v, preds) for y in tg]
            elif sl is not None and predicate_of(sl):
                pn = predicate_of(sl)
                known = dict(preds)
                listed = {val for val, _ in t[2]}
                edges = [(val != 0, tb) for val, tb in t[2]]
                if listed == {0}:
                    edges.append((True, t[3]))       # switchInt(bool) [0 -> F], otherwise -> T
                elif listed == {1}:
                    edges.append((False, t[3]))
                else:
                    edges = [(None, tb) for _, tb in t[2]] + [(None, t[3])]
                for truth, tb in edges:
                    if truth is None:
                        out.append((tb, v, preds))
                        continue
                    if pn in known and known[pn] != truth:
                        continue
                    k2 = dict(known)
                    k2[pn] = truth
                    out.append((tb, v, frozenset(k2.items())))
            else:
                out = [(y, v, preds) for y in rsucc[x]]
            return [n for n in out if n[0] in rest_set and n[0] in rsucc[x]]
        # cycle detection by DFS colouring from every start node
        colour = {}
        cyc = False
        for x in rest:
            for v in vals:
                start = (x, v, frozenset())
                if start in colour:
                    continue
                stack = [(start, iter(succs(start)))]
                colour[start] = 1
                while stack and not cyc:
                    node, it = stack[-1]
                    adv = False
                    for n in it:
                        c = colour.get(n)
                        if c == 1:
                            cyc = True
                            break
                        if c is None:
                            colour[n] = 1
                            stack.append((n, iter(succs(n))))
                            adv = True
                            break
                    if cyc:
                        break
                    if not adv:
                        colour[node] = 2
                        stack.pop()
                if cyc:
                    break
            if cyc:
                break
        if not cyc:
            return True
    return False


def _sccs(nodes, succ):
    """Tarjan, iterative"""
    index, low, onst, st, out = {}, {}, set(), [], []
    cnt = [0]
    for r in nodes:
        if r in index:
            continue
        work = [(r, iter(succ.get(r, ())))]
        index[r] = low[r] = cnt[0]
        cnt[0] += 1
        st.append(r)
        onst.add(r)
        while work:
            v, it = work[-1]
            adv = False
            for w in it:
                if w not in index:
                    index[w] = low[w] = cnt[0]
                    cnt[0] += 1
                    st.append(w)
                    onst.add(w)
                    work.append((w, iter(succ.get(w, ()))))
                    adv = True
                    break
                elif w in onst:
                    low[v] = min(low[v], index[w])
            if adv:
                continue
            work.pop()
            if work:
                low[work[-1][0]] = min(low[work[-1][0]], low[v])
            if low[v] == index[v]:
                comp = []
                while True:
                    w = st.pop()
                    onst.discard(w)
                    comp.append(w)
                    if w == v:
                        break
                out.append(comp)
    return out


# ======================================================================================================
def load_lalr(F, rep, rid):
    p = os.path.join(REPO, "feel-grammar", "src", "feel.y")
    if not os.path.exists(p):
        rep.missing_anchor(rid, p)
        return None, None, None
    g = lalr.parse_y(open(p).read())
    consts = lalr.const_arrays_from_hir([h for h in F.hir.values() if h["_crate"].startswith("dmntk_feel_parser")])
    try:
        T = lalr.Tables(consts)
    except lalr.GrammarError as e:
        rep.missing_anchor(rid, str(e))
        return None, None, None
    return g, T, lalr.build_lalr(g)


def driver_index_proof(T):
    """exhaustive enumeration, over every state and every look-ahead symbol, of the index expressions bison's driver loop computes"""
    c = T.c
    res = {}
    ns = T.nstates
    nt = T.ntokens
    # token translation: every code the lexer can return indexes YY_TRANSLATE in range
    res["YY_TRANSLATE"] = (len(c["YY_TRANSLATE"]) >= 258 + (nt - 3), "YY_TRANSLATE has %d entries for token codes up to %d" % (len(c["YY_TRANSLATE"]), 258 + nt - 4))
    bad = []
    reduce0 = []
    maxrule = len(c["YY_R1"]) - 1
    for s in range(ns):
        if c["YY_PACT"][s] != c["YY_PACT_N_INF"]:
            for t in range(nt):
                yyn = c["YY_PACT"][s] + t
                if not (yyn < 0 or c["YY_LAST"] < yyn):
                    if yyn >= len(c["YY_CHECK"]) or yyn >= len(c["YY_TABLE"]):
                        bad.append(("YY_CHECK/YY_TABLE", s, t, yyn))
                        continue
                    if c["YY_CHECK"][yyn] == t:
                        v = c["YY_TABLE"][yyn]
                        if v <= 0:
                            if v == c["YY_TABLE_N_INF"]:
                                continue
                            if v == 0:
                                reduce0.append((s, t))
                            elif -v > maxrule:
                                bad.append(("rule", s, t, -v))
                        elif v >= ns:
                            bad.append(("shift-state", s, t, v))
        d = c["YY_DEF_ACT"][s]
        if d < 0 or d > maxrule:
            bad.append(("YY_DEF_ACT", s, None, d))
    res["action-indices"] = (not bad, "all %d x %d (state, look-ahead) action lookups stay inside YY_CHECK/YY_TABLE, shift targets < %d, rule numbers <= %d" % (ns, nt, ns, maxrule)
                             if not bad else "out-of-range driver index: %s" % bad[:5])
    res["no-reduce-0"] = (not reduce0, "no checked action cell holds 0 (the driver would negate it and reduce by rule 0)" if not reduce0 else
                          "action cells %s hold 0: Parser::parse negates it and reduces by rule 0, underflowing YY_R1[0] - YY_N_TOKENS" % reduce0[:5])
    # goto computation for every rule and every state that can be on top of the stack
    gbad = []
    for r in range(1, maxrule + 1):
        lhs = c["YY_R1"][r] - nt
        if lhs < 0 or lhs >= len(c["YY_P_GOTO"]) or lhs >= len(c["YY_DEF_GOTO"]):
            gbad.append(("lhs", r, lhs))
            continue
        for s in range(ns):
            yi = c["YY_P_GOTO"][lhs] + s
            if 0 <= yi <= c["YY_LAST"]:
                if yi >= len(c["YY_CHECK"]):
                    gbad.append(("goto-index", r, s, yi))
                elif c["YY_CHECK"][yi] == s and not (0 <= c["YY_TABLE"][yi] < ns):
                    gbad.append(("goto-state", r, s, c["YY_TABLE"][yi]))
            if not (-32768 <= yi <= 32767):
                gbad.append(("i16", r, s, yi))
        if not (0 <= c["YY_DEF_GOTO"][lhs] < ns):
            gbad.append(("defgoto", r, c["YY_DEF_GOTO"][lhs]))
    res["goto-indices"] = (not gbad, "for all %d rules x %d states the goto lookup stays in range and yields a state < %d; YY_R1[r] - YY_N_TOKENS >= 0 for r >= 1" % (maxrule, ns, ns)
                           if not gbad else "out-of-range goto computation: %s" % gbad[:5])
    i16 = all(-32768 <= c["YY_PACT"][s] + t <= 32767 for s in range(ns) for t in range(nt) if c["YY_PACT"][s] != c["YY_PACT_N_INF"])
    res["i16-arith"] = (i16, "YY_PACT[s] + token fits i16 for every state and token" if i16 else "YY_PACT[s] + token overflows i16 for some state/token")
    return res


# ======================================================================================================
# family rules (machine-checked side conditions; see DESIGN §3 C05)
# ======================================================================================================
class Families:
    def __init__(self, F, G):
        self.F = F
        self.G = G
        self._pos_ok = None
        self._number_text = None
        self._stack = None
        self._driver = None
        self._scope = None

    # ---- lexer position counter -------------------------------------------------------------------
    def lexer_position_writes_ok(self):
        """every assignment to Lexer.position is a constant, position + small constant, or <element of a Vec<usize>> + 1"""
        if self._pos_ok is not None:
            return self._pos_ok
        F = self.F
        adt = F.adts.get("dmntk_feel_parser::lexer::Lexer")
        if adt is None:
            self._pos_ok = (False, "Lexer not found")
            return self._pos_ok
        idx = [i for i, f in enumerate(adt["variants"][0]["fields"]) if f["name"] == "position"]
        if not idx:
            self._pos_ok = (False, "Lexer.position not found")
            return self._pos_ok
        fi = idx[0]
        bad = []
        n = 0
        for name, b in F.bodies.items():
            if not b["_crate"].startswith("dmntk_feel_parser"):
                continue
            types = F.crates[b["_crate"]]["types"]
            for bl in b["blocks"]:
                for st in bl["s"]:
                    if st[0] != "A":
                        continue
                    dst = st[1]
                    if len(dst) < 2 or dst[-1] != [".", fi]:
                        continue
                    if "lexer::Lexer" not in types[b["locals"][dst[0]]]:
                        continue
                    n += 1
                    rv = st[2]
                    if rv[0] == "Use" and rv[1][0] == "K":
                        continue
                    if rv[0] == "Use" and rv[1][0] in ("C", "M") and len(rv[1][1]) == 2 and rv[1][1][1] == [".", 0]:
                        continue   # result of an overflow-checked addition (the addition is a site of its own)
                    if rv[0] == "Agg":
                        continue   # struct construction in Lexer::new
                    if rv[0] == "Use" and rv[1][0] in ("C", "M") and len(rv[1][1]) == 1:
                        # result of an integer addition written as a call (`*p + 1` on a reference): that call is a panic-capable site of its own (PANIC_API)
                        src = [bl2["t"][1] for bl2 in b["blocks"] if bl2["t"][0] == "call" and bl2["t"][1].get("dest") == [rv[1][1][0]]]
                        if src and all(re.match(r"^<&?usize as core::ops::arith::Add<.*>>::add$", c.get("f", {}).get("p") or "") for c in src):
                            continue
                    bad.append((name, st[3] if len(st) > 3 else None))
        self._pos_ok = (not bad and n > 0, "%d writes to Lexer.position, all constants or checked additions" % n if not bad else "unexpected writes to Lexer.position: %s" % bad[:3])
        return self._pos_ok

    def lexer_position(self, A, s):
        if s.kind != "assert" or s.what != "Overflow:Add" or not s.fn.startswith("dmntk_feel_parser::lexer::Lexer"):
            return None
        a, b = A.sym(s.ops[0]), A.sym(s.ops[1])
        if b[0] != "c" or not (0 <= b[1] <= 16):
            return None
        if a[0] == "p" and self.is_field(A, s.ops[0], "dmntk_feel_parser::lexer::Lexer", "position"):
            ok, msg = self.lexer_position_writes_ok()
            if ok:
                return ("lexer-position", "Lexer.position only ever grows by constants <= 16 from 0 (%s): it cannot approach usize::MAX in a feasible run" % msg)
        return None

    # ---- the plain-text rewriting of numbers (decided by folding over the shapes of to-scientific-string, see props/c07.py) -------------------------
    def number_text(self, A, s):
        if not (s.fn.startswith("dmntk_feel_number::number::") or s.fn.startswith("<dmntk_feel_number::number::FeelNumber as ")):
            return None
        if not ((s.kind == "call" and re.search(r"(Option|Result)::<>::(unwrap|expect)$", s.what)) or (s.kind == "assert" and s.what == "Overflow:Sub")):
            return None
        if self._number_text is None:
            from props import c07
            try:
                self._number_text = c07.shape_fold_verdict(self.F)
            except Exception as e:      # fail closed
                self._number_text = (False, set(), "fold raised %s" % e)
        ok, fns, why = self._number_text
        base = s.fn.split("::{closure")[0]
        if ok and base in fns and base not in ("<dmntk_feel_number::number::FeelNumber as core::fmt::Display>::fmt",):
            return ("to-scientific-string shapes", "folded on all 16 shapes of decQuadToString's output (sign x coefficient x exponent part; digit runs opaque): no unwrap meets None / Err and "
                    "every subtracted count is one the specification keeps non-negative (n - |f|, n - 1)")
        return None

    def is_field(self, A, op, adt_name, field):
        if op[0] not in ("C", "M"):
            return False
        pl = op[1]
        adt = self.F.adts.get(adt_name)
        if adt is None or len(pl) < 2:
            return False
        idx = [i for i, f in enumerate(adt["variants"][0]["fields"]) if f["name"] == field]
        return bool(idx) and pl[-1] == [".", idx[0]] and adt_name.split("::")[-1] in A.B.local_ty(pl[0])

    # ---- parser value stack ---------------------------------------------------------------------------
    def stack_facts(self):
        """per action: the largest k such that yy_value_stack[len - k] is used; per action: minimum number of symbols available on the stack"""
        if self._stack is not None:
            return self._stack
        F = self.F
        p = os.path.join(REPO, "feel-grammar", "src", "feel.y")
        g = lalr.parse_y(open(p).read())
        avail = {}
        rhs_min = {}
        for r in g.rules:
            a = r["action"]
            if not a:
                continue
            if r.get("midrule_of"):
                k = r.get("mid_pos", 0)   # symbols of the enclosing rule already on the stack
                n_rhs = 0
            else:
                k = len(r["rhs"])
                n_rhs = len(r["rhs"])
            avail[a] = min(avail.get(a, 10 ** 6), k)
            rhs_min[a] = min(rhs_min.get(a, 10 ** 6), n_rhs)
        self._stack = (avail, rhs_min)
        return self._stack

    def parser_stack(self, A, s):
        m = re.match(r"^<dmntk_feel_parser::parser::Parser<'parser> as dmntk_feel_parser::lalr::ReduceActions>::action_(\w+)$", s.fn)
        if not m:
            return None
        action = m.group(1)
        avail, rhs_min = self.stack_facts()
        if action not in avail:
            return None
        # which stack expression is this site part of?  look at the HIR Index expressions of that line
        h = self.F.hir.get(s.fn)
        if h is None:
            return None
        idxs = [x for x, _ in find_hir(h["body"], lambda x: x.get("k") == "Index" and x.get("l") == s.line)]
        if not idxs:
            return None
        for ix in idxs:
            a = strip(ix["a"])
            if not (a.get("k") == "Field" and a.get("name") == "yy_value_stack"):
                return None
            b = strip(ix["b"])
            if b.get("k") != "Binary" or b.get("op") != "-":
                return None
            lhs = strip(b["a"])
            if not (lhs.get("k") == "MethodCall" and lhs.get("method") == "len"):
                return None
            rhs = strip(b["b"])
            if rhs.get("k") == "Lit":
                k = rhs["v"]
                # the value stack holds one entry per grammar symbol plus the initial one
                if not (1 <= k <= avail[action]):
                    return None
                why = "yy_value_stack[len - %d]: every rule (or mid-rule position) running action_%s has >= %d symbols on the stack" % (k, action, avail[action])
            elif rhs.get("k") in ("Field", "Cast") and "yy_len" in json.dumps(rhs):
                if rhs_min[action] < 1:
                    return None
                why = "yy_value_stack[len - yy_len]: every rule running action_%s has a non-empty right-hand side (>= %d symbols)" % (action, rhs_min[action])
            else:
                return None
        if s.kind == "assert" and s.what == "Overflow:Sub":
            return ("parser-stack", why)
        if s.kind == "call" and "index" in s.what:
            return ("parser-stack", why)
        return None

    # ---- Scope's RefCell -------------------------------------------------------------------------------
    def scope_reentrancy(self):
        """no Scope method can, while its RefCell borrow is alive, reach another Scope method or an evaluator call"""
        if self._scope is not None:
            return self._scope
        F, G = self.F, self.G
        methods = [n for n in F.bodies if n.startswith("dmntk_feel::scope::Scope::") or n.startswith("<dmntk_feel::scope::Scope as ")]
        bad = []
        for m in methods:
            if F.bodies[m]["kind"] == "closure":
                continue
            # only a method that borrows the RefCell itself can hold a borrow while it calls on; one that merely delegates (set_entry -> with_top_context) cannot
            if not any("RefCell" in (p or "") for p, _, _, _ in G.ext_calls.get(m, ())):
                continue
            seen, _ = G.reach([m])
            for x in seen:
                if x == m or x.startswith(m + "::{closure"):
                    continue
                if x in methods and any("RefCell" in (p or "") for p, _, _, _ in G.ext_calls.get(x, ())):
                    bad.append((m, x))
            for x in seen:
                for (sig, bi, line) in G.virtual_calls.get(x, ()):
                    # a call through a pointer / dyn object whose possible targets are known is followed by reach() above (library functions have no
                    # body and cannot call back); only a call with no known target could re-enter
                    if not G.coerced_by_sig.get(sig):
                        bad.append((m, "call with unknown target in " + x))
        self._scope = (not bad, "no Scope method reaches another borrowing Scope method or a dyn call" if not bad else "re-entrancy possible: %s" % bad[:3])
        return self._scope

    def scope_refcell(self, A, s):
        if s.kind == "call" and "RefCell" in s.what and (s.fn.startswith("dmntk_feel::scope::Scope::") or s.fn.startswith("<dmntk_feel::scope::Scope as ")):
            ok, msg = self.scope_reentrancy()
            if ok:
                return ("refcell-no-reentry", "Scope is !Sync and %s: the RefCell is never borrowed twice" % msg)
        return None

    # ---- LALR driver -----------------------------------------------------------------------------------
    def lalr_driver(self, A, s, driver_ok):
        # the driver = Parser::parse and the private non-action methods of Parser (its loop may be split into step functions)
        if not re.match(r"^dmntk_feel_parser::parser::Parser::(<[^>]*>::)?\w+$", s.fn) or s.fn.split("::")[-1].startswith("action_"):
            return None
        if not driver_ok:
            return None
        h = self.F.hir.get(s.fn)
        if h is None:
            return None
        # the site must be an access to one of the parsing tables / an arithmetic step of the documented driver algorithm
        if s.kind == "assert" and s.what == "BoundsCheck":
            idxs = [x for x, _ in find_hir(h["body"], lambda x: x.get("k") == "Index" and x.get("l") == s.line)]
            if idxs and all(strip(x["a"]).get("k") == "Path" and (strip(x["a"]).get("path") or "").startswith("dmntk_feel_parser::lalr::YY_") for x in idxs):
                return ("lalr-driver", "table access of the bison driver algorithm; index ranges proved for every (state, look-ahead) / (rule, state) by exhaustive table enumeration (R05.3)")
        if s.kind == "assert" and s.what in ("Overflow:Add", "Overflow:Sub", "OverflowNeg"):
            src = [x for x, _ in find_hir(h["body"], lambda x: x.get("l") == s.line and x.get("k") in ("Binary", "AssignOp", "Unary"))]
            txt = json.dumps(src)
            if "yy_n" in txt or "YY_R1" in txt or "YY_P_GOTO" in txt:
                return ("lalr-driver", "i16 arithmetic of the bison driver on table values; ranges proved by exhaustive table enumeration (R05.3)")
        return None


def load_audits():
    p = os.path.join(VERIF, "tables", "audited_sites.json")
    if not os.path.exists(p):
        return {}
    return json.load(open(p)).get("sites", {})


def run_inventory(F, rep, tier, pid, roots, floors, what):
    rep.explanation = ("Totality as reachability: every panic-capable construct (MIR Assert for bounds / overflow / division, calls to APIs documented to panic, "
                       "explicit panics) reachable in the call graph from %s (%s) must be discharged by a local proof rule over the MIR, by a family rule with "
                       "machine-checked side conditions, by an audited entry whose recorded guards still dominate the site, or be a listed known finding with the input "
                       "that makes the real code panic. Integer-overflow asserts count in both build modes. Recursion is classified (structural / reference-following / "
                       "through user functions). Stack depth in bytes and termination of data-dependent loops are not decided." % (what[0], what[1]))
    rep.assumptions += ["external (std / chrono / regex / roxmltree) functions not in the panicking-API table are total", "the call graph: dyn calls by signature, std callbacks by trait"]
    r1 = rep.rule("R%s.1" % pid[1:], "every reachable panic-capable site is discharged, audited (guards intact) or a known finding")
    r2 = rep.rule("R%s.2" % pid[1:], "recursion: every call-graph cycle reachable from the entry points is structural on an owned tree or has a cycle guard")
    G = callgraph.CallGraph(F)
    missing = [r for r in roots if r not in F.bodies]
    for m in missing:
        rep.missing_anchor(r1, m)
    seen, pred = G.reach(roots)
    fam = Families(F, G)
    audits = load_audits()
    audits_by_base = defaultdict(list)
    for k in audits:
        audits_by_base[k.rsplit("#", 1)[0]].append(k)
    # the LALR driver proof feeds the driver family
    driver_ok = False
    _, T, _ = load_lalr(F, rep, r1)
    if T is not None:
        driver_ok = all(ok for ok, _ in driver_index_proof(T).values())
    nsites = 0
    by_rule = defaultdict(int)
    used_audits = set()
    pending = []
    for n in sorted(seen):
        ss = g1_panic.collect_sites(F, n)
        if not ss:
            continue
        A = g1_panic.Analyzer(F, n)
        b = F.bodies[n]
        for s in ss:
            nsites += 1
            key = s.key()
            where = "%s:%s" % (b["file"], s.line)
            d = None
            try:
                d = g1_panic.discharge(F, A, s)
                if d is None:
                    d = fam.lexer_position(A, s) or fam.parser_stack(A, s) or fam.scope_refcell(A, s) or fam.lalr_driver(A, s, driver_ok) or fam.number_text(A, s)
            except Exception as e:   # fail closed
                d = None
                rep.note("discharge raised %s at %s" % (e, key))
            if d:
                by_rule[d[0]] += 1
                rep.ok(r1, key, "%s: %s" % d)
                continue
            # audited entries are matched per (function, kind, callee/assert) as a multiset: the entry with the same
            # occurrence number first, otherwise any unused entry of the same base whose recorded guards hold here -
            # so that adding or removing a *discharged* site of the same kind in the function does not shift the keys
            sigs = {g1_panic.guard_sig(f) for f in A.facts_at(s.block, stale_ok=True)}
            base = key.rsplit("#", 1)[0]
            cands = [k for k in audits_by_base.get(base, ()) if k not in used_audits]
            cands.sort(key=lambda k: (k != key, k))
            opsig = g1_panic.site_opsig(A, s)
            rg = set(g1_panic.relevant_guards(A, s, precise=True))
            hit = next((k for k in cands if all(g in sigs for g in audits[k].get("guards", [])) and audits[k].get("ops", opsig) == opsig
                        and all(g in rg for g in audits[k].get("rguards", []))), None)
            if hit is not None:
                used_audits.add(hit)
                by_rule["audited"] += 1
                rep.ok(r1, key, audits[hit]["reason"], how="audited")
                continue
            if cands:
                au = audits[cands[0]]
                lost = [g for g in au.get("guards", []) if g not in sigs] or [g for g in au.get("rguards", []) if g not in rg]
                if lost:
                    msg = "audited site lost its guard(s) %s (audit: %s); reachable via %s" % (lost, au["reason"], path_text(G, pred, n))
                else:
                    msg = ("the operands of an audited site changed: the audit (%s) was written for %s, the site now computes %s; reachable via %s"
                           % (au["reason"][:160], au.get("ops"), opsig, path_text(G, pred, n)))
            else:
                msg = ("%s %s in %s is neither discharged nor audited (guards in force: %s); reachable via %s"
                       % (s.kind, s.what, n, sorted(sigs)[:6], path_text(G, pred, n)))
            pending.append((key, msg, where, b["_crate"], key.split("|", 1)[1].rsplit("#", 1)[0], opsig, rg, sigs))
    # a site that moved to another function (extract / inline function, closure <-> body) keeps its audit when it is the same computation under the
    # same tests: same kind and callee, same canonical operands, and all recorded guards in force - matched against audits no other site used
    leftovers = {}
    for k, au in audits.items():
        if k in used_audits or "ops" not in au:
            continue
        leftovers.setdefault((k.split("|", 1)[1].rsplit("#", 1)[0], json.dumps(au["ops"])), []).append(k)
    for key, msg, where, crate, kw, opsig, rg, sigs in pending:
        hit = None
        for k in leftovers.get((kw, json.dumps(opsig)), []):
            au = audits[k]
            same_file = au.get("file") is not None and where is not None and au["file"] == where.rsplit(":", 1)[0]
            if k not in used_audits and same_file and all(g in sigs for g in au.get("guards", [])) and all(g in rg for g in au.get("rguards", [])):
                hit = k
                break
        if hit is None:
            # second level: the same computation on inputs fetched differently (a block moved into a helper reads parameters instead of fields / payloads)
            aops = abstract_ops(opsig)
            if any("(" in x for x in aops):          # only genuine computations, not a bare variable
                for k, au in audits.items():
                    if k in used_audits or "ops" not in au or k.split("|", 1)[1].rsplit("#", 1)[0] != kw:
                        continue
                    same_file = au.get("file") is not None and where is not None and au["file"] == where.rsplit(":", 1)[0]
                    if same_file and abstract_ops(au["ops"]) == aops and set(abstract_guards(au.get("guards", []))) <= set(abstract_guards(sigs)) \
                            and len(au.get("rguards", [])) <= len(rg):
                        hit = k
                        break
        if hit is not None:
            used_audits.add(hit)
            by_rule["audited"] += 1
            rep.ok(r1, key, audits[hit]["reason"] + " [audit of %s: same computation under the same tests, moved]" % hit.split("|")[0].split("::")[-1], how="audited")
        else:
            rep.violation(r1, key, msg, where)
    rep.analysed.update(dict(entry_points=len(roots), reachable_bodies=len(seen), panic_capable_sites=nsites, discharged_by_rule=dict(by_rule),
                             assumed_total_externals=len({p for n in seen for (p, _, _, _) in G.ext_calls.get(n, ()) if p and not g1_panic.panic_api(p)})))
    rep.floor(r1, "reachable bodies", len(seen), floors["bodies"])
    rep.floor(r1, "panic-capable sites", nsites, floors["sites"])
    recursion_rule(F, G, rep, r2, seen, pid)


COMPUTE_HEADS = {"Add", "Sub", "Mul", "Div", "Rem", "Neg", "Not", "BitAnd", "BitOr", "BitXor", "Shl", "Shr", "Cast", "AddWithOverflow", "SubWithOverflow", "MulWithOverflow"}
COMPUTE_TAILS = ("::count", "::chars", "::len", "::abs", "::unsigned_abs", "::min", "::max", "::chars_count")


def abstract_ops(ops):
    """operand signatures with their *sources* (parameters, fields, accessor calls) replaced by numbered placeholders: the computation an audit argues
    about, independent of where its inputs are fetched from (a block moved into a helper fetches them from parameters)"""
    srcs = {}

    def parse(t, i):
        # term := head [ '(' term {',' term} ')' ] { '.' digits }
        j = i
        depth = 0
        while j < len(t) and (t[j] not in "(),"):
            j += 1
        head = t[i:j]
        args = []
        if j < len(t) and t[j] == "(":
            j += 1
            while True:
                a, j = parse(t, j)
                args.append(a)
                if j < len(t) and t[j] == ",":
                    j += 1
                    continue
                break
            if j < len(t) and t[j] == ")":
                j += 1
        k = j
        while k < len(t) and (t[k] == "." or t[k].isdigit()):
            k += 1
        return (head, args, t[j:k]), k

    def text(n):
        head, args, proj = n
        return head + ("(" + ",".join(text(a) for a in args) + ")" if args else "") + proj

    def ab(n):
        head, args, proj = n
        h = head.strip()
        if args and (h in COMPUTE_HEADS or h.endswith(COMPUTE_TAILS)):
            return h.split("::")[-1] + "(" + ",".join(ab(a) for a in args) + ")"
        if not args and re.fullmatch(r"-?\d+", h):
            return h
        key = text(n)
        if not re.search(r"\barg\d", key) and not ((not args and h in ("var", "place", "const")) or re.fullmatch(r"field\d+", h)):
            return key            # a value made here (Vec::new(), a literal aggregate ...): where it comes from is part of the computation
        if key not in srcs:
            srcs[key] = "SRC%d" % (len(srcs) + 1)
        return srcs[key]
    out = []
    for o in ops or []:
        try:
            n, _ = parse(str(o), 0)
            out.append(ab(n))
        except Exception:
            out.append("?")
    return out


def abstract_guards(gs):
    return sorted({re.sub(r"^(cmp:[^:]+):[^:]+:", r"\1:*:", g) for g in gs})


def path_text(G, pred, n):
    return " -> ".join(x.split("::")[-1] for x in G.path(pred, n, 8))


# ======================================================================================================
# G2 recursion classification
# ======================================================================================================
OWNED_TREES = ("AstNode", "Value", "FeelType", "ExpressionInstance", "ItemDefinition", "FeelContext", "Values", "Node", "Expr")


def sccs(G, nodes):
    index = {}
    low = {}
    stack = []
    on = set()
    out = []
    counter = [0]
    import sys
    sys.setrecursionlimit(10000)
    for root in nodes:
        if root in index:
            continue
        work = [(root, iter([e[1] for e in G.edges.get(root, ()) if e[1] in nodes]))]
        index[root] = low[root] = counter[0]
        counter[0] += 1
        stack.append(root)
        on.add(root)
        while work:
            v, it = work[-1]
            adv = False
            for w in it:
                if w not in index:
                    index[w] = low[w] = counter[0]
                    counter[0] += 1
                    stack.append(w)
                    on.add(w)
                    work.append((w, iter([e[1] for e in G.edges.get(w, ()) if e[1] in nodes])))
                    adv = True
                    break
                elif w in on:
                    low[v] = min(low[v], index[w])
            if adv:
                continue
            work.pop()
            if work:
                u = work[-1][0]
                low[u] = min(low[u], low[v])
            if low[v] == index[v]:
                comp = []
                while True:
                    w = stack.pop()
                    on.discard(w)
                    comp.append(w)
                    if w == v:
                        break
                out.append(comp)
    return out


def edge_class(F, G, caller, callee, bi):
    """strict: the callee receives a proper sub-term of one of the caller's tree-typed inputs; same: the very same term; unknown"""
    import mirutil
    b = F.bodies[caller]
    if bi is None:
        return "same"      # immediate closure of the caller: same activation
    t = b["blocks"][bi]["t"]
    if t[0] != "call":
        return "strict"    # callback through a std container algorithm: elements of the container
    if (t[1]["f"].get("p") or "") not in F.bodies and t[1]["f"].get("k") != "unres_trait":
        return "strict"    # std algorithm (clone/eq/fmt of a container) calling back on the elements
    B = mirutil.Body(F, b)
    types = F.crates[b["_crate"]]["types"]
    verdicts = []
    for a in t[1]["args"]:
        if a[0] not in ("C", "M"):
            continue
        ty = types[b["locals"][a[1][0]]]
        if not any(o in ty for o in OWNED_TREES):
            continue
        # follow plain copies / reborrows only
        l = a[1][0]
        projected = len(a[1]) > 1 and any(isinstance(e, list) for e in a[1][1:])
        steps = 0
        while steps < 20:
            steps += 1
            if B.is_arg(l):
                break
            defs = B.defs.get(l, [])
            if len(defs) != 1:
                projected = True
                break
            bi2, si, kind, st = defs[0]
            if kind == "call":
                projected = True    # result of a call on the term (iter().next(), as_vec(), get_entry, deref of a Box ...): a component
                break
            rv = st[2]
            if rv[0] in ("Ref", "RawPtr"):
                pl = rv[2]
                if any(isinstance(e, list) for e in pl[1:]):
                    projected = True
                l = pl[0]
                continue
            if rv[0] == "Use" and rv[1][0] in ("C", "M"):
                pl = rv[1][1]
                if any(isinstance(e, list) for e in pl[1:]):
                    projected = True
                l = pl[0]
                continue
            projected = True
            break
        roots = B.pointer_root(a)
        # a reference to a by-value parameter (`|child| f(&child)`) is rooted in that parameter
        roots = {("param", r[1]) if r[0] == "local" and isinstance(r[1], int) and B.is_arg(r[1]) else r for r in roots} if roots else roots
        from_params = bool(roots) and all(r[0] == "param" for r in roots)
        if b["kind"] == "closure" and roots and all(r == ("param", 1) for r in roots):
            # captured environment: in an *immediate* closure the captured values belong to the creator's activation - when they are rooted in the creator's own
            # parameters the argument is (a component of) the enclosing term, like any other value of that activation
            if caller not in G.deferred and _captures_rooted_in_params(F, G, caller, B, a):
                verdicts.append("strict" if projected else "same")
            else:
                verdicts.append("unknown")
        elif b["kind"] == "closure" and caller not in G.deferred and roots and all(r[0] == "param" and r[1] >= 2 for r in roots):
            verdicts.append("strict")    # parameter of an immediate closure: an element handed over by an iterator adaptor over the enclosing term
        elif projected:
            verdicts.append("strict")
        elif from_params:
            verdicts.append("same")
        else:
            verdicts.append("unknown")
    if not verdicts:
        return "unknown"
    if "unknown" in verdicts:
        return "unknown"
    if "strict" in verdicts:
        return "strict"    # the summed size of the tree-typed arguments strictly decreases (others are passed through unchanged)
    return "same"


def _captures_rooted_in_params(F, G, closure, B, a, depth=0):
    """are the captured variables the operand derives from (its backward slice inside the closure) rooted in parameters of the function that creates the closure?"""
    import mirutil
    ks, seen, work = set(), set(), [a[1][0]] if a[0] in ("C", "M") else []

    def upvars(x):
        if isinstance(x, list):
            if len(x) >= 2 and x[0] == 1 and isinstance(x[-1], list) or (len(x) >= 2 and x[0] == 1):
                for pr in x[1:]:
                    if isinstance(pr, list) and pr and pr[0] == "." and isinstance(pr[1], int):
                        ks.add(pr[1])
                        break
            for y in x:
                upvars(y)
    if a[0] in ("C", "M"):
        upvars(a[1])
    while work:
        l = work.pop()
        if l in seen:
            continue
        seen.add(l)
        for (bi, si, kind, st) in B.defs.get(l, []):
            ops = st.get("args", []) if kind == "call" else st[2]
            upvars(ops)
            stack = [ops]
            while stack:
                x = stack.pop()
                if isinstance(x, list):
                    if len(x) == 2 and x[0] in ("C", "M") and isinstance(x[1], list) and x[1] and isinstance(x[1][0], int):
                        if x[1][0] != 1:
                            work.append(x[1][0])
                    elif x and isinstance(x[0], int) and x[0] != 1 and all(not isinstance(y, dict) for y in x):
                        work.append(x[0])          # a bare place (Ref / Disc)
                    else:
                        stack.extend(y for y in x if isinstance(y, list))
    if not ks:
        return False
    parent = G.creator.get(closure) if hasattr(G, "creator") else None
    pb = F.bodies.get(parent) if parent else None
    if pb is None:
        return False
    PB = mirutil.Body(F, pb)
    for bl in pb["blocks"]:
        for st in bl["s"]:
            if st[0] == "A" and st[2][0] == "Agg" and isinstance(st[2][1], list) and st[2][1][0] == "closure" and st[2][1][1] == closure:
                ops = st[2][2]
                for k in ks:
                    if k >= len(ops):
                        return False
                    roots = PB.pointer_root(ops[k])
                    if not roots:
                        return False
                    for r in roots:
                        if r[0] == "param":
                            continue
                        if r[0] == "local" and isinstance(r[1], int) and PB.is_arg(r[1]):
                            if pb["kind"] == "closure" and r[1] == 1:
                                return False        # the creator is itself a closure and hands on its own environment: not followed further
                            continue
                        return False
                return True
    return False


EVALUATOR_SIG = "dyn core::ops::function::Fn(&dmntk_feel::scope::Scope) -> dmntk_feel::values::Value + core::marker::Send + core::marker::Sync"


def on_registry_cycle(F, G, n, comp):
    """is there a cycle n ->+ n inside `comp` that does not pass through a call of a generic FEEL evaluator closure (`dyn Fn(&Scope) -> Value`)?
    Those calls are resolved by signature only; the model-level reference cycles go through the registries' own closure types and direct calls."""
    seen = set()
    work = [n]
    first = True
    while work:
        v = work.pop()
        for e in G.edges.get(v, ()):
            w = e[1]
            if w not in comp:
                continue
            if e[0] == "dyn" and G.deferred.get(w, set()) <= {EVALUATOR_SIG}:
                continue
            if w == n:
                return True
            if w not in seen:
                seen.add(w)
                work.append(w)
    return False


def recursion_rule(F, G, rep, rid, seen, pid):
    comps = [c for c in sccs(G, seen) if len(c) > 1 or any(e[1] == c[0] for e in G.edges.get(c[0], ()))]
    rep.analysed["recursive_components"] = len(comps)
    recs = json.load(open(os.path.join(VERIF, "tables", "recursion_classes.json"))).get("classes", {})
    for comp in comps:
        cs = set(comp)
        comp = sorted(comp)
        rep_name = comp[0]
        key = "scc:%s(+%d)" % (rep_name, len(comp) - 1)
        where = "%s:%s" % (F.bodies[rep_name]["file"], F.bodies[rep_name]["line"])
        table = None
        for pat, c in recs.items():
            if any(re.search(pat, n) for n in comp):
                table = c
                break
        if any(n in G.deferred for n in comp) or any(e[0] == "dyn" and e[1] in cs for n in comp for e in G.edges.get(n, ())):
            # evaluation-time recursion through evaluator closures / user function values
            if pid == "C05":
                rep.violation(rid, "userfn-recursion", "evaluation recursion through function values is unbounded: a recursive user-defined FEEL function overflows the stack "
                              "(%d bodies in the cycle, e.g. %s)" % (len(comp), [c.split("::")[-1] for c in comp[:4]]), where)
                continue
            # model level: the registries are looked up by identifier / type reference and then called: reference-following recursion
            regs = [n for n in comp if re.search(r"dmntk_model_evaluator::builders::\w+::\w+Evaluator::(eval|evaluate)$", n) and on_registry_cycle(F, G, n, cs)]
            for n in regs:
                short = "::".join(n.split("::")[-2:])
                rep.violation(rid, "refrec:%s" % short, "%s looks a model element up by reference and evaluates it, and can be reached again from that evaluation: "
                              "cyclic references between model elements recurse without bound (no cycle detection at build time)" % n, "%s:%s" % (F.bodies[n]["file"], F.bodies[n]["line"]))
            if not regs:
                if any(n == "dmntk_feel::function::FunctionBody::evaluate" for n in comp):
                    rep.ok(rid, key, "FEEL-level recursion through function values: decided under C05 (known finding there)", how="audited")
                else:
                    rep.violation(rid, "eval-recursion:%s" % rep_name, "evaluation-time recursion through evaluator closures (%d bodies)" % len(comp), where)
            elif any(n == "dmntk_feel::function::FunctionBody::evaluate" for n in comp):
                rep.note("the FEEL-level part of this cycle (user function values) is C05's known finding")
            continue
        if all(F.bodies[n].get("from_expansion") for n in comp):
            rep.ok(rid, key, "compiler-derived impl(s): structural recursion over the fields of an owned type")
            continue
        # every cycle must contain a strictly decreasing edge: the sub-graph of non-strict edges must be acyclic and contain no unknown edge
        weak = {}
        unknown = []
        for n in comp:
            for e in G.edges.get(n, ()):
                if e[1] not in cs:
                    continue
                c = edge_class(F, G, n, e[1], e[2])
                if c == "unknown":
                    unknown.append((n, e[1], e[3]))
                if c != "strict":
                    weak.setdefault(n, set()).add(e[1])
        # cycle detection in `weak`
        state = {}

        def cyc(v):
            state[v] = 1
            for w in weak.get(v, ()):
                if state.get(w) == 1 or (state.get(w) is None and cyc(w)):
                    return True
            state[v] = 2
            return False
        has_cycle = any(state.get(v) is None and cyc(v) for v in list(weak))
        if not has_cycle and not unknown:
            rep.ok(rid, key, "structural: every cycle passes a call whose tree-typed argument is a proper component of the caller's")
        elif table is not None and table["class"] == "structural":
            rep.ok(rid, key, "structural (audited): %s" % table["reason"], how="audited")
        elif table is not None and table["class"] == "reference-following":
            rep.violation(rid, "refrec:%s" % table["id"], "reference-following recursion without a cycle guard: %s" % table["reason"], where)
        else:
            rep.violation(rid, key, "recursion among %s is not provably structural (non-decreasing cycle: %s, unknown argument provenance: %s)"
                          % ([c.split("::")[-1] for c in comp[:6]], has_cycle, [(a.split("::")[-1], b2.split("::")[-1], l) for a, b2, l in unknown[:4]]), where)
