"""C18: HTTP service - JSON escaping taint rule, endpoint -> workspace operation, response construction, lock handling (DESIGN §3 C18)."""
import re

from facts import find_hir, strip

LEVEL = "other"
CRATES_QUICK = ["dmntk_server", "dmntk_feel", "dmntk_feel_number", "dmntk_common", "dmntk_workspace"]
CRATES_THOROUGH = None
JSONIFY_DECL = "dmntk_common::jsonify::Jsonify::jsonify"
WS = "dmntk_workspace::workspace::Workspace::"
# external interface of the service: route -> the workspace operation it stands for (C18's statement)
ROUTES = {
    "/definitions/clear": "clear",
    "/definitions/add": "add",
    "/definitions/replace": "replace",
    "/definitions/remove": "remove",
    "/definitions/deploy": "deploy",
    "/evaluate/{model}/{invocable}": "evaluate_invocable",
    "/tck/evaluate": "evaluate_invocable",
}
MUTATING = {"clear", "add", "replace", "remove", "deploy"}
# Value kinds whose JSON rendering the property speaks about
RESULT_KINDS = {"String", "Number", "Boolean", "Null", "List", "Context"}
SAFE_SCALAR_TYPES = {"bool", "u8", "u16", "u32", "u64", "u128", "usize", "i8", "i16", "i32", "i64", "i128", "isize"}


def format_args_of(n):
    """argument expressions of a format!/write! expansion rooted at n (not descending into nested closures' own formats)"""
    out = []
    for t, parents in find_hir(n, lambda x: x.get("k") == "LetStmt" and x.get("p", {}).get("name") == "args" and x.get("e", {}).get("k") == "Tup"):
        for e in t["e"]["es"]:
            out.append(e["e"] if e.get("k") == "AddrOf" else e)
    for c, parents in find_hir(n, lambda x: x.get("k") == "Call" and "fmt::rt::Argument" in (x.get("callee") or "")):
        a = c["args"][0] if c.get("args") else None
        if a is not None and a.get("k") == "AddrOf":
            out.append(a["e"])
    return out


class Taint:
    def __init__(self, F, owner, escapers):
        self.F = F
        self.owner = owner
        self.escapers = escapers
        self.bad = []   # (line, why)
        self.env = {}

    def ty(self, e):
        t = e.get("t")
        s = self.F.ty(self.owner, t) if t is not None else ""
        return s.replace("&", "").replace("mut ", "").strip()

    def safe(self, e, env):
        e0 = e
        e = strip(e)
        k = e.get("k")
        if k == "Lit":
            return True
        if k == "Path":
            if e.get("res") == "local":
                if e["name"] in env:
                    return env[e["name"]]
                return self.ty(e) in SAFE_SCALAR_TYPES
            return e.get("dk", "").startswith("Const") and self.ty(e) in SAFE_SCALAR_TYPES
        if k in ("Call", "MethodCall"):
            callee = e.get("callee") or ""
            decl = e.get("callee_decl") or callee
            m = e.get("method")
            if decl == JSONIFY_DECL:
                return True
            if callee in self.escapers:
                return True
            if callee == "core::hint::must_use" and e.get("args"):
                return self.safe(e["args"][0], env)
            if callee == "alloc::fmt::format":
                ok = True
                for a in format_args_of_shallow(e):
                    if not self.safe(a, env):
                        ok = False
                        self.bad.append((a.get("l"), "format argument of type `%s` is interpolated without JSON escaping" % self.ty(a)))
                return ok
            if "serde_json::" in callee and ("to_string" in callee or "to_value" in callee):
                return True
            if callee in ("alloc::string::String::new", "alloc::string::String::with_capacity"):
                return True
            if (callee.endswith("String as core::convert::From<&str>>::from") or callee.endswith("String as core::convert::From<char>>::from") or
                    (m in ("from", "to_string", "into", "to_owned") and callee.endswith("::from"))) and e.get("args") and strip(e["args"][0]).get("k") == "Lit":
                return True
            if k == "MethodCall":
                if m in ("join", "collect", "concat", "iter", "into_iter", "as_str", "as_ref", "clone", "to_owned", "unwrap_or_else", "unwrap_or_default"):
                    r = self.safe(e["recv"], env)
                    return r and all(self.safe(a, env) for a in e.get("args", []) if strip(a).get("k") in ("Lit", "Closure"))
                if m == "map" and e.get("args"):
                    return self.safe(e["args"][0], env)
                if m in ("to_string", "into", "to_owned") and strip(e["recv"]).get("k") == "Lit":
                    return True
                if m == "to_string" or (decl or "").endswith("ToString::to_string"):
                    rt = self.ty(strip(e["recv"]))
                    if rt in SAFE_SCALAR_TYPES:
                        return True
                    if "ResultDto" in rt:
                        return True   # serde_json (checked separately by R18.3)
                    return False
            return self.ty(e) in SAFE_SCALAR_TYPES
        if k == "Closure":
            cenv = dict(env)
            return self.safe(e["body"], cenv)
        if k == "Block":
            benv = dict(env)
            for s in e["b"].get("stmts", []):
                if s.get("k") == "LetStmt" and "e" in s and s["p"].get("k") == "Bind":
                    benv[s["p"]["name"]] = self.safe(s["e"], benv)
            # text accumulated in a local String of this block (`let mut json = String::from("["); .. json.push_str(&x) ..`): the local is safe when its start and every
            # piece appended to it anywhere in the block (loops and branches included) is safe
            for s in e["b"].get("stmts", []):
                if not (s.get("k") == "LetStmt" and "e" in s and s["p"].get("k") == "Bind" and "String" in self.ty(s["e"])):
                    continue
                acc = s["p"]["name"]
                appends = find_hir(e, lambda x: x.get("k") == "MethodCall" and x.get("method") in ("push_str", "push", "insert_str", "insert", "extend", "write_fmt", "write_str", "add_assign")
                                   and strip(x["recv"]).get("k") == "Path" and strip(x["recv"]).get("name") == acc)
                appends += [(x, p_) for x, p_ in find_hir(e, lambda x: x.get("k") == "AssignOp" and x.get("op") == "+=" and strip(x["a"]).get("k") == "Path" and strip(x["a"]).get("name") == acc)]
                for x, _ in appends:
                    pieces = [x["b"]] if x.get("k") == "AssignOp" else list(x.get("args", []))[-1:]
                    if x.get("k") == "MethodCall" and x.get("method") == "write_fmt":
                        pieces = format_args_of(x)
                    for a in pieces:
                        if not self.safe(a, benv):
                            benv[acc] = False
                            self.bad.append((a.get("l"), "text of type `%s` is appended to the JSON text without escaping" % self.ty(a)))
            if e["b"].get("e") is not None:
                return self.safe(e["b"]["e"], benv)
            return True
        if k == "If":
            return self.safe(e["then"], env) and ("else" not in e or self.safe(e["else"], env))
        if k == "Match":
            return all(self.safe(a["b"], env) for a in e["arms"])
        if k in ("Field", "Index"):
            return self.ty(e) in SAFE_SCALAR_TYPES
        return False


def format_args_of_shallow(fmt_call):
    """arguments of this format call only (nested format! calls in argument position are classified recursively by safe())"""
    blk = fmt_call["args"][0] if fmt_call.get("args") else None
    if blk is None or blk.get("k") != "Block":
        return []
    out = []
    for s in blk["b"].get("stmts", []):
        if s.get("k") == "LetStmt" and s.get("p", {}).get("name") == "args" and s.get("e", {}).get("k") == "Tup":
            for e in s["e"]["es"]:
                out.append(e["e"] if e.get("k") == "AddrOf" else e)
    if not out:
        for c, _ in find_hir(blk, lambda x: x.get("k") == "Call" and "fmt::rt::Argument" in (x.get("callee") or "")):
            a = c["args"][0] if c.get("args") else None
            if a is not None and a.get("k") == "AddrOf":
                out.append(a["e"])
    return out


def find_escapers(F):
    """functions recognised as JSON string escapers: they map every '"', '\\' and control character to an escape sequence.
    Structural recognition: a function str -> String whose body matches on chars with arms for '"' and '\\\\' producing strings starting with a backslash."""
    out = set()
    for n, h in F.hir.items():
        if h["kind"] not in ("fn", "method"):
            continue
        lits = [x.get("v") for x, _ in find_hir(h["body"], lambda x: x.get("k") == "Lit" and x.get("lit") in ("char", "str"))]
        pats = []
        for m, _ in find_hir(h["body"], lambda x: x.get("k") == "Match"):
            for arm in m["arms"]:
                for p, _ in find_hir({"k": "x", "p": arm["p"]}, lambda x: x.get("k") == "Lit" and x.get("lit") == "char"):
                    pats.append(p.get("v"))
        if '"' in pats and "\\" in pats and "\\\"" in lits and "\\\\" in lits:
            # control characters: a range/guard arm producing \\u escapes
            hexfmt = find_hir(h["body"], lambda x: x.get("k") == "Call" and (x.get("callee") or "").endswith(("Argument::<'_>::new_lower_hex", "Argument::<'_>::new_upper_hex")))
            templ = [x.get("v") for x, _ in find_hir(h["body"], lambda x: x.get("k") == "Lit" and x.get("lit") == "other" and str(x.get("v", "")).startswith("ByteStr(["))]
            # `write!(out, "\\u{:04x}", ch as u32)`: a hexadecimal argument behind a literal `\u` (bytes 92, 117) with a width of 4 in the compiled template
            hex_escape = bool(hexfmt) and any(re.search(r"\b92, 117\b", v) and re.search(r"\b4\b", v.split("92, 117", 1)[1]) for v in templ)
            if any(isinstance(v, str) and v.startswith("\\u") for v in lits) or any(isinstance(v, str) and "\\u{:04x}" in v.lower() for v in lits) or hex_escape:
                out.add(n)
    return out


def escaper_fold_rule(F, rep, escapers):
    """R18.9: the recognised escaper, folded (abstract-string engine; the loop over the characters of a literal text is unrolled, nothing of the repository runs) on every
    ASCII character, a few beyond and some mixed texts, yields a JSON string literal that decodes to exactly the input - the structural recognition of R18.1 only says that
    arms for the quote, the backslash and control characters exist, this rule says what they produce."""
    import json as _json
    import strfold
    from hireval import Evaluator, TooManyPaths
    rid = rep.rule("R18.9", "the JSON string escaper, folded on every ASCII character (and a few beyond), yields a JSON string literal that decodes to exactly the input text")
    texts = [chr(i) for i in range(0, 128)] + ["\u0080", "\u00e9", "\u2028", "\U0001F600", "", "say \"hi\"", "a\\b\nc\td", "\u0001\u001f \"\\"]
    texts = [t.encode().decode("unicode_escape") if "\\u" in repr(t) or "\\U" in repr(t) else t for t in texts]
    for fn in sorted(escapers):
        h = F.hir.get(fn)
        if h is None:
            continue
        probs, und = [], 0
        for t in texts:
            ev = Evaluator(F, ints=True, max_paths=400)
            sf = strfold.StrFold(ev)
            ev.call_hook = sf.hook
            try:
                outs = ev.run(h["params"], h["body"], [("lit", t)])
            except (TooManyPaths, ValueError, KeyError, RecursionError):
                outs = None
            vals = {strfold.render(strfold.as_str(v)) if strfold.as_str(v) is not None and all(a[0] == "c" for a in strfold.as_str(v)[1]) else None for _, v in (outs or [(None, None)])}
            if len(vals) != 1 or None in vals:
                und += 1
                continue
            got = vals.pop()
            try:
                dec = _json.loads(got)
            except ValueError:
                dec = None
            if dec != t and len(probs) < 3:
                probs.append("%r is rendered %s, which %s" % (t, got, "is not a JSON string" if dec is None else "decodes to %r" % dec))
        key = "escaper:%s" % fn.split("::")[-1]
        if probs:
            rep.violation(rid, key, "%s: %s" % (fn, "; ".join(probs)), "%s:%s" % (h["file"], h["line"]))
        elif und:
            rep.undecided(rid, key, "%d of %d representative texts do not fold to a literal text" % (und, len(texts)))
        else:
            rep.ok(rid, key, "%d texts (all 128 ASCII characters, non-ASCII samples, mixed texts) decode to themselves" % len(texts))


def number_carrier_rule(F, rep):
    """R18.10 ('numbers are rendered as JSON numbers with their decimal value'): the text jsonify() produces for an evaluation result carries numbers with up to 34 significant
    digits; it must reach the response as text.  Decoding it into serde_json::Value (whose numbers are u64 / i64 / f64 without the arbitrary_precision feature) or into any
    binary float on the way rounds `1/3` to 0.33333333333333337.  Positive evidence: a serde_json deserialisation whose input is (a local initialised from) a jsonify() call."""
    rid = rep.rule("R18.10", "the JSON text of an evaluation result reaches the response as text: it is never decoded into serde_json::Value / binary floats on the way")
    n_json = 0
    for n, h in sorted(F.hir.items()):
        if not h["_crate"].startswith("dmntk_server") or "body" not in h:
            continue
        jcalls = find_hir(h["body"], lambda x: x.get("k") == "MethodCall" and (x.get("callee_decl") or x.get("callee") or "").endswith("Jsonify::jsonify") or
                          (x.get("k") == "MethodCall" and x.get("method") == "jsonify"))
        if not jcalls:
            continue
        n_json += len(jcalls)
        from_json = {}
        for st, _ in find_hir(h["body"], lambda x: x.get("k") == "LetStmt" and "e" in x and x["p"].get("k") == "Bind"):
            if find_hir(st["e"], lambda y: y.get("k") == "MethodCall" and y.get("method") == "jsonify"):
                from_json[st["p"]["name"]] = True

        def carries_json(e):
            return bool(find_hir(e, lambda y: (y.get("k") == "MethodCall" and y.get("method") == "jsonify") or
                                 (y.get("k") == "Path" and y.get("res") == "local" and y.get("name") in from_json)))
        bad = []
        for c, _ in find_hir(h["body"], lambda x: x.get("k") == "Call" and re.search(r"^serde_json::(de::)?from_(str|slice|reader)$", x.get("callee") or "")):
            if c.get("args") and carries_json(c["args"][0]):
                bad.append(c)
        key = "carrier:%s" % n.split("::")[-1]
        if bad:
            rep.violation(rid, key, "%s decodes the jsonify() text of the result with %s and serialises it again: serde_json's numbers are 64-bit integers / binary floats, a decimal "
                          "with more than 17 significant digits comes back rounded" % (n.split("::")[-1], bad[0]["callee"].split("::")[-1]), "%s:%s" % (h["file"], bad[0].get("l")))
        else:
            rep.ok(rid, key, "%d jsonify() call(s), none fed to a serde_json deserialiser" % len(jcalls))
    if not n_json:
        rep.undecided(rid, "carrier", "no jsonify() call in the server crate")


def run(F, rep, tier):
    rep.explanation = ("(1) taint rule over every Jsonify impl and over the hand-built evaluate response: text interpolated into JSON output must be a constant, "
                       "a jsonify() result, a scalar rendering or pass through a JSON string escaper; (2) each route's handler must reach exactly the workspace "
                       "operation the route stands for; (3) all other bodies are produced by serde; (4) lock results are matched, never unwrapped. "
                       "Round-trips of TCK DTOs and request-sequence equivalence are not decided.")
    r1 = rep.rule("R18.1", "JSON taint: no raw text reaches the JSON output of any value kind without escaping (the kinds the property lists each have an arm of their own)")
    r2 = rep.rule("R18.2", "each definitions/evaluate route reaches exactly the workspace operation it stands for")
    r3 = rep.rule("R18.3", "every response body is built by serde or by the jsonify path checked in R18.1")
    r4 = rep.rule("R18.4", "results of RwLock::read/write are matched, never unwrapped, in the server")
    escapers = find_escapers(F)
    rep.analysed["json_escapers_recognised"] = sorted(escapers)
    escaper_fold_rule(F, rep, escapers)
    number_carrier_rule(F, rep)
    fresh_scope_rule(F, rep)
    finite_number_rule(F, rep)
    extractor_error_rule(F, rep)

    # ---------------- R18.1
    all_impls = {n: h for n, h in F.hir.items() if n.endswith("as dmntk_common::jsonify::Jsonify>::jsonify")}
    # only the impls that can contribute to a response body: those reachable from <Value as Jsonify>::jsonify
    root = "<dmntk_feel::values::Value as dmntk_common::jsonify::Jsonify>::jsonify"
    if root not in all_impls:
        rep.missing_anchor(r1, root)
        return
    impls = {}
    work = [root]
    while work:
        f = work.pop()
        if f in impls or f not in all_impls:
            continue
        impls[f] = all_impls[f]
        for c, _ in find_hir(all_impls[f]["body"], lambda x: x.get("k") in ("Call", "MethodCall") and (x.get("callee_decl") or x.get("callee") or "") == JSONIFY_DECL):
            work.append(c.get("callee"))
    rep.analysed["jsonify_impls_reachable_from_responses"] = sorted(impls)
    rep.analysed["jsonify_impls_not_reachable"] = sorted(set(all_impls) - set(impls))
    rep.floor(r1, "Jsonify impls", len(impls), 4)
    for n, h in sorted(impls.items()):
        self_ty = n[1:].split(" as ")[0]
        t = Taint(F, h, escapers)
        body = h["body"]
        if self_ty.endswith("FeelNumber"):
            rep.ok(r1, "impl:%s" % self_ty, "numeric text produced by the decimal library; its validity as a JSON number is property C07 (not applicable here)", how="audited")
            continue
        # Value: judge per arm of `match self`
        ms = [m for m, _ in find_hir(body, lambda x: x.get("k") == "Match" and x.get("src") == "Normal" and strip(x["e"]).get("k") == "Path" and strip(x["e"]).get("name") == "self")]
        if self_ty.endswith("values::Value") and ms:
            seen = set()
            for arm in ms[0]["arms"]:
                kinds = [c.split("::")[-1] for c in pat_ctors(arm["p"]) if c.startswith("dmntk_feel::values::Value::")]
                t.bad = []
                ok = t.safe(arm["b"], {})
                if not kinds:
                    # 'every response is a well-formed JSON document': the arm for all remaining kinds (dates, times, durations, ranges ..) must produce JSON text as well
                    if ok:
                        rep.ok(r1, "Value::<other kinds>", "the arm for the remaining kinds renders escaped / constant text only")
                    else:
                        rep.violation(r1, "Value::<other kinds>", "the arm of Value::jsonify for the remaining kinds (dates, times, durations, ranges ..) renders raw text: %s - an evaluation "
                                      "result of such a kind makes the response body ill-formed JSON" % (t.bad[0][1] if t.bad else "raw text returned"), "%s:%s" % (h["file"], arm.get("l")))
                    continue
                for kd in kinds:
                    seen.add(kd)
                    if kd not in RESULT_KINDS:
                        if not ok:
                            rep.violation(r1, "Value::%s" % kd, "Value::%s is rendered into JSON as raw text: %s" % (kd, t.bad[0][1] if t.bad else "raw text returned"), "%s:%s" % (h["file"], arm.get("l")))
                        continue
                    key = "Value::%s" % kd
                    if ok:
                        rep.ok(r1, key, "constant, scalar, escaped or jsonify() pieces only")
                    else:
                        why = t.bad[0][1] if t.bad else "raw text returned"
                        rep.violation(r1, key, "Value::%s is rendered into JSON with raw text: %s (a quote, backslash or control character in the value breaks or injects into the document)" % (kd, why),
                                      "%s:%s" % (h["file"], arm.get("l")))
            for kd in RESULT_KINDS - seen:
                rep.violation(r1, "Value::%s" % kd, "Value::%s has no arm in Value::jsonify (falls into the raw-text wildcard)" % kd, "%s:%s" % (h["file"], h["line"]))
            continue
        t.bad = []
        ok = t.safe(body, {})
        key = "impl:%s" % self_ty.split("::")[-1]
        if ok:
            rep.ok(r1, key, "constant, scalar, escaped or jsonify() pieces only")
        else:
            why = t.bad[0][1] if t.bad else "raw text returned"
            rep.violation(r1, key, "%s::jsonify interpolates raw text: %s (e.g. a context key containing a quote injects members)" % (self_ty.split("::")[-1], why),
                          "%s:%s" % (h["file"], t.bad[0][0] if t.bad else h["line"]))

    # ---------------- R18.2 / R18.3
    regs = {n: h for n, h in F.hir.items() if n.endswith("as actix_web::service::HttpServiceFactory>::register") and n.startswith("<dmntk_server::")}
    rep.floor(r2, "registered routes", len(regs), 8)
    seen_routes = set()
    for n, h in sorted(regs.items()):
        routes = [x["v"] for x, _ in find_hir(h["body"], lambda x: x.get("k") == "Lit" and x.get("lit") == "str" and str(x.get("v", "")).startswith("/"))]
        if not routes:
            continue
        route = routes[0]
        handler = [m for m in F.hir if m.startswith(n + "::")]
        ops, chain = reach_workspace(F, handler)
        # R18.3 for every route
        for hn in handler:
            hh = F.hir[hn]
            bodies = [c for c, _ in find_hir(hh["body"], lambda x: x.get("k") == "MethodCall" and x.get("method") == "body" and "Response" in (x.get("callee") or ""))]
            t = Taint(F, hh, escapers)
            if not bodies:
                js = find_hir(hh["body"], lambda x: x.get("k") == "Call" and (x.get("callee") or "").endswith("types::json::Json"))
                # the response may be built by a helper of the server crate the handler delegates to
                helpers_js = []
                for c2, _ in find_hir(hh["body"], lambda x: x.get("k") in ("Call", "MethodCall") and (x.get("callee") or "").startswith("dmntk_server::") and (x.get("callee") or "") in F.hir):
                    helpers_js += find_hir(F.hir[c2["callee"]]["body"], lambda x: x.get("k") == "Call" and (x.get("callee") or "").endswith("types::json::Json"))
                if js:
                    rep.ok(r3, "route:%s" % route, "%d response(s) wrapped in actix Json<..> (serde)" % len(js))
                elif helpers_js:
                    rep.ok(r3, "route:%s" % route, "the response is wrapped in actix Json<..> (serde) by a helper of the server crate")
                else:
                    rep.undecided(r3, "route:%s" % route, "the handler builds neither a Json<..> nor an explicit body itself: response construction not followed")
            # locals of the handler that hold (parts of) the body: judged where they are bound
            henv = {}
            for st, _ in find_hir(hh["body"], lambda x: x.get("k") == "LetStmt" and "e" in x and x.get("p", {}).get("k") == "Bind"):
                t.bad = []
                henv[st["p"]["name"]] = t.safe(st["e"], henv)
            for i, b in enumerate(bodies):
                t.bad = []
                if t.safe(b["args"][0], henv):
                    rep.ok(r3, "route:%s:body%d" % (route, i), "serde / jsonify text only")
                else:
                    rep.violation(r3, "route:%s:body%d" % (route, i), "response body contains raw text: %s" % (t.bad[0][1] if t.bad else "unrecognised expression"),
                                  "%s:%s" % (hh["file"], b.get("l")))
        if route not in ROUTES:
            continue
        seen_routes.add(route)
        want = ROUTES[route]
        key = "route:%s" % route
        mut = {o for o in ops if o in MUTATING}
        if want in MUTATING:
            good = mut == {want}
        else:
            good = want in ops and not mut
        if good:
            rep.ok(r2, key, "reaches Workspace::%s via %s" % (want, " -> ".join(chain.get(want, []))))
        else:
            rep.violation(r2, key, "route %s stands for Workspace::%s but its handler reaches Workspace::%s" % (route, want, sorted(ops)),
                          "%s:%s" % (h["file"], h["line"]))
    for r in ROUTES:
        if r not in seen_routes:
            rep.violation(r2, "route:%s" % r, "route %s is not registered by the server" % r, "server/src/server.rs")

    # ---------------- R18.4
    nlocks = 0
    for n, h in F.hir.items():
        if h["_crate"] != "dmntk_server.lib":
            continue
        for c, parents in find_hir(h["body"], lambda x: x.get("k") == "MethodCall" and x.get("method") in ("read", "write", "lock", "try_read", "try_write")
                                   and ("RwLock" in (x.get("callee") or "") or "Mutex" in (x.get("callee") or ""))):
            nlocks += 1
            par = parents[-1] if parents else {}
            key = "%s:%s@%d" % (n.split("::")[-1], c["method"], nlocks)
            if par.get("k") == "MethodCall" and par.get("method") in ("unwrap", "expect", "unwrap_unchecked") and par.get("recv") is c:
                rep.violation(r4, key, "the result of %s() is unwrapped: once the lock is poisoned every later request panics" % c["method"], "%s:%s" % (h["file"], c.get("l")))
            elif c["method"].startswith("try_"):
                rep.violation(r4, key, "%s() does not wait for the lock: a request that arrives while another one holds the workspace is answered with an error and its operation is "
                              "not executed (the sequence of workspace operations differs from the sequence of requests)" % c["method"], "%s:%s" % (h["file"], c.get("l")))
            else:
                rep.ok(r4, key, "matched (%s)" % par.get("k"))
    rep.floor(r4, "lock acquisitions in the server", min(nlocks, 2), 2)    # seven on the pinned tree; a shared locking helper legitimately leaves three
    handler_panic_rule(F, rep)
    # R18.3 also outside the route handlers: error handlers, default services (any `.body(..)` of an HTTP response built in the server crate)
    handled = {hn for n in regs for hn in F.hir if hn.startswith(n + "::")}
    for n, h in sorted(F.hir.items()):
        if not h["_crate"].startswith("dmntk_server") or n in handled:
            continue
        bodies = [c for c, _ in find_hir(h["body"], lambda x: x.get("k") == "MethodCall" and x.get("method") == "body" and "Response" in (x.get("callee") or ""))]
        if not bodies:
            continue
        t = Taint(F, h, escapers)
        henv = {}
        for st, _ in find_hir(h["body"], lambda x: x.get("k") == "LetStmt" and "e" in x and x.get("p", {}).get("k") == "Bind"):
            t.bad = []
            henv[st["p"]["name"]] = t.safe(st["e"], henv)
        for i, b in enumerate(bodies):
            t.bad = []
            key = "body:%s:%d" % (n.split("::")[-1], i)
            if t.safe(b["args"][0], henv):
                rep.ok(r3, key, "serde / jsonify text only")
            else:
                rep.violation(r3, key, "a response body built in %s contains raw text: %s" % (n.split("::")[-1], t.bad[0][1] if t.bad else "unrecognised expression"), "%s:%s" % (h["file"], b.get("l")))
    tck_tag_rule(F, rep)
    tck_text_rule(F, rep)
    # premise of "the endpoints behave as the same sequence of workspace operations": the operations themselves keep the workspace consistent (C17)
    from props import c17
    expl = rep.explanation
    c17.run(F, rep, tier)
    rep.explanation = expl + " The structural rules of the Workspace operations (R17.x, property C17) are re-evaluated as premises."
    shared_state_rule(F, rep)


def reach_workspace(F, starts):
    """Workspace methods reachable through HIR calls inside dmntk_server from the given functions"""
    ops = set()
    chain = {}
    seen = set()
    work = [(s, [s.split("::")[-1]]) for s in starts]
    while work:
        f, path = work.pop()
        if f in seen or f not in F.hir:
            continue
        seen.add(f)
        for c, _ in find_hir(F.hir[f]["body"], lambda x: x.get("k") in ("Call", "MethodCall") and x.get("callee")):
            cal = c["callee"]
            if cal.startswith(WS):
                op = cal[len(WS):]
                ops.add(op)
                chain.setdefault(op, path)
            elif cal.startswith("dmntk_server::"):
                work.append((cal, path + [cal.split("::")[-1]]))
        # function items used as values (`with_lock(&data, do_clear_definitions)`): handed to a helper that applies them
        for pth, _ in find_hir(F.hir[f]["body"], lambda x: x.get("k") == "Path" and x.get("res") == "def" and (x.get("dk") or "") in ("Fn", "AssocFn") and (x.get("path") or "").startswith("dmntk_server::")):
            work.append((pth["path"], path + [pth["path"].split("::")[-1]]))
    return ops, chain


def pat_ctors(p, out=None):
    if out is None:
        out = []
    if isinstance(p, dict):
        if p.get("k") in ("TupleStruct", "Struct", "Path") and "path" in p:
            out.append(p["path"])
        for v in p.values():
            if isinstance(v, (dict, list)):
                pat_ctors(v, out)
    elif isinstance(p, list):
        for x in p:
            pat_ctors(x, out)
    return out


VAL = "dmntk_feel::values::Value::"


def tck_tag_rule(F, rep):
    """R18.5: TCK typed values round-trip only if the tables agree: the writers (Value kind -> "xsd:..." tag; there are two of them, for top-level
    and for nested values) must give one kind the same tag, and the reader's constructor for that tag must be able to produce that kind."""
    rid = rep.rule("R18.5", "TCK type tags: both Value->DTO writers give a kind the same xsd tag, and the DTO->Value reader builds that kind from that tag")
    writers = {}
    reader = {}
    for n, h in F.hir.items():
        if not h["_crate"].startswith("dmntk_server"):
            continue
        for m, _ in find_hir(h["body"], lambda x: x.get("k") == "Match" and x.get("src") == "Normal"):
            for arm in m["arms"]:
                pc = pat_ctors(arm["p"])
                kinds = sorted({c[len(VAL):] for c in pc if isinstance(c, str) and c.startswith(VAL)})
                tags = sorted({x.get("v") for x, _ in find_hir(arm["b"], lambda x: x.get("k") == "Lit" and isinstance(x.get("v"), str) and x["v"].startswith("xsd:"))})
                if kinds and tags:
                    for k in kinds:
                        writers.setdefault(n, {}).setdefault(k, set()).update(tags)
                lits = lit_strings(arm["p"])
                ctor = [c.get("callee") for c, _ in find_hir(arm["b"], lambda x: x.get("k") == "Call" and "::try_from_xsd_" in (x.get("callee") or ""))]
                direct = sorted({(x.get("callee") or x.get("path") or "") for x, _ in find_hir(arm["b"], lambda x: x.get("k") in ("Call", "Path") and (x.get("callee") or x.get("path") or "").startswith(VAL))})
                for t in lits:
                    if t.startswith("xsd:") and (ctor or direct):
                        reader[t] = ctor[0] if ctor else direct[0]
    rep.floor(rid, "Value -> DTO writer tables", len(writers), 2)
    rep.floor(rid, "xsd tags understood by the reader", len(reader), 8)
    produced = {}
    for t, fn in reader.items():
        if fn.startswith(VAL) and "::try_from_xsd_" not in fn:
            produced[t] = {fn[len(VAL):]}
            continue
        h = F.hir.get(fn)
        if h is None:
            rep.missing_anchor(rid, fn)
            continue
        ks = {(x.get("callee") or x.get("path") or "")[len(VAL):] for hh in with_helpers(F, fn) for x, _ in find_hir(hh["body"], lambda x: x.get("k") in ("Call", "Path") and (x.get("callee") or x.get("path") or "").startswith(VAL))}
        produced[t] = {k for k in ks if "::" not in k} - {"Null"}
    by_kind = {}
    for w, tab in sorted(writers.items()):
        for k, tags in sorted(tab.items()):
            key = "tag:writer%d:%s" % (sorted(writers).index(w), k)
            if len(tags) != 1:
                rep.violation(rid, key, "%s writes kind %s with several tags %s" % (w, k, sorted(tags)), "server/src/dto.rs")
                continue
            t = list(tags)[0]
            by_kind.setdefault(k, set()).add(t)
            if t not in reader:
                rep.violation(rid, key, "kind %s is written with tag %s which the reader does not understand" % (k, t), "server/src/dto.rs")
            elif k not in produced.get(t, set()):
                rep.violation(rid, key, "kind %s is written with tag %s, but the reader builds %s from that tag (%s): a %s sent back to the service does not round-trip"
                              % (k, t, sorted(produced.get(t, [])), reader[t].split("::")[-1], k), "server/src/dto.rs")
            else:
                rep.ok(rid, key, "%s <-> %s via %s" % (k, t, reader[t].split("::")[-1]))
    xsd_number_rule(F, rep, rid, reader)
    for k, tags in sorted(by_kind.items()):
        if len(tags) > 1:
            rep.violation(rid, "tag:agree:%s" % k, "the two writers disagree on the tag of kind %s: %s" % (k, sorted(tags)), "server/src/dto.rs")


def xsd_number_rule(F, rep, rid, reader):
    """the numeric readers turn the DTO text into a number with the number type's own parser: a detour through i64 / f64 narrows the 34-digit range"""
    for t, fn in sorted(reader.items()):
        if not fn.endswith(("try_from_xsd_integer", "try_from_xsd_decimal", "try_from_xsd_double")):
            continue
        h = F.hir.get(fn)
        if h is None:
            continue
        parses, tys = [], []
        for hh in with_helpers(F, fn):
            ps = [c for c, _ in find_hir(hh["body"], lambda x: x.get("k") in ("MethodCall", "Call") and ((x.get("method") == "parse" and "str" in (x.get("callee") or "")) or (x.get("callee") or "").endswith("FromStr>::from_str") or (x.get("callee") or "").endswith("::from_str")))]
            parses += ps
            tys += [F.ty(hh, c["t"]) for c in ps if c.get("t") is not None]
        key = "reader-number:%s" % t
        if tys and all("FeelNumber" in ty for ty in tys):
            rep.ok(rid, key, "parsed as FeelNumber")
        elif not tys:
            rep.undecided(rid, key, "%s: no parse of the text was found (in the function or the private helpers it calls)" % fn.split("::")[-1])
        else:
            rep.violation(rid, key, "%s parses the text as %s instead of as a FEEL number: values beyond that type's range (34-digit decimals) no longer round-trip" % (fn.split("::")[-1], tys or "?"),
                          "%s:%s" % (h["file"], h["line"]))


def with_helpers(F, fn, depth=3):
    """HIR of a function and of the functions of its own module it calls (a shared private helper is part of the reader)"""
    out, seen, work = [], set(), [(fn, 0)]
    prefix = fn.rsplit("::", 1)[0].rsplit("::", 1)[0] + "::" if fn.count("::") >= 2 else fn
    while work:
        n, d = work.pop()
        if n in seen or n not in F.hir:
            continue
        seen.add(n)
        h = F.hir[n]
        out.append(h)
        if d >= depth:
            continue
        for c, _ in find_hir(h["body"], lambda x: x.get("k") in ("Call", "MethodCall") and (x.get("callee") or "").startswith(prefix)):
            work.append((c["callee"], d + 1))
        for c, _ in find_hir(h["body"], lambda x: x.get("k") == "Closure" and x.get("name")):
            work.append((c["name"], d))
    return out


def lit_strings(p, out=None):
    if out is None:
        out = []
    if isinstance(p, dict):
        if p.get("k") == "Lit" and isinstance(p.get("v"), str):
            out.append(p["v"])
        for v in p.values():
            if isinstance(v, (dict, list)):
                lit_strings(v, out)
    elif isinstance(p, list):
        for x in p:
            lit_strings(x, out)
    return out


def shared_state_rule(F, rep):
    """R18.6: all requests act on one workspace: the application data holding the RwLock<Workspace> is created once, outside the closure handed to
    HttpServer::new (actix calls that factory once per worker thread; state built inside it is private to the worker)."""
    rid = rep.rule("R18.6", "one workspace for all workers: the shared application data is created outside the per-worker App factory")
    h = F.hir.get("dmntk_server::server::start_server")
    if h is None:
        rep.missing_anchor(rid, "dmntk_server::server::start_server")
        return
    facs = [c for c, _ in find_hir(h["body"], lambda x: x.get("k") == "Call" and (x.get("callee") or "").endswith("HttpServer::<F, I, S, B>::new") or
                                   (x.get("k") == "Call" and "HttpServer" in (x.get("callee") or "") and (x.get("callee") or "").endswith("::new")))]
    if not facs:
        rep.missing_anchor(rid, "HttpServer::new in start_server")
        return
    made_outside = [c for c, par in find_hir(h["body"], lambda x: x.get("k") == "Call" and ((x.get("callee") or "").endswith("RwLock::<T>::new") or "Workspace::new" in (x.get("callee") or "")))]
    inside = []
    for fc in facs:
        for clo in [a for a in fc.get("args", []) if strip(a).get("k") == "Closure"]:
            inside += [c for c, _ in find_hir(strip(clo)["body"], lambda x: x.get("k") == "Call" and ((x.get("callee") or "").endswith("RwLock::<T>::new") or "Workspace::new" in (x.get("callee") or "")
                                                                                                       or ((x.get("callee") or "").endswith("Data::<T>::new"))))]
    if inside:
        rep.violation(rid, "factory", "start_server builds %s inside the closure passed to HttpServer::new: every worker thread gets its own workspace, so a model added through one connection "
                      "is unknown to requests served by another worker" % sorted({(c.get("callee") or "").split("::")[-3] + "::new" for c in inside}), "%s:%s" % (h["file"], inside[0].get("l")))
    elif not made_outside:
        rep.missing_anchor(rid, "creation of the RwLock<Workspace> in start_server")
    else:
        rep.ok(rid, "factory", "RwLock<Workspace> is created once in start_server and cloned (Arc) into every worker's App")


def tck_text_rule(F, rep):
    """R18.7: strings round-trip unchanged: the DTO reader hands the `text` member to Value::String as it is (cloned / converted to String, nothing
    else - no trim, case or replace), and the writers put the string payload of the value into the DTO as it is."""
    import hirflow
    rid = rep.rule("R18.7", "TCK strings pass unchanged between DTO text and Value::String in both directions (only clone / to_string conversions on the way)")
    TRANSPARENT = ("clone", "to_string", "to_owned", "as_str", "deref", "as_ref", "borrow", "into", "from", "as_deref")

    def base(d):
        """strip representation-preserving conversions; returns the underlying descriptor"""
        while isinstance(d, tuple) and d:
            if d[0] == "via" and d[1] in TRANSPARENT:
                d = d[2]
            elif d[0] == "un" and d[1] in ("*", "&"):
                d = d[2]
            elif d[0] == "call" and isinstance(d[1], str) and d[1].split("::")[-1] in TRANSPARENT and d[2]:
                d = d[2][0]
            elif d[0] == "unwrap" and d[1].endswith(("Option::Some", "Value::String")):
                d = d[2]
            else:
                break
        return d
    n = 0
    for name, h in sorted(F.hir.items()):
        if not h["_crate"].startswith("dmntk_server") or "dto" not in name:
            continue
        fl = hirflow.Flow(h)
        for c, args, cond, line, node in fl.calls:
            # reader: Value::String(<text>)
            if (c or "").endswith("values::Value::String") and "Ctor" in (node.get("dk") or "") and args:
                b = base(args[0])
                n += 1
                key = "reader:%s" % name.split(" for ")[-1].split(">::")[0].split("::")[-1][:40]
                if isinstance(b, tuple) and b and b[0] == "field" and b[1] == "text":
                    rep.ok(rid, key, "Value::String(text) takes the DTO text unchanged")
                else:
                    rep.violation(rid, key, "the string value is built from %s, not from the DTO's text member as it is: leading / trailing white space or other characters are altered on the way in"
                                  % str(b)[:120], "%s:%s" % (h["file"], line))
            # writers: SimpleDto::some("xsd:string", <payload>)
            if (c or "").endswith("SimpleDto::some") and len(args) == 2 and args[0] == ("lit", "xsd:string"):
                b = base(args[1])
                n += 1
                key = "writer:%s:%d" % (name.split(" for ")[-1].split(">::")[0].split("::")[-1][:40], line and 0)
                ok = isinstance(b, tuple) and b and (b[0] in ("arg", "local") or (b[0] == "unwrap") or (b[0] == "field"))
                ok = ok or (isinstance(b, tuple) and b and b[0] == "unwrap")
                if ok and "call" not in repr(b):
                    rep.ok(rid, key, "the string payload is written unchanged")
                else:
                    rep.violation(rid, key, "the xsd:string text is computed by %s instead of being the string payload as it is" % str(b)[:120], "%s:%s" % (h["file"], line))
    rep.floor(rid, "string conversions between DTO and Value", n, 3)


def handler_panic_rule(F, rep):
    """R18.8: request handlers hold the guard of the workspace lock while they work; a panic there poisons the lock and every later request fails. Every panic-capable
    site (bounds / overflow asserts, calls of APIs documented to panic - including base64's *_slice functions) in the bodies of the server crate must be discharged by
    the local proof rules of G1 (no audits here). The workspace operations themselves are C12's obligation."""
    import g1_panic
    rid = rep.rule("R18.8", "no undischarged panic-capable site in the request handlers of the server crate (a panic under the workspace guard poisons the lock)")
    n = 0
    for name, b in sorted(F.bodies.items()):
        if not name.startswith("dmntk_server::") and not name.startswith("<dmntk_server::"):
            continue
        ss = g1_panic.collect_sites(F, name)
        if not ss:
            continue
        A = g1_panic.Analyzer(F, name)
        for s in ss:
            n += 1
            try:
                d = g1_panic.discharge(F, A, s)
            except Exception:
                d = None
            if d:
                rep.ok(rid, s.key(), "%s: %s" % d)
            else:
                rep.violation(rid, s.key(), "%s %s in %s can panic while a request is being handled%s" % (s.kind, s.what, name, " (%s)" % g1_panic.panic_api(s.what) if s.kind == "call" and g1_panic.panic_api(s.what) else ""),
                              "%s:%s" % (b["file"], s.line))
    rep.floor(rid, "panic-capable sites in the server crate", n, 10)


def fresh_scope_rule(F, rep):
    """R18.11: the answer to a request reflects the workspace and that request only.  The input of `/evaluate` is parsed and evaluated in a Scope; the parser pushes temporary
    contexts on it and - by design of the library - leaves them there when the text is malformed (every caller abandons the scope after an error).  A scope that outlives the
    request (a `static`, a `thread_local!`, a field of the application data) therefore carries the debris of a malformed request into the answers of later, valid requests.
    Decided on HIR: wherever a function of the server crate hands a scope to the evaluator / parser entry points, that scope is constructed in the same function for this call."""
    import hirflow  # noqa: F401  (same fact base)
    from facts import find_hir, strip
    rid = rep.rule("R18.11", "the scope in which a request's input is parsed and evaluated is constructed for that request (never a static, a thread-local or a field that outlives it)")
    n = 0
    for name, h in sorted(F.hir.items()):
        if not name.startswith("dmntk_server::"):
            continue
        cr = F.crates.get(h.get("_crate"), {})
        for c, ps in find_hir(h["body"], lambda x: x.get("k") in ("Call", "MethodCall") and isinstance(x.get("callee"), str) and re.match(r"dmntk_(evaluator|feel_evaluator|feel_parser)::", x["callee"])):
            args = ([c["recv"]] if c.get("k") == "MethodCall" else []) + list(c.get("args", []))
            for a in args:
                ty = ""
                try:
                    ty = cr["types"][a.get("t")]
                except (KeyError, IndexError, TypeError):
                    pass
                if "scope::Scope" not in ty and not ty.endswith("Scope"):
                    continue
                n += 1
                key = "scope:%s:%s" % (name.split("::{closure")[0].split("::")[-1], c["callee"].split("::")[-1])
                where = "%s:%s" % (h["file"], c.get("l"))
                e = a
                while isinstance(e, dict) and e.get("k") in ("AddrOf", "DropTemps", "Paren") or (isinstance(e, dict) and e.get("k") == "Unary" and e.get("op") == "*"):
                    e = e.get("e") or e.get("a")
                src = e
                if isinstance(e, dict) and e.get("k") == "Path" and e.get("res") == "local":
                    # a local of this body: its binding decides
                    root = F.hir.get(name.split("::{closure")[0], h)
                    lets = [st for st, _ in find_hir(h["body"], lambda x: x.get("k") == "LetStmt" and "e" in x and x.get("p", {}).get("k") == "Bind" and x["p"].get("name") == e["name"])]
                    if len(lets) == 1:
                        src = strip(lets[0]["e"])
                    elif "{closure" in name or any(isinstance(q, dict) and q.get("k") == "Closure" and any(
                            (pp.get("p", pp).get("name") == e["name"]) for pp in q.get("params", []) if isinstance(pp, dict)) for q in ps):
                        rep.violation(rid, key, "%s hands the evaluator a scope it receives as a closure parameter (`%s`): the scope was made elsewhere and outlives this call - the contexts a "
                                      "malformed request leaves on it change the answers to later requests" % (name.split("::")[-1], e["name"]), where)
                        continue
                    else:
                        rep.undecided(rid, key, "the scope `%s` is a parameter of %s; its origin is not followed" % (e["name"], name.split("::")[-1]))
                        continue
                fresh = isinstance(src, dict) and ((src.get("k") == "Call" and re.search(r"scope::Scope::(new|default)$|Default>?::default$|::from$|::into$", str(src.get("callee") or ""))) or
                                                   (src.get("k") == "MethodCall" and src.get("method") in ("into", "default")) or
                                                   (src.get("k") == "Struct" and str(src.get("path") or "").endswith("Scope")))
                if fresh:
                    rep.ok(rid, key, "constructed for this call")
                elif isinstance(src, dict) and src.get("k") == "Path" and src.get("res") in ("static", "def") or (isinstance(src, dict) and src.get("k") == "Field"):
                    rep.violation(rid, key, "%s hands the evaluator a scope that outlives the request (%s): the contexts a malformed request leaves on it change the answers to later requests"
                                  % (name.split("::")[-1], src.get("name") or src.get("field") or "static"), where)
                else:
                    rep.undecided(rid, key, "the origin of the scope handed to %s is not a construction in this function" % c["callee"].split("::")[-1])
    rep.floor(rid, "scopes handed to the evaluator by the server", n, 1)


def finite_number_rule(F, rep):
    """R18.12: JSON has no notation for Infinity / NaN, and the arithmetic of the library can produce such numbers (overflow of + - * /, exp, decimal: the C02 findings).  The JSON
    text of a number must therefore be produced under a test that the number is finite: in every `jsonify` of the number type the conversion of the decimal to text is
    reached only on the true branch of a finiteness test."""
    from facts import find_hir
    rid = rep.rule("R18.12", "the JSON text of a number is produced under a finiteness test (Infinity / NaN are not JSON)")
    n = 0
    for name, h in sorted(F.hir.items()):
        if not (name.endswith("::jsonify") and "FeelNumber" in name and name.startswith("<dmntk_feel_number")) and name != "dmntk_feel_number::number::FeelNumber::jsonify":
            continue
        n += 1
        key = "finite:%s" % name
        where = "%s:%s" % (h["file"], h["line"])
        def of_self(x):
            return bool(find_hir(x, lambda y: y.get("k") == "Path" and y.get("res") == "local" and y.get("name") == "self"))
        texts = find_hir(h["body"], lambda x: x.get("k") in ("Call", "MethodCall") and of_self(x) and re.search(r"dec_to_string|to_string|scientific_to_plain|format|write", str(x.get("callee") or x.get("method") or "")))
        if not texts:
            rep.undecided(rid, key, "no conversion of the decimal to text found in %s" % name)
            continue
        unguarded = []
        for c, ps in texts:
            ok = False
            for i, q in enumerate(ps):
                if isinstance(q, dict) and q.get("k") == "If" and find_hir(q.get("c", {}), lambda y: y.get("k") in ("Call", "MethodCall") and re.search(r"is_finite|dec_is_finite", str(y.get("callee") or y.get("method") or ""))):
                    nxt = ps[i + 1] if i + 1 < len(ps) else c
                    if q.get("then") is nxt or find_hir(q.get("then", {}), lambda y: y is c):
                        neg = q.get("c", {}).get("k") == "Unary" and q["c"].get("op") == "!"
                        ok = not neg
            if not ok:
                unguarded.append(c)
        if unguarded:
            rep.violation(rid, key, "%s renders the decimal as text (line %s) without a test that it is finite: an overflowing result (10**6144*10, exp(100000)) is answered as "
                          "`{\"data\":Infinity}`, which is not a JSON document" % (name, unguarded[0].get("l")), where)
        else:
            rep.ok(rid, key, "text conversion only on the finite branch")
    rep.floor(rid, "jsonify implementations of the number type", n, 1)


def extractor_error_rule(F, rep):
    """R18.13: a request is rejected by the framework itself, before the endpoint runs, when an extractor of the endpoint's signature fails: Json<T> (malformed JSON), the raw
    body as String / Bytes (not UTF-8: 400, over the payload limit: 413).  The framework's own answers are plain text.  'Every response is a well-formed JSON document'
    therefore needs, for every kind of extractor the endpoints use, a place where its failure is turned into JSON: an `error_handler` on the extractor's configuration
    (JsonConfig, PathConfig, QueryConfig) or an ErrorHandlers middleware registered for the status codes that extractor answers with."""
    from facts import find_hir
    rid = rep.rule("R18.13", "every extractor of an endpoint's signature whose failure the framework answers itself (Json, String / Bytes bodies) has its failure turned into JSON in the App factory")
    kinds = {}
    for name, h in F.hir.items():
        if not re.match(r"^<dmntk_server::server::\w+ as actix_web::service::HttpServiceFactory>::register::\w+$", name):
            continue
        tys = F.crates[h["_crate"]]["types"]
        for q in h.get("params", []):
            t = tys[q.get("t")] if isinstance(q.get("t"), int) else ""
            k = "Json" if t.startswith("actix_web::types::json::Json<") else "body" if t in ("alloc::string::String", "bytes::bytes::Bytes", "actix_web::web::Bytes") else \
                "Form" if "types::form::Form<" in t else "Query" if "types::query::Query<" in t else None
            if k:
                kinds.setdefault(k, []).append(name.split("::")[-1])
    fac = F.hir.get("dmntk_server::server::start_server")
    if fac is None:
        rep.missing_anchor(rid, "dmntk_server::server::start_server")
        return
    where = "%s:%s" % (fac["file"], fac["line"])
    calls = find_hir(fac["body"], lambda x: x.get("k") == "MethodCall")
    config_handlers = {str(c.get("callee") or "").split("::")[-3] if False else re.sub(r".*::(\w+Config)::.*", r"\1", str(c.get("callee") or "")) for c, _ in calls
                       if c.get("method") == "error_handler"}
    statuses = set()
    wrapped = any(c.get("method") == "wrap" for c, _ in calls)
    for c, _ in calls:
        if c.get("method") == "handler" and "errhandlers::ErrorHandlers" in str(c.get("callee") or "") and c.get("args"):
            a = c["args"][0]
            if a.get("k") == "Path":
                statuses.add(str(a.get("path") or "").split("::")[-1])
    need = {"Json": ("JsonConfig", {"BAD_REQUEST"}), "body": (None, {"BAD_REQUEST", "PAYLOAD_TOO_LARGE"}), "Form": ("FormConfig", {"BAD_REQUEST", "PAYLOAD_TOO_LARGE"}), "Query": ("QueryConfig", {"BAD_REQUEST"})}
    for k, users in sorted(kinds.items()):
        key = "extractor:%s" % k
        cfg, codes = need[k]
        if cfg is not None and cfg in config_handlers:
            rep.ok(rid, key, "%s.error_handler answers with JSON (endpoints: %s)" % (cfg, ", ".join(sorted(set(users)))))
        elif wrapped and codes <= statuses:
            rep.ok(rid, key, "ErrorHandlers middleware registered for %s (endpoints: %s)" % (", ".join(sorted(codes)), ", ".join(sorted(set(users)))))
        else:
            rep.violation(rid, key, "the endpoints %s take a %s extractor; when it fails the framework answers itself in plain text (%s) and nothing in the App factory turns that answer "
                          "into JSON: neither an error_handler on its configuration nor an ErrorHandlers middleware for %s" % (
                              ", ".join(sorted(set(users))), {"body": "raw body (String / Bytes)"}.get(k, k), "`Can not decode body`, `A payload reached size limit.`" if k == "body" else "400",
                              ", ".join(sorted(codes - statuses))), where)
    rep.floor(rid, "kinds of fallible extractors used by the endpoints", len(kinds), 2)
