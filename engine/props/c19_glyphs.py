"""C19, recognition clauses decided from the glyph tables of the recognizer (DESIGN 9.16).

The recogniser finds the parts of a drawing by *walking along lines*: `search_<direction>(layer, searched, allowed)` moves the cursor one cell at a time,
succeeds on a glyph of `searched` and fails on a glyph outside `allowed`; three functions then rewrite glyphs into other glyphs (double lines to single
lines, the top edge once the information item name is cut off, the completion of the cell grid).  Which glyph continues which line, and which glyph is the
single-line form of which, is not a property of this code base but of the Unicode box-drawing block: every glyph has four arms (up, down, left, right), each
absent, light or double.  The rules below compare the literal glyph sets of the source with sets *generated from arm predicates*:

R19.6  (a) consistency: every allowed glyph of a walk continues the line in the direction of the walk (arms of one and the same weight towards and against the
       direction), every searched glyph is reached by that line (arm of that weight against the direction).  A look-alike glyph of the other weight
       (`╫` for `╪`) is positive evidence.  (b) completeness for the sixteen walks of the pinned tree, keyed by (function, direction, ordinal): the set in the
       source must contain every glyph the arm predicate of tables/glyph_walks.json generates (the drawing language: which junctions can occur on that stretch
       of the drawing).  A lost glyph makes valid drawings unrecognisable.  A walk the table does not know (new caller, different number of walks) is UNDECIDED.
R19.7  glyph rewriting tables: thin (same arms, all light), cut-up (same arms without the upper one), add-horizontal / add-vertical (grid completion adds
       arms on the axis of the pass only, loses none); the thinning table covers every glyph the walks over the text layer accept.

The direction of a walk helper is derived from its body (which index of `content[row][column]` it steps, and the sign), the roles of its two set parameters
from the tests (`contains` that leads to the successful return / negated `contains` that leads to the error)."""
import json
import os

from facts import find_hir, strip

VERIF = os.path.dirname(os.path.dirname(os.path.dirname(os.path.abspath(__file__))))

# Unicode box drawing: arms (up, down, left, right), 0 none / 1 light / 2 double.  The Unicode Standard, chapter "Box Drawing" U+2500-U+256C.
ARMS = {
    "─": (0, 0, 1, 1), "│": (1, 1, 0, 0), "┌": (0, 1, 0, 1), "┐": (0, 1, 1, 0), "└": (1, 0, 0, 1), "┘": (1, 0, 1, 0),
    "├": (1, 1, 0, 1), "┤": (1, 1, 1, 0), "┬": (0, 1, 1, 1), "┴": (1, 0, 1, 1), "┼": (1, 1, 1, 1),
    "═": (0, 0, 2, 2), "║": (2, 2, 0, 0), "╔": (0, 2, 0, 2), "╗": (0, 2, 2, 0), "╚": (2, 0, 0, 2), "╝": (2, 0, 2, 0),
    "╠": (2, 2, 0, 2), "╣": (2, 2, 2, 0), "╦": (0, 2, 2, 2), "╩": (2, 0, 2, 2), "╬": (2, 2, 2, 2),
    "╒": (0, 1, 0, 2), "╓": (0, 2, 0, 1), "╕": (0, 1, 2, 0), "╖": (0, 2, 1, 0), "╘": (1, 0, 0, 2), "╙": (2, 0, 0, 1), "╛": (1, 0, 2, 0), "╜": (2, 0, 1, 0),
    "╞": (1, 1, 0, 2), "╟": (2, 2, 0, 1), "╡": (1, 1, 2, 0), "╢": (2, 2, 1, 0), "╤": (0, 1, 2, 2), "╥": (0, 2, 1, 1), "╧": (1, 0, 2, 2), "╨": (2, 0, 1, 1),
    "╪": (1, 1, 2, 2), "╫": (2, 2, 1, 1),
}
U, D, L, R = 0, 1, 2, 3
DIRS = {"up": (U, D), "down": (D, U), "left": (L, R), "right": (R, L)}        # direction -> (arm towards, arm against)
ARM_NAMES = "UDLR"


def generate(spec):
    """glyphs satisfying one of the alternatives; an alternative gives for each arm the list of admissible weights"""
    out = set()
    for alt in spec:
        for g, a in ARMS.items():
            if all(a[ARM_NAMES.index(k)] in v for k, v in alt.items()):
                out.add(g)
    return out


def char_of(F, e):
    e = strip(e)
    if e.get("k") == "Lit" and e.get("lit") == "char":
        return e["v"]
    if e.get("k") == "Path" and e.get("res") == "def" and "Const" in (e.get("dk") or ""):
        h = F.hir.get(e.get("path"))
        if h is not None:
            return char_of(F, h["body"])
    return None


def char_set(F, e):
    """the literal glyph set an argument denotes: &[..], a constant array, or None"""
    e = strip(e)
    if e.get("k") == "Array":
        cs = [char_of(F, x) for x in e["es"]]
        return None if any(c is None for c in cs) else cs
    if e.get("k") == "Path" and e.get("res") == "def" and "Const" in (e.get("dk") or ""):
        h = F.hir.get(e.get("path"))
        if h is not None:
            return char_set(F, h["body"])
    return None


def walk_helper(h):
    """(direction, index of the searched parameter, index of the allowed parameter) of a walk helper, or None"""
    params = [p.get("name") for p in h.get("params", [])]
    body = h["body"]
    steps = [x for x, _ in find_hir(body, lambda x: x.get("k") == "AssignOp" and x.get("op") in ("+=", "-=") and strip(x["a"]).get("k") == "Path"
                                   and strip(x["b"]).get("k") == "Lit" and strip(x["b"]).get("v") == 1)]
    if len(steps) != 1:
        return None
    var = strip(steps[0]["a"]).get("name")
    sign = 1 if steps[0]["op"] == "+=" else -1
    # content[row][column][layer]: three nested Index nodes over a field; which of the two inner indices is the stepped variable?
    axis = None
    for x, _ in find_hir(body, lambda x: x.get("k") == "Index" and strip(x["a"]).get("k") == "Index" and strip(strip(x["a"])["a"]).get("k") == "Index"):
        col = strip(strip(x["a"])["b"])
        row = strip(strip(strip(x["a"])["a"])["b"])
        if row.get("name") == var and col.get("name") != var:
            axis = "v"
        elif col.get("name") == var and row.get("name") != var:
            axis = "h"
    if axis is None:
        return None
    direction = {("v", -1): "up", ("v", 1): "down", ("h", -1): "left", ("h", 1): "right"}[(axis, sign)]
    searched = allowed = None
    for x, parents in find_hir(body, lambda x: x.get("k") == "MethodCall" and x.get("method") == "contains" and strip(x["recv"]).get("k") == "Path"):
        nm = strip(x["recv"]).get("name")
        if nm not in params:
            continue
        neg = bool(parents) and parents[-1].get("k") == "Unary" and parents[-1].get("op") == "!"
        if neg:
            allowed = params.index(nm)
        else:
            searched = params.index(nm)
    if searched is None or allowed is None:
        return None
    # parameter indices count `self`; arguments of a method call do not
    return direction, searched - 1, allowed - 1


def run(F, rep):
    walks_rule(F, rep)
    tables_rule(F, rep)


def simple(n):
    return n.split("::")[-1]


def walks_rule(F, rep):
    rid = rep.rule("R19.6", "glyph sets of the line walks: every allowed glyph continues the line of the walk, every searched glyph is reached by it (arms of the "
                            "Unicode box-drawing glyphs), and the sets contain every junction the drawing language allows on that stretch")
    helpers = {}
    for n, h in F.hir.items():
        if n.startswith("dmntk_recognizer::") and h.get("kind") in ("method", "fn") and len(h.get("params", [])) >= 3:
            w = walk_helper(h)
            if w:
                helpers[n] = w
    if len(helpers) < 4 or {w[0] for w in helpers.values()} != set(DIRS):
        # the walks have been reorganised into a form this rule does not follow
        if not any(simple(n).startswith("search") for n in F.hir if n.startswith("dmntk_recognizer::canvas::")):
            rep.missing_anchor(rid, "line-walk helpers of the canvas (search_up / _down / _left / _right)")
        else:
            rep.undecided(rid, "helpers", "the four directional walk helpers were not recognised (found %s)" % sorted(simple(n) for n in helpers))
        return
    oracle = json.load(open(os.path.join(VERIF, "tables", "glyph_walks.json")))["walks"]
    calls = 0
    text_layer_glyphs = set()
    for n, h in sorted(F.hir.items()):
        if not n.startswith("dmntk_recognizer::") or h.get("kind") not in ("method", "fn") or n in helpers:
            continue
        found = [x for x, _ in find_hir(h["body"], lambda x: x.get("k") in ("MethodCall", "Call") and x.get("callee") in helpers)]
        if not found:
            continue
        per_dir = {}
        seq = []
        for c in found:
            direction, si, ai = helpers[c["callee"]]
            args = c["args"] if c["k"] == "MethodCall" else c["args"][1:]
            if max(si, ai) >= len(args):
                continue
            per_dir[direction] = per_dir.get(direction, 0) + 1
            seq.append((direction, per_dir[direction], char_set(F, args[si]), char_set(F, args[ai]), c, args))
        spec = oracle.get(simple(n))
        spec_ok = spec is not None and sorted((w["dir"], w["n"]) for w in spec) == sorted((d, k) for d, k, _, _, _, _ in seq)
        for direction, k, searched, allowed, c, args in seq:
            calls += 1
            key = "%s:%s#%d" % (simple(n), direction, k)
            where = "%s:%s" % (h["file"], c.get("l"))
            if searched is None or allowed is None:
                rep.undecided(rid, key, "the glyph sets of this walk are not literal arrays / constants")
                continue
            towards, against = DIRS[direction]
            bad = []
            unknown = [g for g in searched + allowed if g not in ARMS]
            if unknown:
                bad.append("%s is not a box-drawing glyph" % ", ".join(repr(g) for g in unknown))
            al = [g for g in allowed if g in ARMS]
            weights = {ARMS[g][towards] for g in al if ARMS[g][towards] == ARMS[g][against] and ARMS[g][towards]}
            for g in al:
                a = ARMS[g]
                if not a[towards] or a[towards] != a[against]:
                    bad.append("allowed glyph %r does not continue a line going %s (arms %s)" % (g, direction, arms_text(a)))
            if len(weights) > 1:
                bad.append("the allowed glyphs mix light and double lines in the direction of the walk")
            w = next(iter(weights)) if len(weights) == 1 else None
            for g in searched:
                if g in ARMS and w is not None and ARMS[g][against] != w:
                    bad.append("searched glyph %r is not reached by the %s line the walk follows (arms %s)" % (g, "double" if w == 2 else "light", arms_text(ARMS[g])))
            if bad:
                rep.violation(rid, key, "walk %s in %s: %s" % (direction, simple(n), "; ".join(bad)), where)
                continue
            if not spec_ok:
                rep.undecided(rid, key, "consistent; completeness not decided (no entry for this walk in tables/glyph_walks.json: the walks of %s differ from the pinned tree)" % simple(n))
                continue
            ent = next(w_ for w_ in spec if w_["dir"] == direction and w_["n"] == k)
            need_s, need_a = generate(ent["searched"]), generate(ent["allowed"])
            miss_s, miss_a = sorted(need_s - set(searched)), sorted(need_a - set(allowed))
            if miss_s or miss_a:
                rep.violation(rid, key, "walk %s in %s (%s): %s - a drawing with that junction on this stretch is rejected" % (
                    direction, simple(n), ent["what"],
                    "; ".join(x for x in ("the searched set lacks %s" % " ".join(miss_s) if miss_s else "", "the allowed set lacks %s" % " ".join(miss_a) if miss_a else "") if x)), where)
            else:
                rep.ok(rid, key, "searched %s allowed %s: consistent and complete (%s)" % ("".join(searched), "".join(allowed), ent["what"]))
            if layer_is_text(F, h, args):
                text_layer_glyphs.update(searched)
                text_layer_glyphs.update(allowed)
    rep.floor(rid, "line walks", calls, 18)
    rep.analysed["glyph_walks"] = calls
    F._c19_text_glyphs = text_layer_glyphs


def layer_is_text(F, h, args):
    """first argument of a walk: the layer; the text layer is the constant 0 (directly, or through a local bound to it in the same function)"""
    if not args:
        return False

    def const0(e):
        e = strip(e)
        if e.get("k") == "Path" and e.get("res") == "def":
            hh = F.hir.get(e.get("path"))
            return hh is not None and strip(hh["body"]).get("k") == "Lit" and strip(hh["body"]).get("v") == 0
        return e.get("k") == "Lit" and e.get("v") == 0
    e = strip(args[0])
    if e.get("k") == "Path" and e.get("res") == "local":
        lets = [x for x, _ in find_hir(h["body"], lambda x: x.get("k") == "LetStmt" and x.get("p", {}).get("k") == "Bind" and x["p"].get("name") == e.get("name") and "e" in x)]
        return len(lets) == 1 and const0(lets[0]["e"])
    return const0(e)


def arms_text(a):
    return ",".join("%s%d" % (ARM_NAMES[i], a[i]) for i in range(4) if a[i]) or "none"


def char_tables(F, h):
    """matches over a character whose arms assign character literals: [(match node, [(source glyphs or None for the default arm, guard?, result glyph or 'same')])]"""
    out = []
    for m, _ in find_hir(h["body"], lambda x: x.get("k") == "Match" and x.get("src") == "Normal"):
        rows = []
        ok = True
        for arm in m["arms"]:
            p = arm["p"]
            alts = p["ps"] if p.get("k") == "Or" else [p]
            srcs = []
            for a in alts:
                if a.get("k") == "Wild" or (a.get("k") == "Bind" and not a.get("sub")):
                    srcs = None
                    break
                c = a.get("v") if a.get("k") == "Lit" and a.get("lit") == "char" else char_of(F, a) if a.get("k") == "Path" else None
                if c is None:
                    ok = False
                    break
                srcs.append(c)
            if not ok:
                break
            b = strip(arm["b"])
            res = None
            if b.get("k") == "Assign":
                rhs = strip(b["b"])
                res = char_of(F, rhs)
                if res is None and rhs.get("k") == "Index":
                    res = "same"
            elif b.get("k") == "Block" and not b["b"].get("stmts") and b["b"].get("e") is None:
                res = "same"          # `_ => {}`: the glyph stays
            else:
                res = char_of(F, b)
            if res is None:
                ok = False
                break
            rows.append((srcs, arm.get("g") is not None, res))
        if ok and sum(1 for s, _, r in rows if s and r != "same") >= 3:
            out.append((m, rows))
    return out


def presence(a):
    return tuple(1 if x else 0 for x in a)


CLASSES = {
    # class -> predicate(source arms, result arms) for line glyphs
    "thin": lambda s, r: presence(s) == presence(r) and all(x in (0, 1) for x in r),
    "cut-up": lambda s, r: r[U] == 0 and r[1:] == s[1:],
    "add-horizontal": lambda s, r: r[U] == s[U] and r[D] == s[D] and r[L] >= s[L] and r[R] >= s[R] and (r[L], r[R]) != (s[L], s[R]) and max(r) <= 1,
    "add-vertical": lambda s, r: r[L] == s[L] and r[R] == s[R] and r[U] >= s[U] and r[D] >= s[D] and (r[U], r[D]) != (s[U], s[D]) and max(r) <= 1,
}


def tables_rule(F, rep):
    rid = rep.rule("R19.7", "glyph rewriting tables of the canvas: double lines become the light glyph with the same arms, cutting off the name box removes the upper arm "
                            "only, grid completion adds arms on the axis of its pass and loses none; the thinning table covers every glyph the text-layer walks accept")
    spec = json.load(open(os.path.join(VERIF, "tables", "glyph_walks.json")))["tables"]
    n_tables = 0
    for fn, classes in spec.items():
        cands = [n for n in F.hir if n.startswith("dmntk_recognizer::") and simple(n) == fn]
        if not cands:
            rep.undecided(rid, fn, "no function of this name in the recognizer any more")
            continue
        tabs = char_tables(F, F.hir[cands[0]])
        if len(tabs) != len(classes):
            rep.undecided(rid, fn, "expected %d glyph table(s), found %d: rewritten into a form the rule does not follow" % (len(classes), len(tabs)))
            continue
        for k, ((m, rows), cls) in enumerate(zip(tabs, classes)):
            n_tables += 1
            key = "%s#%d" % (fn, k + 1)
            pred = CLASSES[cls]
            bad = []
            covered = set()
            for srcs, guarded, res in rows:
                if srcs is None:
                    continue
                for g in srcs:
                    if not guarded:
                        covered.add(g)
                    if g not in ARMS:
                        # blank / outer marker: thinning keeps it, grid completion draws the straight line of the pass
                        if res != "same" and res in ARMS and cls.startswith("add-"):
                            want = (0, 0, 1, 1) if cls == "add-horizontal" else (1, 1, 0, 0)
                            if ARMS[res] != want:
                                bad.append("blank -> %r is not the straight line of the pass" % res)
                        continue
                    if res == "same":
                        if cls == "thin" and max(ARMS[g]) > 1:
                            bad.append("%r (double) is copied unchanged by the thinning table" % g)
                        continue
                    if res not in ARMS:
                        bad.append("%r -> %r: the result is not a line glyph" % (g, res))
                    elif not pred(ARMS[g], ARMS[res]):
                        bad.append("%r (%s) -> %r (%s) is not %s" % (g, arms_text(ARMS[g]), res, arms_text(ARMS[res]),
                                                                       {"thin": "the light glyph with the same arms", "cut-up": "the same glyph without its upper arm",
                                                                        "add-horizontal": "the same glyph with horizontal arms added",
                                                                        "add-vertical": "the same glyph with vertical arms added"}[cls]))
            if cls == "thin":
                lack = sorted(g for g in getattr(F, "_c19_text_glyphs", set()) if g in ARMS and g not in covered)
                if lack:
                    bad.append("glyphs the text-layer walks accept fall into the default arm (become blank): %s" % " ".join(lack))
            where = "%s:%s" % (F.hir[cands[0]]["file"], m.get("l"))
            if bad:
                rep.violation(rid, key, "%s table in %s: %s" % (cls, fn, "; ".join(bad)), where)
            else:
                rep.ok(rid, key, "%d arms, class %s" % (len(rows), cls))
    rep.floor(rid, "glyph tables", n_tables, 4) if n_tables else None
