"""C01 (clauses): FEEL core expressions evaluate to the value the semantics assigns.

The value of an expression is not a property of the code's shape; decided are structural necessary conditions the statement names:
  R01.1  innermost binding wins: every Scope lookup that answers with the first hit scans the context stack from the top;
  R01.2  a multi-variable for / some / every ranges over the cartesian product, *empty if any domain is empty*: the handler of FeelIterator::run is gated
         by a condition that no sequence of iteration states containing a state without a value can satisfy (fold of the per-state loop body into its
         transfer functions on the boolean locals, closure over all sequences);
  R01.3  the ascending and the descending branch of the iteration odometer are mirror images (same fields, mirrored comparisons);
  R01.4  kind tables of + - * / ** over {number, string, boolean, null, list, context}: number op number is a number (null allowed on a guarded path),
         string + string is a string, every other pair is null - in both operand orders;
  R01.5  user-function invocation binds every formal parameter or answers null: the binding loops run over all parameters (not truncated by the argument
         list) and every path through them binds the parameter or leaves the function.
Premises re-evaluated from other properties: scope neutrality of every evaluator closure and parser action (R13.1 / R13.3: a leaked context changes what names
resolve to), context / list equality compares sizes (R09.7), the key set handed to the lexer covers the scope (R10.3).
Not decided: the value of any particular expression."""
import re

import hirflow
from facts import find_hir, strip
from hireval import Evaluator, State, TooManyPaths, closure_of, mk_bool, sym, value
from props import c09, c10, c13

LEVEL = "other"
CRATES_QUICK = ["dmntk_feel", "dmntk_feel_parser", "dmntk_feel_evaluator", "dmntk_common", "dmntk_feel_number"]
CRATES_THOROUGH = None
B = "dmntk_feel_evaluator::builders::"
RUN = "dmntk_feel_evaluator::iterations::FeelIterator::run"


def run(F, rep, tier):
    rep.explanation = ("What an expression evaluates to is value-level and is not decided. Decided are structural necessary conditions of the clauses the statement spells out: name "
                       "lookups scan the scope from the innermost context; the cartesian iteration calls its handler only when every variable has a value (R01.2 folds the loop "
                       "body of FeelIterator::run into transfer functions on its boolean locals and closes over all sequences of states); the ascending / descending odometer "
                       "branches mirror each other; the arithmetic operators answer number / string / null by operand kind as the specification's tables say, for the kinds "
                       "the property's inputs range over; user-function invocation binds every parameter or answers null. Scope neutrality (C13), size tests of collection "
                       "equality (C09) and key coverage (C10) are re-evaluated as premises because breaking them changes the value of core expressions.")
    rep.assumptions += ["FEEL semantics of the individual operators on numbers (C02) and the comparison tables (C09) are decided by their own properties"]
    lookup_order_rule(F, rep)
    cartesian_rule(F, rep)
    mirror_rule(F, rep)
    arithmetic_rule(F, rep)
    binding_rule(F, rep)
    conditional_rule(F, rep)
    context_visibility_rule(F, rep)
    declaration_order_rule(F, rep)
    step_rule(F, rep)
    from props import c01_fold
    c01_fold.run(F, rep, tier)
    # premises
    c13.scope_neutral_premise(F, rep, "dmntk_feel_evaluator", 25)
    import callgraph
    import g3_scope
    r3 = rep.rule("R13.3", "parser actions composed along the grammar: every start alternative leaves the parsing scope at its entry depth; names are added at depth >= 1 only")
    c13.grammar_rule(F, rep, r3, g3_scope.ScopeAnalysis(F, callgraph.CallGraph(F)))
    c09.collection_equality_rule(F, rep)
    c09.context_key_rule(F, rep)
    r5 = rep.rule("R09.5", "between / in-range / unary tests: the same ordered kinds, closed ends use the non-strict and open ends the strict primitive")
    c09.r5_intervals(F, rep, r5, c09.variants(F))
    c10.key_coverage_rule(F, rep)
    # premise (C16): arguments and results of functions are coerced on the type Value::type_of reports - the type of a list must look at every item, [] is list<Null>
    from props import c16
    c16.list_type_fold_rule(F, rep)


# ====================================================================================================== R01.1
FIRST_HIT = {"find_map", "find", "position", "any"}
REVERSED = {"rev", "rfind", "rposition", "next_back", "rfold"}


def lookup_order_rule(F, rep):
    rid = rep.rule("R01.1", "every Scope lookup that answers with the first hit scans the context stack from the top (innermost binding wins)")
    n_scan = 0
    for name, h in sorted(F.hir.items()):
        if not name.startswith("dmntk_feel::scope::Scope::") or "{closure" in name:
            continue
        where = "%s:%s" % (h["file"], h["line"])
        key = "lookup:%s" % name.split("::")[-1]
        al = c10.aliases_of(h)
        # for loops over the stack with a return inside
        for lp, _ in find_hir(h["body"], lambda x: x.get("k") == "Match" and x.get("src") == "ForLoopDesugar"):
            it = strip(lp["e"])
            it = strip(it["args"][0]) if it.get("k") == "Call" and it.get("args") else it
            names, root = c10.chain_of(it, al)
            if not (root.get("k") == "Field" and root.get("name") == "contexts"):
                continue
            rets = [x for x, _ in find_hir(lp["arms"], lambda x: x.get("k") == "Ret")]
            if not rets:
                continue
            n_scan += 1
            vt = value_test_in(F, lp["arms"])
            if vt:
                rep.violation(rid, key + ":value", "%s skips a context whose entry exists but %s: a binding to such a value does not shadow an outer binding of the same name" % (name, vt), where)
            elif set(names) & REVERSED:
                rep.ok(rid, key, "first-hit loop over the stack, reversed")
            else:
                rep.violation(rid, key, "%s returns the first hit of a scan over the context stack in stack order: an outer binding shadows an inner one" % name, where)
        # iterator chains
        for mc, _ in find_hir(h["body"], lambda x: x.get("k") == "MethodCall" and x.get("method") in FIRST_HIT | {"rfind", "rposition"}):
            names, root = c10.chain_of(mc, al)
            if not (root.get("k") == "Field" and root.get("name") == "contexts"):
                continue
            n_scan += 1
            vt = value_test_in(F, mc.get("args", []))
            if vt:
                rep.violation(rid, key + ":value", "%s skips a context whose entry exists but %s: a binding to such a value does not shadow an outer binding of the same name" % (name, vt), where)
            elif set(names) & REVERSED:
                rep.ok(rid, key, "first-hit chain over the stack, reversed")
            elif mc.get("method") == "any":
                rep.ok(rid, key, "existence test (order irrelevant)")
            else:
                rep.violation(rid, key, "%s answers with `%s` over the context stack in stack order: an outer binding shadows an inner one" % (name, mc.get("method")), where)
    rep.floor(rid, "first-hit scans over the scope stack", n_scan, 1)    # two on the pinned tree; one generic helper may serve both lookups
    # the context handed out / written by the single-context accessors is the top of the stack (the innermost one)
    BOTTOM = {"first", "first_mut", "front", "front_mut"}
    TOP = {"last", "last_mut", "back", "back_mut", "pop"}
    for name, h in sorted(F.hir.items()):
        if not name.startswith("dmntk_feel::scope::Scope::") or "{closure" in name:
            continue
        al = c10.aliases_of(h)
        for mc, _ in find_hir(h["body"], lambda x: x.get("k") == "MethodCall" and x.get("method") in BOTTOM | TOP):
            names, root = c10.chain_of(mc, al)
            if not (root.get("k") == "Field" and root.get("name") == "contexts"):
                continue
            key = "top:%s" % name.split("::")[-1]
            if mc["method"] in BOTTOM and "rev" not in names:
                rep.violation(rid, key, "%s works on the *bottom* context of the scope stack (`%s`): the innermost context is the last one" % (name, mc["method"]), "%s:%s" % (h["file"], mc.get("l", h["line"])))
            else:
                rep.ok(rid, key, "top of the stack (`%s`)" % mc["method"])


def value_test_in(F, tree):
    """does the scan look at the *value* it found (a pattern on a Value variant, is_null ..) before answering ?  the innermost context that has the entry answers whatever the value"""
    regions = [tree] + [F.hir[c.get("name")]["body"] for c, _ in find_hir(tree, lambda x: x.get("k") == "Closure") if c.get("name") in F.hir]
    for r in regions:
        for x, _ in find_hir(r, lambda x: x.get("k") in ("Match", "If", "Let")):
            pats = [a["p"] for a in x.get("arms", [])] if x.get("k") == "Match" else [strip(x["c"]).get("p")] if x.get("k") == "If" and strip(x.get("c", {})).get("k") == "Let" else [x.get("p")] if x.get("k") == "Let" else []
            for p in pats:
                vs = [q for q in c10.pat_paths(p) if q.startswith("dmntk_feel::values::Value::")] if p else []
                if vs:
                    return "is a %s" % vs[0].split("::")[-1]
        for x, _ in find_hir(r, lambda x: x.get("k") == "MethodCall" and x.get("method") in ("is_null", "is_some_and", "filter") and x.get("method") != "filter"):
            if x.get("method") == "is_null":
                return "is null"
    return None


# ====================================================================================================== R01.2
def cartesian_rule(F, rep):
    rid = rep.rule("R01.2", "the iteration handler runs only when every iteration variable has a value: a cartesian product with an empty domain is empty")
    h = F.hir.get(RUN)
    if h is None:
        rep.missing_anchor(rid, RUN)
        return
    where = "%s:%s" % (h["file"], h["line"])
    key = "gate:FeelIterator::run"
    handler = None
    for p in h.get("params", []):
        nm = p.get("name") or (p.get("p") or {}).get("name")
        if nm and nm != "self":
            handler = nm
    # the call of the handler and the `if` that guards it
    calls = [(x, par) for x, par in find_hir(h["body"], lambda x: x.get("k") == "Call" and strip(x.get("f", {})).get("k") == "Path" and strip(x["f"]).get("res") == "local" and strip(x["f"]).get("name") == handler)]
    if not calls:
        rep.undecided(rid, key, "no direct call of the handler parameter found")
        return
    call, parents = calls[0]
    guards = [p for p in parents if p.get("k") == "If" and contains_node(p.get("then"), call)]
    # the binding loop: a for loop over the iteration states that precedes the call in the same block and calls set_entry
    blocks = [p for p in parents if p.get("k") in ("Block", "Loop")]
    loop, blk = None, None
    for bq in reversed(blocks):
        stmts = bq.get("b", {}).get("stmts", [])
        for s in stmts:
            e = strip(s) if isinstance(s, dict) and s.get("k") != "LetStmt" else {}
            if isinstance(e, dict) and e.get("k") == "Match" and e.get("src") == "ForLoopDesugar" and find_hir(e, lambda x: x.get("k") == "MethodCall" and x.get("method") == "set_entry"):
                loop, blk = e, bq
                break
        if loop is not None:
            break
    if loop is None:
        rep.undecided(rid, key, "no loop binding the iteration variables (set_entry) precedes the handler call")
        return
    if not guards:
        rep.violation(rid, key, "FeelIterator::run calls the handler unconditionally after binding the variables: an iteration state without a value (empty list) still produces an iteration", where)
        return
    guard = guards[-1]
    # boolean locals initialised with a literal before the loop
    init = {}
    for s in blk.get("b", {}).get("stmts", []):
        if s.get("k") == "LetStmt" and s.get("p", {}).get("k") == "Bind" and strip(s.get("e", {})).get("k") == "Lit" and strip(s["e"]).get("lit") == "bool":
            init[s["p"]["name"]] = mk_bool(strip(s["e"])["v"])
        if s.get("k") != "LetStmt" and strip(s) is loop:
            break
    if not init:
        rep.undecided(rid, key, "the handler call is guarded, but by no boolean local initialised before the binding loop")
        return
    # the loop body: Some(pat) arm of the desugared `match iter.next()`
    inner = [x for x, _ in find_hir(loop["arms"], lambda x: x.get("k") == "Match" and x.get("src") == "ForLoopDesugar")]
    body, pat = None, None
    for arm in (inner[0]["arms"] if inner else []):
        if str(arm["p"].get("path", "")).endswith("Some"):
            body = arm["b"]
            pat = (arm["p"].get("ps") or [None])[0]
    if body is None:
        rep.undecided(rid, key, "loop body not recognised")
        return

    def hook(callee, args, s):
        if (callee or "").endswith("::set_entry"):
            return [(("bound",), ("unit",))]
        return None
    flags = sorted(init)

    def step(valuation):
        """all (kind, new valuation) of one pass through the loop body from the given valuation of the boolean locals; None when a flag does not fold"""
        ev = Evaluator(F, call_hook=hook, ints=True, max_paths=300)
        st = State({f: mk_bool(v) for f, v in zip(flags, valuation)})
        if pat is not None:
            ev.match(pat, ("sym", "state"), st.env)
        res = set()
        try:
            for s2, _ in ev.ev(body, st):
                vals = []
                for f in flags:
                    v = s2.env.get(f)
                    if not (isinstance(v, tuple) and v[0] == "bool"):
                        return None
                    vals.append(v[1])
                res.add((("bound",) in s2.conds, tuple(vals)))
        except TooManyPaths:
            return None
        return res

    def gate(valuation):
        ev = Evaluator(F, ints=True)
        st = State({f: mk_bool(v) for f, v in zip(flags, valuation)})
        outs = list(ev.ev(guard["c"], st))
        if len(outs) == 1 and outs[0][1][0] == "bool":
            return outs[0][1][1]
        return None
    start = tuple(init[f][1] for f in flags)
    seen = {(start, False)}
    work = [(start, False)]
    bad = None
    und = None
    trace = {(start, False): []}
    while work:
        val, missing = work.pop(0)       # breadth first: the shortest offending sequence is reported (it is part of the finding's key)
        if missing:
            g = gate(val)
            if g is None:
                und = "the guard of the handler call does not fold to a boolean"
            elif g and bad is None and trace[(val, missing)]:
                bad = trace[(val, missing)]
        nx = step(val)
        if nx is None:
            und = "the loop body assigns a boolean local something that does not fold"
            break
        for bound, v2 in sorted(nx):
            k2 = (v2, missing or not bound)
            if k2 not in seen:
                seen.add(k2)
                trace[k2] = trace[(val, missing)] + ["has a value" if bound else "has no value"]
                work.append(k2)
    rep.analysed["R01.2 boolean locals"] = flags
    rep.analysed["R01.2 abstract states explored"] = len(seen)
    if bad is not None:
        key = "gate:FeelIterator::run:" + ",".join("value" if b == "has a value" else "none" for b in bad)
        rep.violation(rid, key, "FeelIterator::run calls the handler although an iteration state had no value (states: %s): a `for` / `some` / `every` over several domains one of which is "
                      "empty still iterates over the others instead of over the empty cartesian product" % ", ".join(bad), where)
    elif und:
        rep.undecided(rid, key, und)
    else:
        rep.ok(rid, key, "%d abstract states: no sequence with a state without a value reaches the handler" % len(seen))


def contains_node(tree, node):
    found = []

    def rec(n):
        if n is node:
            found.append(1)
            return
        if isinstance(n, dict):
            for v in n.values():
                if isinstance(v, (dict, list)):
                    rec(v)
        elif isinstance(n, list):
            for x in n:
                rec(x)
    rec(tree)
    return bool(found)


# ====================================================================================================== R01.3
MIRROR = {"<": ">", ">": "<", "<=": ">=", ">=": "<="}


def render(n, ops=True, fields=True):
    """canonical text of a HIR expression (locals by name, fields by name, calls by method name)"""
    if isinstance(n, list):
        return "[" + ",".join(render(x, ops, fields) for x in n) + "]"
    if not isinstance(n, dict):
        return str(n)
    n = strip(n)
    k = n.get("k")
    if k == "Binary":
        op = n["op"]
        return "(%s %s %s)" % (render(n["a"], ops, fields), op if ops or op not in MIRROR else "CMP", render(n["b"], ops, fields))
    if k == "Unary":
        return "(%s%s)" % (n["op"], render(n["a"], ops, fields))
    if k == "Field":
        return "%s.%s" % (render(n["e"], ops, fields), n["name"] if fields else "F")
    if k == "Path":
        return n.get("name") or (n.get("path") or "?").split("::")[-1]
    if k == "Lit":
        return repr(n.get("v"))
    if k == "MethodCall":
        return "%s.%s(%s)" % (render(n["recv"], ops, fields), n.get("method"), ",".join(render(a, ops, fields) for a in n.get("args", [])))
    if k == "Call":
        return "%s(%s)" % ((n.get("callee") or render(n.get("f", {}), ops, fields)).split("::")[-1], ",".join(render(a, ops, fields) for a in n.get("args", [])))
    if k == "Closure":
        ch = n.get("body")
        return "|..|" + (render(ch, ops, fields) if ch else n.get("name", ""))
    if k == "Block":
        b = n.get("b", {})
        parts = [render(s.get("e", s) if s.get("k") != "LetStmt" else {"k": "LetX", "p": s.get("p"), "e": s.get("e")}, ops, fields) for s in b.get("stmts", [])]
        if b.get("e") is not None:
            parts.append(render(b["e"], ops, fields))
        return "{" + ";".join(parts) + "}"
    if k == "LetX":
        return "let %s=%s" % (pat(n.get("p")), render(n.get("e"), ops, fields) if n.get("e") else "")
    if k == "If":
        return "if %s %s else %s" % (render(n["c"], ops, fields), render(n["then"], ops, fields), render(n["else"], ops, fields) if "else" in n else "{}")
    if k == "Let":
        return "let %s=%s" % (pat(n.get("p")), render(n["e"], ops, fields))
    if k in ("Assign", "AssignOp"):
        return "%s %s %s" % (render(n["a"], ops, fields), n.get("op", "="), render(n["b"], ops, fields))
    if k == "Break":
        return "break"
    if k == "Ret":
        return "return %s" % (render(n["e"], ops, fields) if "e" in n else "")
    if k == "Match":
        return "match %s {%s}" % (render(n["e"], ops, fields), ";".join("%s=>%s" % (pat(a["p"]), render(a["b"], ops, fields)) for a in n.get("arms", [])))
    if k == "AddrOf":
        return render(n["e"], ops, fields)
    return k or "?"


def pat(p):
    if not isinstance(p, dict):
        return "_"
    k = p.get("k")
    if k == "Bind":
        return p["name"]
    if k in ("TupleStruct", "Struct", "Path"):
        return "%s(%s)" % ((p.get("path") or "").split("::")[-1], ",".join(pat(q) for q in (p.get("ps") or [])))
    if k in ("Ref", "Guard"):
        return pat(p.get("p"))
    if k == "Tuple":
        return "(%s)" % ",".join(pat(q) for q in p.get("ps", []))
    if k == "Lit":
        return repr(p.get("v"))
    return "_"


def mirror_text(t):
    return re.sub(r" (<=|>=|<|>) ", lambda m: " %s " % MIRROR[m.group(1)], t)


def step_sign(c):
    """(+1 | -1, rest of the condition or None) when the condition is `x.step > 0` / `x.step < 0` [&& rest]"""
    c = strip(c)
    rest = None
    if c.get("k") == "Binary" and c.get("op") == "&&":
        rest = c["b"]
        c = strip(c["a"])
    if c.get("k") == "Binary" and c.get("op") in ("<", ">") and strip(c["b"]).get("k") == "Lit" and strip(c["b"]).get("v") == 0:
        a = strip(c["a"])
        if a.get("k") == "Field" and a.get("name") == "step":
            return (1 if c["op"] == ">" else -1), rest
    return None, None


def mirror_rule(F, rep):
    rid = rep.rule("R01.3", "the ascending and the descending branch of the iteration odometer are mirror images: same fields, mirrored comparisons")
    h = F.hir.get(RUN)
    if h is None:
        rep.missing_anchor(rid, RUN)
        return
    where = "%s:%s" % (h["file"], h["line"])
    ups, downs = [], []
    for x, _ in find_hir(h["body"], lambda x: x.get("k") == "If"):
        sg, rest = step_sign(x["c"])
        if sg is None:
            continue
        (ups if sg > 0 else downs).append((rest, x))
    if not ups and not downs:
        rep.undecided(rid, "odometer", "no branches on the sign of the step found in FeelIterator::run")
        return
    if len(ups) != len(downs):
        rep.undecided(rid, "odometer", "%d branches for step > 0 but %d for step < 0" % (len(ups), len(downs)))
        return
    n = 0
    for (ru, u), (rd, d) in zip(ups, downs):
        n += 1
        key = "odometer:%d" % n
        tu = render({"k": "If", "c": ru or {"k": "Lit", "v": True}, "then": u["then"], **({"else": u["else"]} if "else" in u else {})})
        td = render({"k": "If", "c": rd or {"k": "Lit", "v": True}, "then": d["then"], **({"else": d["else"]} if "else" in d else {})})
        su = render({"k": "If", "c": ru or {"k": "Lit", "v": True}, "then": u["then"], **({"else": u["else"]} if "else" in u else {})}, ops=False, fields=False)
        sd = render({"k": "If", "c": rd or {"k": "Lit", "v": True}, "then": d["then"], **({"else": d["else"]} if "else" in d else {})}, ops=False, fields=False)
        if mirror_text(tu) == td:
            rep.ok(rid, key, "descending branch = ascending branch with mirrored comparisons")
        elif su == sd:
            # same shape: the difference is a field or a comparison - positive evidence
            diffs = [(a, b) for a, b in zip(re.findall(r"[\w.]+| (?:<=|>=|<|>) ", mirror_text(tu)), re.findall(r"[\w.]+| (?:<=|>=|<|>) ", td)) if a != b]
            rep.violation(rid, key, "in FeelIterator::run the branch for a descending step differs from the mirror image of the ascending one: %s" %
                          "; ".join("`%s` where the mirror has `%s`" % (b.strip(), a.strip()) for a, b in diffs[:3]), "%s:%s" % (h["file"], d.get("l", h["line"])))
        else:
            rep.undecided(rid, key, "the two branches have different shapes")
    rep.floor(rid, "ascending / descending branch pairs", n, 2)


# ====================================================================================================== R01.4
KINDS = ["Number", "String", "Boolean", "Null", "List", "Context"]


def builder_roles(h):
    """which captured sub-evaluator was built from which parameter of the builder: `let lhe = build_evaluator(lhs)?` -> {lhe: 0}"""
    pnames = [p.get("name") for p in h.get("params", [])]
    role = {}
    for stx, _ in find_hir(h["body"], lambda x: x.get("k") == "LetStmt" and x.get("p", {}).get("k") == "Bind" and "e" in x):
        for call, _ in find_hir(stx["e"], lambda x: x.get("k") == "Call" and (x.get("callee") or "").endswith("::build_evaluator") and x.get("args")):
            a = strip(call["args"][0])
            if a.get("k") == "Path" and a.get("name") in pnames:
                role[stx["p"]["name"]] = pnames.index(a["name"])
    return role


def eval_binary(F, fn, L, R):
    """fold the evaluator closure built by a binary builder with the two captured sub-evaluators answering L and R (bound by the builder parameter they were
    built from; in order of first call when the builder has another shape)"""
    h = F.hir_fn(fn)
    c = closure_of(h)
    if c is None:
        return None
    role = builder_roles(h)
    if sorted(role.values()) != [0, 1]:
        role = None
    order = []

    def hook(callee, args, st):
        if callee and callee.startswith("local:") and len(args) == 1 and args[0] == sym("scope"):
            nm = callee[6:]
            if role is not None:
                return (L if role[nm] == 0 else R) if nm in role else None
            if nm not in order:
                order.append(nm)
            i = order.index(nm)
            return L if i == 0 else R if i == 1 else None
        return None
    ev = Evaluator(F, call_hook=hook, max_paths=600)
    try:
        return ev.run(c["params"], c["body"], [sym("scope")])
    except (TooManyPaths, ValueError, KeyError):
        return None


def kind_of(v):
    if isinstance(v, tuple) and v[0] == "v":
        return v[1]
    if isinstance(v, tuple) and v[0] == "ite":
        a, b = kind_of(v[2]), kind_of(v[3])
        return a if a == b else "%s|%s" % (a, b)
    return "?"


def operand_order(vals):
    """"in-order" / "swapped" / None: in the smallest operation node that mentions both payloads, does the left payload come first ?"""
    best = None

    def rec(v):
        nonlocal best
        if isinstance(v, (tuple, list)):
            r = repr(v)
            if "'L0'" in r and "'R0'" in r:
                if isinstance(v, tuple) and v and v[0] in ("bin", "call") and (best is None or len(r) < len(best)):
                    best = r
                for x in v:
                    rec(x)
    for v in vals:
        rec(v)
    if best is None:
        return None
    return "in-order" if best.index("'L0'") < best.index("'R0'") else "swapped"


def arithmetic_rule(F, rep):
    rid = rep.rule("R01.4", "kind tables of + - * / ** over number, string, boolean, null, list, context: number op number -> number (null on a guarded path), string + string -> string, every other pair -> null")
    adt = F.adts.get(c09.VALUE_ADT)
    nf = {v["name"]: len(v["fields"]) for v in adt["variants"]} if adt else {}
    ncell = 0
    for op, simple in (("+", "build_add"), ("-", "build_sub"), ("*", "build_mul"), ("/", "build_div"), ("**", "build_exp")):
        fn = B + simple
        if fn not in F.hir:
            rep.missing_anchor(rid, fn)
            continue
        h = F.hir[fn]
        where = "%s:%s" % (h["file"], h["line"])
        for lk in KINDS:
            for rk in KINDS:
                ncell += 1
                key = "%s:%s:%s" % (simple, lk, rk)
                L = c09.mk(lk, nf.get(lk, 1), "L")
                R = c09.mk(rk, nf.get(rk, 1), "R")
                outs = eval_binary(F, fn, L, R)
                if not outs:
                    rep.undecided(rid, key, "the evaluator closure does not fold")
                    continue
                ks = set()
                for conds, v in outs:
                    ks |= set(kind_of(v).split("|"))
                if lk == "Number" and rk == "Number":
                    want = {"Number"}
                    allowed = {"Number", "Null"}
                elif op == "+" and lk == "String" and rk == "String":
                    want = {"String"}
                    allowed = {"String"}
                else:
                    want = {"Null"}
                    allowed = {"Null"}
                if lk == "Number" and rk == "Number" and op in ("-", "/", "**"):
                    # the operation is not commutative: the left operand of the expression is the left operand of the operation
                    order = operand_order([v for _, v in outs])
                    if order == "swapped":
                        rep.violation(rid, key + ":order", "number %s number is computed with the operands exchanged (right %s left)" % (op, op), where)
                        continue
                if "?" in ks:
                    rep.undecided(rid, key, "%s %s %s folds to %s" % (lk, op, rk, sorted(ks)))
                elif not ks <= allowed or not want <= ks:
                    rep.violation(rid, key, "%s %s %s answers %s; the FEEL semantics gives %s" % (lk.lower(), op, rk.lower(), "/".join(sorted(ks)).lower(), "/".join(sorted(want)).lower()), where)
                else:
                    rep.ok(rid, key, "/".join(sorted(ks)))
    rep.floor(rid, "operator x kind x kind cells", ncell, 180)


# ====================================================================================================== R01.5
TRUNCATING = {"zip", "take", "skip", "take_while", "skip_while", "step_by", "filter", "filter_map"}


def binding_rule(F, rep):
    rid = rep.rule("R01.5", "user-function invocation binds every formal parameter or answers null: the binding loop runs over all parameters and every path through it binds or leaves")
    has_bind = lambda n: bool(find_hir(F.hir[n]["body"], lambda x: x.get("k") == "MethodCall" and x.get("method") == "set_entry"))
    entry = [n for n in F.hir if n.startswith(B) and "{closure" not in n and n.split("::")[-1].startswith("eval_function_")]
    fns = [n for n in entry if has_bind(n)]
    # the binding loop may live in a private helper shared by the positional and the named form
    for n in entry:
        for c, _ in find_hir(F.hir[n]["body"], lambda x: x.get("k") in ("Call", "MethodCall") and (x.get("callee") or "").startswith(B) and (x.get("callee") or "") in F.hir):
            if c["callee"] not in fns and c["callee"] not in entry and has_bind(c["callee"]) and \
                    find_hir(F.hir[c["callee"]]["body"], lambda x: x.get("k") == "Match" and x.get("src") == "ForLoopDesugar"):
                fns.append(c["callee"])
    rep.floor(rid, "parameter-binding functions", len(fns), 1)     # two on the pinned tree; one shared helper may serve both forms
    for n in sorted(fns):
        h = F.hir[n]
        where = "%s:%s" % (h["file"], h["line"])
        key = "bind:%s" % n.split("::")[-1]
        loops = [x for x, _ in find_hir(h["body"], lambda x: x.get("k") == "Match" and x.get("src") == "ForLoopDesugar") if
                 find_hir(x, lambda y: y.get("k") == "MethodCall" and y.get("method") == "set_entry")]
        if not loops:
            rep.undecided(rid, key, "no loop binding parameters found")
            continue
        lp = loops[0]
        it = strip(lp["e"])
        it = strip(it["args"][0]) if it.get("k") == "Call" and it.get("args") else it
        names, root = c10.chain_of(it)
        trunc = sorted(set(names) & TRUNCATING)
        # a dominating comparison of the two lengths makes a zip harmless
        lens = [x for x, _ in find_hir(h["body"], lambda x: x.get("k") == "Binary" and x.get("op") in ("==", "!=", "<", ">", "<=", ">=") and
                                       "len" in render(x["a"]) and "len" in render(x["b"]))]
        if trunc and not lens:
            rep.violation(rid, key, "%s binds the parameters in a loop truncated by `%s` and never compares the numbers of parameters and arguments: a call with too few arguments runs the "
                          "body with parameters unbound (they then resolve in the enclosing scope) instead of answering null" % (n.split("::")[-1], trunc[0]), where)
            continue
        # every path through the loop body binds (set_entry) or returns
        inner = [x for x, _ in find_hir(lp["arms"], lambda x: x.get("k") == "Match" and x.get("src") == "ForLoopDesugar")]
        body, p0 = None, None
        for arm in (inner[0]["arms"] if inner else []):
            if str(arm["p"].get("path", "")).endswith("Some"):
                body = arm["b"]
                p0 = (arm["p"].get("ps") or [None])[0]
        if body is None:
            rep.undecided(rid, key, "loop body not recognised")
            continue

        def hook(callee, args, s):
            if (callee or "").endswith("::set_entry"):
                return [(("bound",), ("unit",))]
            return None
        ev = Evaluator(F, call_hook=hook, ints=True, max_paths=300)
        st = State({})
        if p0 is not None:
            ev.match(p0, ("sym", "parameter"), st.env)
        try:
            outs = list(ev.ev(body, st))
        except TooManyPaths:
            rep.undecided(rid, key, "too many paths through the binding loop")
            continue
        skipping = [s2 for s2, _ in outs if ("bound",) not in s2.conds and s2.ret is None]
        if skipping:
            rep.violation(rid, key, "%s: a path through the binding loop neither binds the parameter nor leaves the function (conditions: %s)" % (
                n.split("::")[-1], [c for c in skipping[0].conds][:3]), where)
        else:
            rep.ok(rid, key, "%d paths: each binds the parameter or returns" % len(outs))


# ====================================================================================================== R01.6
def conditional_rule(F, rep):
    """if c then a else b: a when c is true, b when c is false; a condition that is not true never selects the then-branch"""
    rid = rep.rule("R01.6", "`if`: a true condition selects the then-branch only, a false condition the else-branch only, and no other condition value selects the then-branch")
    fn = B + "build_if"
    h = F.hir.get(fn)
    if h is None:
        rep.missing_anchor(rid, fn)
        return
    c = closure_of(h)
    if c is None:
        rep.undecided(rid, "if", "build_if does not return a closure")
        return
    adt = F.adts.get(c09.VALUE_ADT)
    nf = {v["name"]: len(v["fields"]) for v in adt["variants"]} if adt else {}
    conds = [("true", value("Boolean", mk_bool(True))), ("false", value("Boolean", mk_bool(False)))] + [(k.lower(), c09.mk(k, nf.get(k, 1), "C")) for k in ("Null", "Number", "String", "List", "Context")]
    where = "%s:%s" % (h["file"], h["line"])
    # which captured evaluator was built from which parameter of the builder: `let lhe = build_evaluator(lhs)?` -> {lhe: 0}
    pnames = [p.get("name") for p in h.get("params", [])]
    role = {}
    for stx, _ in find_hir(h["body"], lambda x: x.get("k") == "LetStmt" and x.get("p", {}).get("k") == "Bind" and "e" in x):
        for call, _ in find_hir(stx["e"], lambda x: x.get("k") == "Call" and (x.get("callee") or "").endswith("::build_evaluator") and x.get("args")):
            a = strip(call["args"][0])
            if a.get("k") == "Path" and a.get("name") in pnames:
                role[stx["p"]["name"]] = pnames.index(a["name"])
    if sorted(role.values()) != [0, 1, 2]:
        rep.undecided(rid, "if", "the three sub-evaluators of build_if are not bound by `let x = build_evaluator(<parameter>)`")
        return
    for cname, cv in conds:
        def hook(callee, args, st):
            if callee and callee.startswith("local:") and len(args) == 1 and args[0] == sym("scope") and callee[6:] in role:
                i = role[callee[6:]]
                return cv if i == 0 else ("sym", "THEN") if i == 1 else ("sym", "ELSE")
            return None
        ev = Evaluator(F, call_hook=hook, max_paths=200)
        try:
            outs = ev.run(c["params"], c["body"], [sym("scope")])
        except (TooManyPaths, ValueError, KeyError):
            outs = None
        key = "if:%s" % cname
        if not outs:
            rep.undecided(rid, key, "the closure does not fold")
            continue
        res = set()
        for _, v in outs:
            res.add("then" if v == ("sym", "THEN") else "else" if v == ("sym", "ELSE") else "null" if (isinstance(v, tuple) and v[0] == "v" and v[1] == "Null") else "?")
        # the branch evaluators are bound in order of first call: when only one of them is called on this path it is named THEN - resolve by the closure's capture order instead
        if "?" in res:
            rep.undecided(rid, key, "the result for a %s condition does not fold (%s)" % (cname, sorted(res)))
        elif cname == "true" and res != {"then"}:
            rep.violation(rid, key, "`if true then a else b` answers %s" % "/".join(sorted(res)), where)
        elif cname == "false" and res != {"else"}:
            rep.violation(rid, key, "`if false then a else b` answers %s" % "/".join(sorted(res)), where)
        elif cname not in ("true", "false") and "then" in res:
            rep.violation(rid, key, "a condition of kind %s selects the then-branch" % cname, where)
        else:
            rep.ok(rid, key, "/".join(sorted(res)))


# ====================================================================================================== R01.7
def context_visibility_rule(F, rep):
    """{a: 1, b: a + 1}: every evaluated entry is written into the context pushed for this literal before the next entry is evaluated"""
    rid = rep.rule("R01.7", "context literal: inside the entry loop every evaluated entry is written both to the result and to the scope's own context, so that later entries see earlier ones")
    fn = B + "build_context"
    h = F.hir.get(fn)
    if h is None:
        rep.missing_anchor(rid, fn)
        return
    c = closure_of(h)
    where = "%s:%s" % (h["file"], h["line"])
    if c is None:
        rep.undecided(rid, "context", "build_context does not return a closure")
        return
    loops = [lp for lp, _ in find_hir(c["body"], lambda x: x.get("k") == "Match" and x.get("src") == "ForLoopDesugar")]
    if not loops:
        rep.undecided(rid, "context", "no entry loop in the closure of build_context (iterator form)")
        return
    lp = loops[0]
    inner = [x for x, _ in find_hir(lp["arms"], lambda x: x.get("k") == "Match" and x.get("src") == "ForLoopDesugar")]
    body, p0 = None, None
    for arm in (inner[0]["arms"] if inner else []):
        if str(arm["p"].get("path", "")).endswith("Some"):
            body = arm["b"]
            p0 = (arm["p"].get("ps") or [None])[0]
    if body is None:
        rep.undecided(rid, "context", "loop body not recognised")
        return
    evals = [x for x, _ in find_hir(body, lambda x: x.get("k") == "Call" and x.get("callee") is None and any(strip(a).get("name") == "scope" for a in x.get("args", [])))]

    def hook(callee, args, s):
        cc = callee or ""
        if cc.endswith("Scope::set_entry"):
            return [(("scope-write",), ("unit",))]
        if cc.endswith("FeelContext::set_entry"):
            return [(("result-write",), ("unit",))]
        if cc.startswith("local:") and len(args) == 1 and args[0] == sym("scope"):
            return value("ContextEntry", sym("name"), sym("value"))
        return None
    ev = Evaluator(F, call_hook=hook, ints=True, max_paths=200)
    st = State({"scope": sym("scope")})
    if p0 is not None:
        ev.match(p0, ("sym", "local-evaluator"), st.env)
    # the loop variable is the evaluator: calling it is `local:<name>`
    try:
        outs = list(ev.ev(body, st))
    except TooManyPaths:
        outs = []
    if not outs:
        rep.undecided(rid, "context", "the entry loop does not fold")
        return
    bad = [s2 for s2, _ in outs if not (("scope-write",) in s2.conds and ("result-write",) in s2.conds)]
    if bad:
        missing = "the scope's own context" if ("scope-write",) not in bad[0].conds else "the result"
        rep.violation(rid, "context", "build_context: an evaluated entry is not written to %s inside the entry loop: a later entry that refers to it sees null (or an outer binding)" % missing, where)
    else:
        rep.ok(rid, "context", "%d path(s): the entry is written to the result and to the scope before the next entry is evaluated" % len(outs))


# ====================================================================================================== R01.8
def declaration_order_rule(F, rep):
    """for x in d1, y in d2 return e: the iteration contexts reach the cartesian iterator in the order of their declaration (the last one changes fastest). The builders walk the
    declared contexts once; if that walk distributes them over several collections by kind and the evaluator closure then consumes collection after collection, the
    declaration order between the kinds is lost (`for x in 1..2, y in [10, 20]` iterates y as the outer variable)."""
    rid = rep.rule("R01.8", "iteration contexts of for / some / every reach the iterator in declaration order: one ordered collection, consumed in one pass")
    n = 0
    for simple in ("build_for", "build_some", "build_every"):
        fn = B + simple
        h = F.hir.get(fn)
        if h is None:
            rep.missing_anchor(rid, fn)
            continue
        c = closure_of(h)
        where = "%s:%s" % (h["file"], h["line"])
        key = "order:%s" % simple
        if c is None:
            rep.undecided(rid, key, "%s does not return a closure" % simple)
            continue
        # collections filled while walking the declared contexts
        pushed = set()
        for lp, _ in find_hir(h["body"], lambda x: x.get("k") == "Match" and x.get("src") == "ForLoopDesugar"):
            if contains_node(c, lp) or contains_node(lp, c):
                continue
            for mc, _ in find_hir(lp["arms"], lambda x: x.get("k") == "MethodCall" and x.get("method") in ("push", "push_back", "insert", "extend")):
                r = strip(mc["recv"])
                if r.get("k") == "Path" and r.get("res") == "local":
                    pushed.add(r["name"])
        # collections consumed by loops of the closure that feed the iterator (add_*)
        consumed = []
        for lp, _ in find_hir(c["body"], lambda x: x.get("k") == "Match" and x.get("src") == "ForLoopDesugar"):
            if not find_hir(lp["arms"], lambda x: x.get("k") == "MethodCall" and str(x.get("method", "")).startswith("add")):
                continue
            it = strip(lp["e"])
            it = strip(it["args"][0]) if it.get("k") == "Call" and it.get("args") else it
            names, root = c10.chain_of(it)
            if root.get("k") == "Path" and root.get("res") in ("local", "upvar") and root.get("name") in pushed and root["name"] not in consumed:
                consumed.append(root["name"])
        n += 1
        if len(consumed) > 1:
            rep.violation(rid, key, "%s collects the declared iteration contexts into %d collections (%s) and feeds the iterator collection by collection: the declaration order "
                          "between them is lost, e.g. `for x in 1..2, y in [10, 20] return x + y` iterates y as the outer variable" % (simple, len(consumed), ", ".join(consumed)), where)
        elif len(consumed) == 1:
            rep.ok(rid, key, "one ordered collection (%s), consumed in one pass" % consumed[0])
        else:
            rep.undecided(rid, key, "no collection that is filled from the declared contexts and consumed by a loop feeding the iterator was recognised")
    rep.floor(rid, "iteration builders", n, 3)


# ====================================================================================================== R01.9
STEP_CELLS = ((1, 3), (2, 2), (3, 1), (-4, -4), (0, 0), (-1, -3), (-3, -1))


def step_rule(F, rep):
    """The cartesian odometer (FeelIterator::run) advances a variable by its `step` and leaves the whole iteration when it meets a step of 0: a range variable whose step is 0
    truncates the product (`for x in 1..2, y in 3..3 return x + y` answers one element). Every literal of the iterator state is folded on ascending, equal and descending
    bounds: the step is +1 when start <= end would reach the end upwards, -1 when downwards, and never 0."""
    rid = rep.rule("R01.9", "every iterator state is built with a step of +1 (start <= end reachable upwards) or -1 (downwards), never 0: the odometer leaves the whole iteration on a zero step")
    n = 0
    for name, h in sorted(F.hir.items()):
        if not name.startswith("dmntk_feel_evaluator::"):
            continue
        lits = find_hir(h["body"], lambda x: x.get("k") == "Struct" and str(x.get("path") or "").endswith("::FeelIteratorState"))
        for lit, _ in lits:
            fields = {f["name"]: f["e"] for f in lit.get("fields", [])}
            short = name.split("::")[-1]
            key = "step:%s" % short
            where = "%s:%s" % (h["file"], h["line"])
            if "step" not in fields or "start" not in fields or "end" not in fields:
                rep.undecided(rid, key, "the state literal does not name step, start and end (functional update)")
                continue
            n += 1
            bad, unknown, cells = [], [], 0
            for (a, b) in STEP_CELLS:
                ev = Evaluator(F, ints=True)
                ev.crate = h.get("_crate")
                env = {}
                for q in h["params"]:
                    ev.match(q.get("p", q), sym(pname(q) or "_"), env)
                # the bounds of the state are the values of its `start` / `end` fields: parameters named by them take the cell's values
                for fld, val in (("start", a), ("end", b)):
                    e = strip(fields[fld])
                    if e.get("k") == "Path" and e.get("res") == "local":
                        env[e["name"]] = ("lit", val)
                try:
                    outs = [(s, v) for s, v in ev.ev(fields["step"], State(env))]
                except (TooManyPaths, ValueError, KeyError, TypeError, IndexError) as x:
                    unknown.append("(%d, %d): %s" % (a, b, x))
                    continue
                for s, v in outs:
                    cells += 1
                    if v[0] != "lit" or not isinstance(v[1], int) or isinstance(v[1], bool):
                        unknown.append("(%d, %d): %s" % (a, b, str(v)[:60]))
                    elif v[1] == 0:
                        bad.append("step 0 for bounds %d..%d" % (a, b))
                    elif bounded(fields) and ((a < b and v[1] != 1) or (a > b and v[1] != -1) or abs(v[1]) != 1):
                        bad.append("step %d for bounds %d..%d" % (v[1], a, b))
                    elif not bounded(fields) and v[1] != 1:
                        bad.append("step %d of a state whose bounds are 0 .. length - 1" % v[1])
            if bad:
                rep.violation(rid, key, "%s builds an iterator state with %s: the odometer of FeelIterator::run leaves the whole iteration on a zero step and never reaches the end "
                              "against the direction, e.g. `for x in 1..2, y in 3..3 return x + y`" % (short, "; ".join(sorted(set(bad))[:3])), where)
            elif unknown:
                rep.undecided(rid, key, "the step of the state built by %s does not fold to an integer: %s" % (short, "; ".join(unknown[:2])))
            else:
                rep.ok(rid, key, "%d folds on ascending, equal and descending bounds: +1 / +-1 / -1" % cells)
    rep.floor(rid, "iterator state literals", n, 2)


def pname(q):
    p = q.get("p", q)
    while p.get("k") in ("Ref", "Guard") and "p" in p:
        p = p["p"]
    return p.get("name") if p.get("k") == "Bind" else None


def strip_ok(e):
    e = strip(e)
    return e.get("k") == "Path" and e.get("res") == "local"


def bounded(fields):
    return strip_ok(fields["start"]) and strip_ok(fields["end"])
