"""C17: workspace indexes - co-mutation, key provenance, evaluator invalidation, deploy continues (DESIGN §3 C17)."""
import hirflow
from facts import find_hir, strip

LEVEL = "other"
CRATES_QUICK = ["dmntk_workspace", "dmntk_server"]
CRATES_THOROUGH = None
W = "dmntk_workspace::workspace::Workspace"
FILE = "workspace/src/workspace.rs"
ADD_OPS = {"insert", "push", "extend", "push_back", "entry"}
DEL_OPS = {"remove", "retain", "pop", "swap_remove", "drain", "truncate", "remove_entry"}
CLR_OPS = {"clear"}


def field_of(d):
    """('field', name, ('arg', 0)) possibly through via -> field name of self"""
    while d and d[0] == "via":
        d = d[2]
    if d and d[0] == "field" and d[2] == ("arg", 0):
        return d[1]
    return None


def roots(d, out=None):
    """set of argument indices / locals a descriptor derives from"""
    if out is None:
        out = set()
    if isinstance(d, tuple):
        if d and d[0] == "arg":
            out.add(d[1])
        elif d and d[0] == "closure_arg":
            out.add("closure_arg")
        else:
            for x in d:
                roots(x, out)
    elif isinstance(d, list):
        for x in d:
            roots(x, out)
    return out


def tying_helper(F, cond):
    """the condition is a call of a private Workspace predicate that looks one stored object up by one of its arguments and compares an attribute of that object with
    another argument (`fn is_stored(&self, namespace, name) -> bool { matches!(self.by_namespace.get(namespace), Some(d) if d.name() == name) }`): the same
    lookup-and-compare idiom, extracted into a function"""
    if not (isinstance(cond, tuple) and cond and cond[0] == "call" and isinstance(cond[1], str)):
        return False
    h = F.hir.get(cond[1])
    if h is None or F.fns.get(cond[1], {}).get("vis") == "pub" or "Workspace::" not in cond[1]:
        return False
    params = [p.get("name") for p in h.get("params", [])]
    lookups = find_hir(h["body"], lambda x: x.get("k") == "MethodCall" and x.get("method") in ("get", "get_key_value") and x.get("args"))
    looked = {strip(l[0]["args"][0]).get("name") for l in lookups}
    compared = set()
    for x, _ in find_hir(h["body"], lambda x: x.get("k") == "Binary" and x.get("op") == "=="):
        for side in (x["a"], x["b"]):
            s_ = strip(side)
            if s_.get("k") == "Path" and s_.get("res") == "local" and s_.get("name") in params:
                compared.add(s_["name"])
    return bool(looked & set(params)) and bool(compared - looked)


def run(F, rep, tier):
    rep.explanation = ("Workspace keeps one list and two indexes of the stored models plus the evaluator map. Static rules over the HIR of every Workspace method: "
                       "the three indexes are mutated together on the same paths, all keys of one operation derive from one Definitions object, every mutating path "
                       "invalidates the evaluators, deploy's per-model error arm falls through. The history property is decided for bounded histories by folding the methods on records of the workspace state (R17.10).")
    r1 = rep.rule("R17.1", "every method that inserts into / removes from / clears one of the three indexes does so for all three on the same path")
    r2 = rep.rule("R17.2", "within one operation all index keys derive from one Definitions object (not from independent parameters)")
    r3 = rep.rule("R17.3", "every path that mutates an index also reaches clear_model_evaluators; deploy starts from an empty evaluator map")
    r4 = rep.rule("R17.4", "in deploy the Err arm of the per-model build continues with the next model")
    adt = F.adts.get(W)
    if adt is None:
        rep.missing_anchor(r1, W)
        return
    fields = [f["name"] for f in adt["variants"][0]["fields"]]
    index_fields = [f for f in fields if f.startswith("definitions")]
    ev_fields = [f for f in fields if "evaluator" in f]
    rep.floor(r1, "index fields of Workspace", len(index_fields), 3)
    rep.floor(r3, "evaluator map fields of Workspace", len(ev_fields), 1)
    methods = {n: h for n, h in F.hir.items() if n.startswith(W + "::") and h["kind"] == "method"}
    rep.floor(r1, "Workspace methods", len(methods), 9)
    # summaries: which methods (transitively, through self.method() calls) clear evaluators / mutate indexes
    flows = {n: hirflow.Flow(h) for n, h in methods.items()}

    def mutations(n, seen=()):
        """list of (field, kind, cond, line, key descriptors, via) including those of callee methods on self"""
        out = []
        for callee, args, cond, line, node in flows[n].calls:
            if callee in methods and callee not in seen and args and args[0] == ("arg", 0):
                for (f, k, c2, l2, keys, via) in mutations(callee, seen + (n,)):
                    # re-root the callee's key descriptors onto this call's arguments
                    out.append((f, k, cond, line, [substitute(kd, args) for kd in keys], via + [callee.split("::")[-1]]))
                continue
            m = node.get("method")
            if node.get("k") != "MethodCall" or m is None:
                continue
            f = field_of(args[0])
            if f is None:
                continue
            kind = "add" if m in ADD_OPS else "del" if m in DEL_OPS else "clr" if m in CLR_OPS else None
            if kind is None:
                continue
            keys = args[1:]
            if m == "retain" and node["args"] and strip(node["args"][0]).get("k") == "Closure":
                keys = closure_keys(flows[n], strip(node["args"][0]))
            out.append((f, kind, cond, line, keys, []))
        return out

    nmut = 0
    for n, h in sorted(methods.items()):
        short = n.split("::")[-1]
        if short == "new" or h.get("vis") != "pub":
            continue  # private helpers are analysed inlined into their public callers
        muts = mutations(n)
        idx = [m for m in muts if m[0] in index_fields]
        evs = [m for m in muts if m[0] in ev_fields]
        if not idx:
            continue
        nmut += 1
        # R17.1
        for kind in ("add", "del", "clr"):
            ks = [m for m in idx if m[1] == kind]
            if not ks:
                continue
            touched = {m[0] for m in ks}
            key = "%s:%s" % (short, kind)
            if touched != set(index_fields):
                rep.violation(r1, key, "%s %ss %s but not %s" % (short, {"add": "insert", "del": "remove", "clr": "clear"}[kind], sorted(touched), sorted(set(index_fields) - touched)),
                              "%s:%s" % (FILE, ks[0][3]))
                continue
            conds = {repr(m[2]) for m in ks}
            if len(conds) != 1:
                rep.violation(r1, key, "%s mutates the three indexes under different conditions (they can drift apart)" % short, "%s:%s" % (FILE, ks[0][3]))
            else:
                rep.ok(r1, key, "all of %s on one path" % sorted(touched))
        # R17.2: keys of add / del operations come from one object
        for kind in ("add", "del"):
            ks = [m for m in idx if m[1] == kind]
            if not ks:
                continue
            rs = set()
            for m in ks:
                for kd in m[4]:
                    rs |= {r for r in roots(kd) if r not in (0, "closure_arg")}
            key = "%s:%s:keys" % (short, kind)
            tied = False
            if len(rs) > 1:
                # accepted idiom: a dominating condition that relates the keys through one stored object
                # (look the model up by one key and compare its other attribute with the other key)
                for m in ks:
                    for c in m[2]:
                        if c[2] is True and rs <= roots(c[0]) and ("get" in repr(c[0]) or tying_helper(F, c[0])):
                            tied = True
            if len(rs) == 1:
                rep.ok(r2, key, "all keys derive from parameter %s" % sorted(rs))
            elif tied and all(any(c[2] is True and rs <= roots(c[0]) for c in m[2]) for m in ks):
                rep.ok(r2, key, "keys %s are tied by a dominating lookup-and-compare on one stored object" % sorted(rs))
            else:
                rep.violation(r2, key, "%s %ss index entries with keys derived from %d unrelated parameters %s: the namespace of one model can meet the name of another, "
                              "leaving stale reservations behind" % (short, "insert" if kind == "add" else "remove", len(rs), sorted(rs)), "%s:%s" % (FILE, ks[0][3]))
        # R17.3
        key = "%s:invalidates" % short
        clears = [m for m in evs if m[1] == "clr"]
        if short == "deploy":
            pass
        elif not clears:
            rep.violation(r3, key, "%s modifies the stored models but never clears the model evaluators: evaluation stays possible against stale evaluators" % short,
                          "%s:%s" % (FILE, h["line"]))
        else:
            # the clear must be on every path that mutates: its condition list must be a prefix of each mutation's
            bad = [m for m in idx if not any(is_prefix(c[2], m[2]) for c in clears)]
            if bad:
                rep.violation(r3, key, "%s: a path mutates %s without reaching clear_model_evaluators" % (short, bad[0][0]), "%s:%s" % (FILE, bad[0][3]))
            else:
                rep.ok(r3, key, "clear_model_evaluators on every mutating path")
    rep.floor(r1, "index-mutating methods", nmut, 4)
    all_or_nothing_rule(F, rep, index_fields, fields)
    per_model_loop_rule(F, rep, methods)
    from props import c17_fold
    c17_fold.run(F, rep, tier)
    stored_evaluator_rule(F, rep, methods, ev_fields)
    r8 = rep.rule("R17.8", "Workspace operations are called with their arguments in parameter order (no `remove(name, namespace)` for `remove(namespace, name)`)")
    targets = set(methods)
    ncall = 0
    for name, h in sorted(F.hir.items()):
        if not h["_crate"].startswith(("dmntk_workspace", "dmntk_server")):
            continue
        calls = [c for c, _ in find_hir(h["body"], lambda x: x.get("k") in ("MethodCall", "Call") and (x.get("callee") or "") in targets)]
        ncall += len(calls)
        for callee, line, an, pn in swapped_arguments(F, h, targets):
            rep.violation(r8, "swapped:%s->%s" % (name.split("::")[-1], callee.split("::")[-1]), "%s calls %s with arguments named %s for parameters %s: two arguments are exchanged"
                          % (name.split("::")[-1], callee.split("::")[-1], an, pn), "%s:%s" % (h["file"], line))
    if not any(v["rule"] == r8 for v in rep.violations):
        rep.ok(r8, "argument-order", "%d calls of Workspace operations, no exchanged arguments" % ncall)

    key_accessor_rule(F, rep)

    # deploy
    dep = methods.get(W + "::deploy")
    if dep is None:
        rep.missing_anchor(r4, W + "::deploy")
        return
    muts = mutations(W + "::deploy")
    evm = [m for m in muts if m[0] in ev_fields]
    first = min(evm, key=lambda m: m[3]) if evm else None
    if first and first[1] == "clr" and not first[2]:
        rep.ok(r3, "deploy:starts-empty", "evaluator map cleared unconditionally first")
    else:
        rep.violation(r3, "deploy:starts-empty", "deploy does not start by clearing the evaluator map", "%s:%s" % (FILE, dep["line"]))
    loops = find_hir(dep["body"], lambda n: n.get("k") == "Loop")
    if not loops:
        # the per-model work written as an iterator chain: an adaptor that skips a failed build continues with the next model, one that stops at the first failure does not
        chains = adaptor_closures(dep, ("dmntk_model_evaluator::model_evaluator::ModelEvaluator::new",))
        if not chains:
            rep.undecided(r4, "deploy:err-arm", "deploy has neither a loop nor an iterator chain over the stored definitions that builds the evaluators")
            return
        for meth, clo, mc in chains:
            if meth in STOP_AT_FAILURE:
                rep.violation(r4, "deploy:err-arm", "deploy builds the evaluators in `%s`: the chain ends at the first model that fails to build, the remaining models are not deployed" % meth,
                              "%s:%s" % (FILE, mc.get("l")))
            elif meth in SKIP_FAILURE:
                rep.ok(r4, "deploy:err-arm", "`%s` skips a model that fails to build and continues" % meth)
            else:
                rep.undecided(r4, "deploy:err-arm", "deploy builds the evaluators inside `%s`: what happens after a failed build is not followed" % meth)
        return
    n_err = 0
    for lp, _ in loops:
        for m, _ in find_hir(lp, lambda n: n.get("k") == "Match" and n.get("src") == "Normal"):
            for arm in m["arms"]:
                ct = hirflow.Flow.pat_ctors(arm["p"])
                if any(isinstance(c, str) and c.endswith("Result::Err") for c in ct):
                    n_err += 1
                    exits = find_hir(arm["b"], lambda n: n.get("k") in ("Ret", "Break") or (n.get("k") == "Match" and n.get("src") == "TryDesugar"))
                    panics = find_hir(arm["b"], lambda n: n.get("k") in ("Call", "MethodCall") and any(x in (n.get("callee") or "") for x in ("panic", "unwrap", "expect")))
                    if exits or panics:
                        rep.violation(r4, "deploy:err-arm", "a model that fails to build aborts deploy (%s in the Err arm): the remaining models are not deployed" % (exits or panics)[0][0]["k"],
                                      "%s:%s" % (FILE, arm.get("l")))
                    else:
                        rep.ok(r4, "deploy:err-arm", "Err arm falls through to the next iteration")
        # a `?` on the build call inside the loop is the same defect
        for t, _ in find_hir(lp, lambda n: n.get("k") == "Match" and n.get("src") == "TryDesugar"):
            rep.violation(r4, "deploy:try", "`?` inside the deploy loop: one failing model prevents the others from being deployed", "%s:%s" % (FILE, t.get("l")))
    if n_err == 0:
        builds = [c for c in flows[W + "::deploy"].calls if (c[0] or "").endswith("ModelEvaluator::new")]
        if not builds:
            rep.missing_anchor(r4, "ModelEvaluator::new call in deploy")
        else:
            rep.ok(r4, "deploy:err-arm", "no Err arm that leaves the loop")


ITEM_WISE = ("map", "filter_map", "flat_map", "filter", "for_each", "map_while", "take_while", "try_for_each", "scan", "find_map", "inspect", "try_fold", "fold")
STOP_AT_FAILURE = ("map_while", "take_while", "try_for_each", "scan", "find_map", "try_fold")
SKIP_FAILURE = ("filter_map", "flat_map", "for_each", "filter")


def adaptor_closures(h, callees):
    """[(adaptor method, closure node, call node)] for item-wise iterator adaptors in h whose closure calls one of `callees`"""
    out = []
    for mc, _ in find_hir(h["body"], lambda x: x.get("k") == "MethodCall" and x.get("method") in ITEM_WISE and "Iterator" in (x.get("callee") or "")):
        for a in mc.get("args", []):
            if a.get("k") == "Closure" and find_hir(a["body"], lambda y: y.get("k") in ("Call", "MethodCall") and (y.get("callee") or "") in callees):
                out.append((mc["method"], a, mc))
    return out


def stored_evaluator_rule(F, rep, methods, ev_fields):
    """R17.7: 'evaluation is possible exactly for the models that built successfully': what is stored in the evaluator map is the Ok payload of
    ModelEvaluator::new - not a default / fallback evaluator standing in for a model that failed to build."""
    rid = rep.rule("R17.7", "the evaluator map only receives evaluators that ModelEvaluator::new returned as Ok (no default / placeholder for a model that failed to build)")
    NEW = "dmntk_model_evaluator::model_evaluator::ModelEvaluator::new"
    n = 0
    for name, h in sorted(methods.items()):
        fl = hirflow.Flow(h)
        for c, args, cond, line, node in fl.calls:
            if node.get("k") != "MethodCall" or node.get("method") not in ("insert", "entry", "extend", "push") or not args or field_of(args[0]) not in ev_fields:
                continue
            n += 1
            key = "stored:%s" % name.split("::")[-1]
            v = args[-1]
            while v and v[0] == "via":
                v = v[2]
            if node.get("method") == "extend" and NEW in repr(v) is False:
                pass
            if v and v[0] in ("call", "sym") and node.get("method") == "extend":
                # the map is extended from an iterator chain: the pairs come out of the closure of an adaptor in this function
                chains = adaptor_closures(h, (NEW,))
                verdict = None
                for meth, clo, mc in chains:
                    fallback = find_hir(clo["body"], lambda y: y.get("k") == "MethodCall" and y.get("method") in ("unwrap_or", "unwrap_or_default", "unwrap_or_else", "or", "or_else"))
                    okc = find_hir(clo["body"], lambda y: (y.get("k") == "MethodCall" and y.get("method") == "ok" and (y.get("callee") or "").startswith("core::result::Result")) or
                                   (y.get("k") in ("Match", "Let") and any(isinstance(c_, str) and c_.endswith("Result::Ok") for c_ in hirflow.Flow.pat_ctors(y.get("p") or {}) +
                                                                          [c2 for arm in y.get("arms", []) for c2 in hirflow.Flow.pat_ctors(arm["p"])])))
                    if fallback:
                        verdict = ("bad", "a fallback (`%s`) stands in for a model that failed to build" % fallback[0][0]["method"])
                    elif okc and verdict is None:
                        verdict = ("ok", "pairs made of the Ok payload of ModelEvaluator::new inside `%s`" % meth)
                if verdict is None:
                    rep.undecided(rid, key, "%s extends the evaluator map from a value whose construction is not followed" % name.split("::")[-1])
                elif verdict[0] == "ok":
                    rep.ok(rid, key, verdict[1])
                else:
                    rep.violation(rid, key, "%s: %s" % (name.split("::")[-1], verdict[1]), "%s:%s" % (FILE, line))
                continue
            is_new = bool(v) and v[0] == "call" and v[1] == NEW
            ok_cond = any(cd[0] and cd[0][0] == "call" and cd[0][1] == NEW and cd[2] is True and any(isinstance(x, str) and x.endswith("Result::Ok") for x in cd[1]) for cd in cond)
            if is_new and ok_cond:
                rep.ok(rid, key, "the Ok payload of ModelEvaluator::new")
            else:
                rep.violation(rid, key, "%s stores %s in the evaluator map%s: a model that failed to build must not become evaluable" % (name.split("::")[-1], str(v)[:90],
                              "" if is_new else " (not the value ModelEvaluator::new returned as Ok)"), "%s:%s" % (FILE, line))
    rep.floor(rid, "insertions into the evaluator map", n, 1)


def swapped_arguments(F, h, targets):
    """calls in h to functions in `targets` whose arguments are named like *other* parameters of the callee (`remove(name, namespace)` for
    `fn remove(namespace, name)`): returns [(callee, line, arg names, parameter names)]"""
    out = []
    for c, _ in find_hir(h["body"], lambda x: x.get("k") in ("MethodCall", "Call") and (x.get("callee") or "") in targets):
        callee = F.hir.get(c["callee"])
        if callee is None:
            continue
        pn = [p.get("name") for p in callee.get("params", [])]
        actual = ([c["recv"]] if c.get("k") == "MethodCall" else []) + list(c.get("args", []))

        def ident(e):
            e = strip(e)
            while e.get("k") in ("MethodCall",) and e.get("method") in ("as_str", "as_ref", "clone", "to_string", "to_owned", "deref", "borrow", "into", "as_deref"):
                e = strip(e["recv"])
            while e.get("k") in ("AddrOf", "Unary"):
                e = strip(e.get("e") or e.get("a"))
            if e.get("k") == "Field":
                return e.get("name")
            if e.get("k") == "Path" and e.get("res") == "local":
                return e.get("name")
            return None
        an = [ident(a) for a in actual]
        for i, a in enumerate(an):
            if a is None or i >= len(pn) or a == pn[i]:
                continue
            if a in pn and pn.index(a) != i:
                j = pn.index(a)
                if j < len(an) and an[j] is not None and an[j] != pn[j]:
                    out.append((c["callee"], c.get("l"), an, pn))
                    break
    return out


def per_model_loop_rule(F, rep, methods):
    """R17.6: wherever the workspace handles several models in a loop (loading a directory, deploying), one model that cannot be parsed / added / built
    must not end the loop: no `?`, `return` or `break` inside the body of a loop that calls dmntk_model::parse, Workspace::add or ModelEvaluator::new
    (a `?` inside such a loop in a helper is the same defect)."""
    rid = rep.rule("R17.6", "per-model loops (load directory, deploy) never leave the loop because one model failed: no `?`, return or break in their bodies")
    PER_MODEL = ("dmntk_model::parse", W + "::add", "dmntk_model_evaluator::model_evaluator::ModelEvaluator::new")
    # a helper method that does the work for one model (it calls one of the three outside any loop of its own) is per-model work as well: `for f in files { self.load_model(f) }`
    grew = True
    while grew:
        grew = False
        for name, h in methods.items():
            if name in PER_MODEL:
                continue
            loops = [lp for lp, _ in find_hir(h["body"], lambda x: x.get("k") == "Loop")]
            for c, _ in find_hir(h["body"], lambda x: x.get("k") in ("Call", "MethodCall") and (x.get("callee") or "") in PER_MODEL):
                if not any(find_hir(lp, lambda y: y is c) for lp in loops) and not adaptor_closures(h, PER_MODEL):
                    PER_MODEL = PER_MODEL + (name,)
                    grew = True
                    break
    n = 0
    for name, h in sorted(methods.items()):
        for lp, _ in find_hir(h["body"], lambda x: x.get("k") == "Loop"):
            calls = [c for c, _ in find_hir(lp, lambda x: x.get("k") in ("Call", "MethodCall") and (x.get("callee") or "") in PER_MODEL)]
            if not calls:
                continue
            n += 1
            key = "loop:%s" % name.split("::")[-1]
            exits = [x for x, par in find_hir(lp, lambda x: x.get("k") in ("Ret",) or (x.get("k") == "Match" and x.get("src") == "TryDesugar"))]
            if exits:
                rep.violation(rid, key, "the loop in %s that handles one model per iteration is left by %s at line %s when a model fails: the remaining models are not processed"
                              % (name.split("::")[-1], "`?`" if exits[0].get("k") == "Match" else "return", exits[0].get("l")), "%s:%s" % (FILE, exits[0].get("l")))
            else:
                rep.ok(rid, key, "%d per-model call(s), failures stay inside the iteration" % len(calls))
    for name, h in sorted(methods.items()):
        for meth, clo, mc in adaptor_closures(h, PER_MODEL):
            n += 1
            key = "loop:%s" % name.split("::")[-1]
            if meth in STOP_AT_FAILURE:
                rep.violation(rid, key, "the per-model work of %s runs in `%s`, which ends at the first model that fails: the remaining models are not processed" % (name.split("::")[-1], meth),
                              "%s:%s" % (FILE, mc.get("l")))
            else:
                rep.ok(rid, key, "per-model work inside `%s`, failures stay inside the item" % meth)
    rep.floor(rid, "per-model loops", n, 2)


def is_prefix(a, b):
    return len(a) <= len(b) and tuple(b[:len(a)]) == tuple(a)


def substitute(d, args):
    if isinstance(d, tuple):
        if d and d[0] == "arg" and isinstance(d[1], int) and d[1] < len(args):
            return args[d[1]]
        return tuple(substitute(x, args) for x in d)
    if isinstance(d, list):
        return [substitute(x, args) for x in d]
    return d


def closure_keys(flow, clos):
    """descriptors of the free variables compared inside a retain closure"""
    out = []
    sub = hirflow.Flow.__new__(hirflow.Flow)
    names = set()
    for n, _ in find_hir(clos["body"], lambda n: n.get("k") == "Path" and n.get("res") == "local"):
        names.add(n["name"])
    params = set()
    for p in clos.get("params", []):
        for n, _ in find_hir({"k": "x", "p": p}, lambda n: n.get("k") == "Bind"):
            params.add(n["name"])
    # free variables of the closure are parameters of the enclosing method: find them by name in the method's params
    h = flow.h
    for i, p in enumerate(h.get("params", [])):
        if p.get("k") == "Bind" and p["name"] in names - params:
            out.append(("arg", i))
    return out


# ======================================================================================================
ADD_RE = r"(HashMap::<.*>::insert|Vec::<.*>::push|VacantEntry::<.*>::insert(_entry)?|Entry::<.*>::or_insert(_with|_with_key)?|BTreeMap::<.*>::insert|Vec::<.*>::insert|Vec::<.*>::extend\w*)$"
DEL_RE = r"(HashMap::<.*>::remove(_entry)?|HashMap::<.*>::retain|Vec::<.*>::retain|Vec::<.*>::remove|Vec::<.*>::swap_remove|Vec::<.*>::pop|Vec::<.*>::truncate|Vec::<.*>::drain|OccupiedEntry::<.*>::remove(_entry)?|BTreeMap::<.*>::remove)$"
CLR_RE = r"(HashMap::<.*>::clear|Vec::<.*>::clear|BTreeMap::<.*>::clear)$"


def all_or_nothing_rule(F, rep, index_fields, fields):
    """R17.5 (MIR): on every path from entry to a normal return of a public Workspace operation, the set of index fields inserted into (resp. removed
    from, cleared) is empty or complete - an early `return` / `?` between two of the three updates leaves a stale reservation behind. Forward dataflow
    over the control-flow graph with the set of possible (kind -> fields touched) states per block; calls to other Workspace methods apply the callee's
    summary."""
    import re
    import mirutil
    rid = rep.rule("R17.5", "all-or-nothing on every path: at every normal return the indexes inserted into / removed from / cleared are none or all three")
    idx = {fields.index(f): f for f in index_fields}
    bodies = {n: b for n, b in F.bodies.items() if n.startswith(W + "::") and b["kind"] != "closure"}
    summaries = {}

    def field_of_operand(B, op, depth=0):
        if op[0] not in ("C", "M") or depth > 8:
            return None
        pl = op[1]
        if pl[0] == 1 and len(pl) >= 3 and pl[1] == "*" and isinstance(pl[2], list) and pl[2][0] == ".":
            return pl[2][1]
        defs = B.defs.get(pl[0], [])
        if len(defs) != 1:
            return None
        bi, si, kind, st = defs[0]
        if kind == "call":
            if re.search(r"(HashMap|BTreeMap)::<.*>::entry$", st["f"].get("p") or "") and st["args"]:
                return field_of_operand(B, st["args"][0], depth + 1)
            return None
        rv = st[2]
        if rv[0] in ("Ref", "RawPtr"):
            return field_of_operand(B, ["C", rv[2]], depth + 1)
        if rv[0] in ("Use", "Cast"):
            return field_of_operand(B, rv[1] if rv[0] == "Use" else rv[2], depth + 1)
        return None

    def summarise(n, stack=()):
        if n in summaries:
            return summaries[n]
        b = bodies[n]
        B = mirutil.Body(F, b)
        blocks = b["blocks"]
        effects = {}
        for bi, bl in enumerate(blocks):
            t = bl["t"]
            if bl.get("cleanup") or t[0] != "call":
                continue
            p = t[1]["f"].get("p") or ""
            if p in bodies and p not in stack and p != n:
                effects[bi] = ("call", summarise(p, stack + (n,)))
                continue
            kind = "add" if re.search(ADD_RE, p) else "del" if re.search(DEL_RE, p) else "clr" if re.search(CLR_RE, p) else None
            if kind and t[1]["args"]:
                f = field_of_operand(B, t[1]["args"][0])
                if f in idx:
                    effects[bi] = (kind, f)
        # forward dataflow: state = frozenset of (kind, field)
        states = {0: {frozenset()}}
        work = [0]
        outs = set()
        while work:
            x = work.pop()
            cur = set()
            for stt in states[x]:
                e = effects.get(x)
                if e is None:
                    cur.add(stt)
                elif e[0] == "call":
                    for o in e[1]:
                        cur.add(stt | o)
                else:
                    cur.add(stt | {e})
            t = blocks[x]["t"]
            if t[0] == "ret":
                outs |= cur
            for y in mirutil.normal_successors(t):
                old = states.get(y, set())
                new = old | cur
                if new != old:
                    states[y] = new
                    work.append(y)
        summaries[n] = outs
        return outs

    nops = 0
    for n, b in sorted(bodies.items()):
        if b.get("vis") != "pub":
            continue
        outs = summarise(n)
        if not any(outs):
            continue
        nops += 1
        short = n.split("::")[-1]
        for kind, word in (("add", "inserts into"), ("del", "removes from"), ("clr", "clears")):
            masks = {frozenset(f for k, f in o if k == kind) for o in outs}
            if masks <= {frozenset()}:
                continue
            key = "%s:%s:paths" % (short, kind)
            bad = [m for m in masks if m and m != frozenset(idx)]
            if bad:
                rep.violation(rid, key, "%s can return normally on a path that %s only %s (of %s): an early exit between the index updates leaves a stale name or namespace reservation"
                              % (short, word, sorted(idx[f] for f in bad[0]), sorted(idx.values())), "%s:%s" % (FILE, b["line"]))
            else:
                rep.ok(rid, key, "every returning path %s none or all of %s" % (word, sorted(idx.values())))
    rep.floor(rid, "public operations that touch an index", nops, 4)


def key_accessor_rule(F, rep):
    """R17.9: the maps of the workspace are keyed by attributes of the stored Definitions. The operation that stores a model (`add`) defines the key vocabulary; every other
    operation must obtain its keys through the same accessors, otherwise a model is stored under one spelling and looked up / deployed under another.  Label propagation:
    labels are born at the accessor methods of dmntk_model's Definitions and read at the key argument of the map operations in the workspace crate."""
    import re
    import taint
    rid = rep.rule("R17.9", "every key of a workspace map that is taken from a Definitions object is obtained through an accessor that `add` also uses for its keys")
    ACC = re.compile(r"^(?:dmntk_model::model::Definitions::|<dmntk_model::model::Definitions as [\w:]+>::)(\w+)$")
    MAPOP = re.compile(r"^std::collections::hash::map::HashMap::<[^>]*>::(insert|get|get_mut|remove|contains_key|entry|remove_entry)$")
    tt = taint.Taint(F, is_source=lambda p: ("acc:" + ACC.match(p).group(1)) if ACC.match(p) else None,
                     is_sink=lambda p: ("map-key", [1]) if MAPOP.match(p) else None)
    for n, b in sorted(F.bodies.items()):
        if n.startswith(W + "::") and b.get("kind") != "closure":
            tt.analyse(n)
    per_op = {}
    for (sname, fn, line), a in tt.site_args.items():
        if not fn.startswith(W + "::"):
            continue
        op = fn[len(W) + 2:].split("::")[0]
        labs = {l[4:] for l in a.get(1, set()) if l.startswith("acc:")}
        per_op.setdefault(op, set()).update(labs)
    # per map: which accessors' values are used as its keys (the map = the Workspace field the receiver designates)
    import mirutil
    from props import c12
    adt = F.adts.get(W)
    fields = [f["name"] for f in adt["variants"][0]["fields"]] if adt else []
    per_map = {}
    for (sname, fn, line), a in tt.site_args.items():
        labs = {l[4:] for l in a.get(1, set()) if l.startswith("acc:")}
        b = F.bodies.get(fn)
        if not labs or b is None:
            continue
        B = mirutil.Body(F, b)
        for bi, c in F.body_calls(b):
            if c.get("line") == line and MAPOP.match(c["f"].get("p") or "") and c["args"]:
                fld = c12.locked_field(B, c["args"][0], fields)
                if fld:
                    per_map.setdefault(fld, set()).update(labs)
    mixed = {m: sorted(ls) for m, ls in per_map.items() if len(ls) > 1}
    if mixed:
        rep.violation(rid, "key-accessors:per-map", "; ".join("the map `%s` is keyed with values of Definitions::%s(): a key obtained through one accessor is looked up in a map that is filled through another"
                                                               % (m, "() and ".join(ls)) for m, ls in sorted(mixed.items())), FILE)
    elif per_map:
        rep.ok(rid, "key-accessors:per-map", "; ".join("%s <- %s()" % (m, list(ls)[0]) for m, ls in sorted(per_map.items())))
    vocab = per_op.get("add", set())
    if not vocab:
        rep.undecided(rid, "key-accessors", "no key of a map operation in Workspace::add derives from a Definitions accessor")
        return
    bad = {op: sorted(ls - vocab) for op, ls in per_op.items() if ls - vocab}
    if bad:
        rep.violation(rid, "key-accessors", "; ".join("Workspace::%s keys a map with Definitions::%s(), which `add` never uses for a key (add uses %s)" % (op, "() / ".join(ls), sorted(vocab))
                                                      for op, ls in sorted(bad.items())), FILE)
    else:
        rep.ok(rid, "key-accessors", "keys taken from Definitions use %s in %s" % (sorted(vocab), sorted(op for op, ls in per_op.items() if ls)))
