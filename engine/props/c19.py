"""C19: text decision tables - the 'never a panic' clause for dmntk_recognizer (DESIGN §3 C19)."""
import re

import mirutil
from props import c05

LEVEL = "other"
CRATES_QUICK = None
CRATES_THOROUGH = None
PID = "C19"
FLOORS = {"quick": dict(bodies=100, sites=100), "thorough": dict(bodies=100, sites=100)}


def run(F, rep, tier):
    roots = [n for n in ("dmntk_recognizer::builder::build", "dmntk_recognizer::canvas::scan", "dmntk_recognizer::recognizer::Recognizer::recognize") if n in F.bodies]
    for n in ("dmntk_recognizer::builder::build", "dmntk_recognizer::recognizer::Recognizer::recognize"):
        if n not in F.bodies:
            rep.rule("R19.1", "anchors")
            rep.missing_anchor("R19.1", n)
    if tier == "thorough":
        roots += [n for n, b in F.bodies.items() if b["_crate"].startswith("dmntk_recognizer") and b.get("vis") == "pub" and b["kind"] != "closure"]
    c05.run_inventory(F, rep, tier, PID, sorted(set(roots)), FLOORS[tier],
                      ("recognising decision tables drawn as text", "the public functions of dmntk_recognizer (build, recognize, ...)"))
    # side condition of the canvas audits: Canvas.content is never restructured outside scan()
    rid = rep.rule("R19.3", "canvas invariant: the character grid is built once in scan() and never restructured afterwards")

    def restructures(b):
        B = mirutil.Body(F, b)
        bad = []
        for bi, c in F.body_calls(b):
            p = c["f"].get("p") or ""
            if re.search(r"alloc::vec::Vec::<.*>::(push|insert|remove|truncate|clear|pop|swap_remove|drain|retain|append|extend|resize|split_off|dedup)$", p) and c["args"]:
                a = c["args"][0]
                ty = B.local_ty(a[1][0]) if a[0] in ("C", "M") else ""
                if "[char;" in ty and "Vec<" in ty:
                    bad.append(p.split("::")[-1])
        return bad

    n = 0
    for name, b in F.bodies.items():
        if not name.startswith("dmntk_recognizer::canvas::Canvas::"):
            continue
        if b["kind"] != "closure":
            n += 1
        bad = restructures(b)
        if bad:
            rep.violation(rid, name, "%s restructures the canvas grid (%s): the bounds argument of every grid access relies on the grid being fixed after scan()" % (name, sorted(set(bad))), b["file"])
        else:
            rep.ok(rid, name, "no push/insert/remove on the grid")
    rep.floor(rid, "Canvas methods (closures not counted)", n, 25)
    scan = F.bodies.get("dmntk_recognizer::canvas::scan")
    if scan is None or not restructures(scan):
        rep.missing_anchor(rid, "positive control: scan() must be recognised as building the grid with Vec::push")
    orientation_rule(F, rep)
    plane_invariant_rule(F, rep)
    from props import c19_glyphs
    c19_glyphs.run(F, rep)
    rep.explanation += " Recognition fidelity (same table as drawn, same result as the XML form) is geometry over run-time grids and is not decided."


def orientation_rule(F, rep):
    """R19.4 (a necessary condition of 'recognised with the same hit policy ... as drawn'): recognize_orientation has one successful exit per table layout;
    each of them must record the same facts about the table. Decided on MIR: the set of Recognizer fields assigned on a path that returns Ok is the same
    for every such path (a layout whose branch forgets `self.hit_policy = ...` silently keeps the default UNIQUE)."""
    rid = rep.rule("R19.4", "every successful exit of Recognizer::recognize_orientation assigns the same set of fields (hit policy, orientation, rule count)")
    name = "dmntk_recognizer::recognizer::Recognizer::recognize_orientation"
    b = F.bodies.get(name)
    adt = F.adts.get("dmntk_recognizer::recognizer::Recognizer")
    if b is None or adt is None:
        rep.missing_anchor(rid, name)
        return
    fnames = [f["name"] for f in adt["variants"][0]["fields"]]
    memo = {}

    def ok_sets(fn, depth=0):
        """the sets of Recognizer fields assigned along the paths of `fn` that return Ok (or a plain value); methods of the recognizer called on self contribute
        what their own successful paths assign (a block of assignments extracted into a helper is the same block)"""
        if fn in memo:
            return memo[fn]
        memo[fn] = {frozenset()}          # recursion: nothing assigned
        bb = F.bodies.get(fn)
        if bb is None or depth > 4:
            return memo[fn]
        blocks = bb["blocks"]

        def effects(bl):
            fs, ret, callee_sets = set(), None, None
            for st in bl["s"]:
                if st[0] != "A":
                    continue
                d = st[1]
                if len(d) >= 3 and d[0] == 1 and d[1] == "*" and isinstance(d[2], list) and d[2][0] == ".":
                    fs.add(d[2][1])
                if d == [0] and st[2][0] == "Agg" and isinstance(st[2][1], list) and st[2][1][0] == "adt" and st[2][1][1].endswith("result::Result"):
                    ret = st[2][1][-1]
            t = bl["t"]
            if t[0] == "call":
                d = t[1].get("dest")
                if d and len(d) >= 3 and d[0] == 1 and d[1] == "*" and isinstance(d[2], list) and d[2][0] == ".":
                    fs.add(d[2][1])
                if d == [0]:
                    ret = "Err" if (t[1]["f"].get("p") or "").endswith("from_residual") else "?"
                p_ = t[1]["f"].get("p") or ""
                if p_.startswith("dmntk_recognizer::recognizer::Recognizer::") and p_ in F.bodies and p_ != fn and t[1].get("args"):
                    cb = F.bodies[p_]
                    if cb.get("argc") and "Recognizer" in F.ty(cb, cb["locals"][1]):
                        callee_sets = ok_sets(p_, depth + 1)
            return fs, ret, callee_sets
        states = {0: {(frozenset(), None)}}
        work = [0]
        oks = set()
        while work:
            x = work.pop()
            fs, ret, cs = effects(blocks[x])
            cur = {(s_ | fs, ret if ret is not None else r) for s_, r in states[x]}
            if cs:
                cur = {(s_ | c_, r) for s_, r in cur for c_ in cs}
            t = blocks[x]["t"]
            if t[0] == "ret":
                oks |= {s_ for s_, r in cur if r in ("Ok", "?", None)}
            for y in mirutil.normal_successors(t):
                old = states.get(y, set())
                new_ = old | cur
                if new_ != old:
                    states[y] = new_
                    work.append(y)
        memo[fn] = oks or {frozenset()}
        return memo[fn]
    oks = {s_ for s_ in ok_sets(name)}
    if oks == {frozenset()}:
        oks = set()
    # fields assigned unconditionally before the branching (placements) are in every set; compare the sets
    if not oks:
        rep.missing_anchor(rid, "an Ok return in recognize_orientation")
        return
    union = frozenset().union(*oks)
    inter = frozenset(union).intersection(*oks)
    rep.floor(rid, "successful exits (distinct field sets are merged)", len(oks), 1)
    if union == inter and len(union) >= 3:
        rep.ok(rid, "ok-paths", "every Ok path assigns %s" % sorted(fnames[i] for i in union))
    elif union != inter:
        rep.violation(rid, "ok-paths", "some successful path of recognize_orientation does not assign %s although the other successful paths do: that layout keeps the default value"
                      % sorted(fnames[i] for i in union - inter), "%s:%s" % (b["file"], b["line"]))
    else:
        rep.missing_anchor(rid, "assignments of hit policy / orientation / rule count in recognize_orientation")


def plane_invariant_rule(F, rep):
    """R19.5: side condition of the plane audits ("the plane is a non-empty rectangle after finalize()"): Plane::finalize (with the private helpers it calls) must
    compare the length of the rows with the plane's width and reject an empty plane, and answer Err when the comparison fails.  An absent test is a violation: about
    two hundred audited index / remove sites in plane.rs argue from this invariant."""
    from facts import find_hir, strip
    rid = rep.rule("R19.5", "plane invariant: Plane::finalize rejects an empty plane and rows whose length differs from the plane's width (what the audited plane sites rely on)")
    P = "dmntk_recognizer::plane::Plane::"
    h = F.hir.get(P + "finalize")
    if h is None:
        rep.missing_anchor(rid, P + "finalize")
        return
    bodies = [h]
    for c, _ in find_hir(h["body"], lambda x: x.get("k") in ("Call", "MethodCall") and (x.get("callee") or "").startswith(P)):
        hh = F.hir.get(c["callee"])
        if hh is not None and hh is not h and F.fns.get(c["callee"], {}).get("vis") != "pub":
            bodies.append(hh)

    def is_len(e):
        """a row length / the plane width: `x.len()`, `self.width()`, or a local initialised with one of them"""
        return bool(find_hir(e, lambda y: y.get("k") == "MethodCall" and (y.get("method") in ("len", "width")))) or \
            (strip(e).get("k") == "Path" and strip(e).get("res") == "local" and strip(e).get("name") in len_locals)
    len_locals = set()
    for b in bodies:
        for st, _ in find_hir(b["body"], lambda x: x.get("k") == "LetStmt" and "e" in x and x["p"].get("k") == "Bind"):
            if find_hir(st["e"], lambda y: y.get("k") == "MethodCall" and y.get("method") in ("len", "width")):
                len_locals.add(st["p"]["name"])
    width_cmp = empty_cmp = False
    for b in bodies:
        for x, _ in find_hir(b["body"], lambda x: x.get("k") == "Binary" and x.get("op") in ("==", "!=", "<", ">", "<=", ">=")):
            a, c = x["a"], x["b"]
            if is_len(a) and is_len(c):
                width_cmp = True
            elif (is_len(a) and strip(c).get("k") == "Lit" and strip(c).get("v") in (0, 1)) or (is_len(c) and strip(a).get("k") == "Lit" and strip(a).get("v") in (0, 1)):
                empty_cmp = True
        if find_hir(b["body"], lambda x: x.get("k") == "MethodCall" and x.get("method") == "is_empty"):
            empty_cmp = True
    errs = find_hir(h["body"], lambda x: (x.get("k") == "Call" and "Ctor" in (x.get("dk") or "") and (x.get("callee") or "").endswith("Result::Err")) or
                    (x.get("k") == "Match" and x.get("src") == "TryDesugar"))
    probs = []
    if not width_cmp:
        probs.append("no comparison of a row's length with the plane's width")
    if not empty_cmp:
        probs.append("no test for an empty plane")
    if not errs:
        probs.append("no Err exit")
    if probs:
        rep.violation(rid, "finalize", "Plane::finalize does not establish the invariant the audited plane sites rely on (%s): pivot / the rule-number scans index and remove "
                      "under the assumption that every row has the plane's width" % "; ".join(probs), "%s:%s" % (h["file"], h["line"]))
    else:
        rep.ok(rid, "finalize", "compares row lengths with the width, rejects the empty plane, has an Err exit")
