"""C19: text decision tables - the 'never a panic' clause for dmntk_recognizer (DESIGN §3 C19)."""
from props import c05

LEVEL = "other"
CRATES_QUICK = None
CRATES_THOROUGH = None
PID = "C19"
FLOORS = {"quick": dict(bodies=100, sites=100), "thorough": dict(bodies=100, sites=100)}


def run(F, rep, tier):
    roots = [n for n in ("dmntk_recognizer::builder::build", "dmntk_recognizer::canvas::scan", "dmntk_recognizer::recognizer::Recognizer::recognize") if n in F.bodies]
    for n in ("dmntk_recognizer::builder::build", "dmntk_recognizer::recognizer::Recognizer::recognize"):
        if n not in F.bodies:
            rep.rule("R19.1", "anchors")
            rep.missing_anchor("R19.1", n)
    if tier == "thorough":
        roots += [n for n, b in F.bodies.items() if b["_crate"].startswith("dmntk_recognizer") and b.get("vis") == "pub" and b["kind"] != "closure"]
    c05.run_inventory(F, rep, tier, PID, sorted(set(roots)), FLOORS[tier],
                      ("recognising decision tables drawn as text", "the public functions of dmntk_recognizer (build, recognize, ...)"))
    rep.explanation += " Recognition fidelity (same table as drawn, same result as the XML form) is geometry over run-time grids and is not decided."
