"""C19: text decision tables - the 'never a panic' clause for dmntk_recognizer (DESIGN §3 C19)."""
import re

import mirutil
from props import c05

LEVEL = "other"
CRATES_QUICK = None
CRATES_THOROUGH = None
PID = "C19"
FLOORS = {"quick": dict(bodies=100, sites=100), "thorough": dict(bodies=100, sites=100)}


def run(F, rep, tier):
    roots = [n for n in ("dmntk_recognizer::builder::build", "dmntk_recognizer::canvas::scan", "dmntk_recognizer::recognizer::Recognizer::recognize") if n in F.bodies]
    for n in ("dmntk_recognizer::builder::build", "dmntk_recognizer::recognizer::Recognizer::recognize"):
        if n not in F.bodies:
            rep.rule("R19.1", "anchors")
            rep.missing_anchor("R19.1", n)
    if tier == "thorough":
        roots += [n for n, b in F.bodies.items() if b["_crate"].startswith("dmntk_recognizer") and b.get("vis") == "pub" and b["kind"] != "closure"]
    c05.run_inventory(F, rep, tier, PID, sorted(set(roots)), FLOORS[tier],
                      ("recognising decision tables drawn as text", "the public functions of dmntk_recognizer (build, recognize, ...)"))
    # side condition of the canvas audits: Canvas.content is never restructured outside scan()
    rid = rep.rule("R19.3", "canvas invariant: the character grid is built once in scan() and never restructured afterwards")

    def restructures(b):
        B = mirutil.Body(F, b)
        bad = []
        for bi, c in F.body_calls(b):
            p = c["f"].get("p") or ""
            if re.search(r"alloc::vec::Vec::<.*>::(push|insert|remove|truncate|clear|pop|swap_remove|drain|retain|append|extend|resize|split_off|dedup)$", p) and c["args"]:
                a = c["args"][0]
                ty = B.local_ty(a[1][0]) if a[0] in ("C", "M") else ""
                if "[char;" in ty and "Vec<" in ty:
                    bad.append(p.split("::")[-1])
        return bad

    n = 0
    for name, b in F.bodies.items():
        if not name.startswith("dmntk_recognizer::canvas::Canvas::"):
            continue
        n += 1
        bad = restructures(b)
        if bad:
            rep.violation(rid, name, "%s restructures the canvas grid (%s): the bounds argument of every grid access relies on the grid being fixed after scan()" % (name, sorted(set(bad))), b["file"])
        else:
            rep.ok(rid, name, "no push/insert/remove on the grid")
    rep.floor(rid, "Canvas methods", n, 40)
    scan = F.bodies.get("dmntk_recognizer::canvas::scan")
    if scan is None or not restructures(scan):
        rep.missing_anchor(rid, "positive control: scan() must be recognised as building the grid with Vec::push")
    rep.explanation += " Recognition fidelity (same table as drawn, same result as the XML form) is geometry over run-time grids and is not decided."
