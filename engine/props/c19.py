"""C19: text decision tables - the 'never a panic' clause for dmntk_recognizer (DESIGN §3 C19)."""
import re

import mirutil
from props import c05

LEVEL = "other"
CRATES_QUICK = None
CRATES_THOROUGH = None
PID = "C19"
FLOORS = {"quick": dict(bodies=100, sites=100), "thorough": dict(bodies=100, sites=100)}


def run(F, rep, tier):
    roots = [n for n in ("dmntk_recognizer::builder::build", "dmntk_recognizer::canvas::scan", "dmntk_recognizer::recognizer::Recognizer::recognize") if n in F.bodies]
    for n in ("dmntk_recognizer::builder::build", "dmntk_recognizer::recognizer::Recognizer::recognize"):
        if n not in F.bodies:
            rep.rule("R19.1", "anchors")
            rep.missing_anchor("R19.1", n)
    if tier == "thorough":
        roots += [n for n, b in F.bodies.items() if b["_crate"].startswith("dmntk_recognizer") and b.get("vis") == "pub" and b["kind"] != "closure"]
    c05.run_inventory(F, rep, tier, PID, sorted(set(roots)), FLOORS[tier],
                      ("recognising decision tables drawn as text", "the public functions of dmntk_recognizer (build, recognize, ...)"))
    # side condition of the canvas audits: Canvas.content is never restructured outside scan()
    rid = rep.rule("R19.3", "canvas invariant: the character grid is built once in scan() and never restructured afterwards")

    def restructures(b):
        B = mirutil.Body(F, b)
        bad = []
        for bi, c in F.body_calls(b):
            p = c["f"].get("p") or ""
            if re.search(r"alloc::vec::Vec::<.*>::(push|insert|remove|truncate|clear|pop|swap_remove|drain|retain|append|extend|resize|split_off|dedup)$", p) and c["args"]:
                a = c["args"][0]
                ty = B.local_ty(a[1][0]) if a[0] in ("C", "M") else ""
                if "[char;" in ty and "Vec<" in ty:
                    bad.append(p.split("::")[-1])
        return bad

    n = 0
    for name, b in F.bodies.items():
        if not name.startswith("dmntk_recognizer::canvas::Canvas::"):
            continue
        if b["kind"] != "closure":
            n += 1
        bad = restructures(b)
        if bad:
            rep.violation(rid, name, "%s restructures the canvas grid (%s): the bounds argument of every grid access relies on the grid being fixed after scan()" % (name, sorted(set(bad))), b["file"])
        else:
            rep.ok(rid, name, "no push/insert/remove on the grid")
    rep.floor(rid, "Canvas methods (closures not counted)", n, 25)
    scan = F.bodies.get("dmntk_recognizer::canvas::scan")
    if scan is None or not restructures(scan):
        rep.missing_anchor(rid, "positive control: scan() must be recognised as building the grid with Vec::push")
    orientation_rule(F, rep)
    plane_invariant_rule(F, rep)
    nonempty_grid_rule(F, rep)
    from props import c19_glyphs
    c19_glyphs.run(F, rep)
    rep.explanation += " Recognition fidelity (same table as drawn, same result as the XML form) is geometry over run-time grids and is not decided."


def orientation_rule(F, rep):
    """R19.4 (a necessary condition of 'recognised with the same hit policy ... as drawn'): recognize_orientation has one successful exit per table layout;
    each of them must record the same facts about the table. Decided on MIR: the set of Recognizer fields assigned on a path that returns Ok is the same
    for every such path (a layout whose branch forgets `self.hit_policy = ...` silently keeps the default UNIQUE)."""
    rid = rep.rule("R19.4", "every successful exit of Recognizer::recognize_orientation assigns the same set of fields (hit policy, orientation, rule count)")
    name = "dmntk_recognizer::recognizer::Recognizer::recognize_orientation"
    b = F.bodies.get(name)
    adt = F.adts.get("dmntk_recognizer::recognizer::Recognizer")
    if b is None or adt is None:
        rep.missing_anchor(rid, name)
        return
    fnames = [f["name"] for f in adt["variants"][0]["fields"]]
    memo = {}

    def ok_sets(fn, depth=0):
        """the sets of Recognizer fields assigned along the paths of `fn` that return Ok (or a plain value); methods of the recognizer called on self contribute
        what their own successful paths assign (a block of assignments extracted into a helper is the same block)"""
        if fn in memo:
            return memo[fn]
        memo[fn] = {frozenset()}          # recursion: nothing assigned
        bb = F.bodies.get(fn)
        if bb is None or depth > 4:
            return memo[fn]
        blocks = bb["blocks"]

        def effects(bl):
            fs, ret, callee_sets = set(), None, None
            for st in bl["s"]:
                if st[0] != "A":
                    continue
                d = st[1]
                if len(d) >= 3 and d[0] == 1 and d[1] == "*" and isinstance(d[2], list) and d[2][0] == ".":
                    fs.add(d[2][1])
                if d == [0] and st[2][0] == "Agg" and isinstance(st[2][1], list) and st[2][1][0] == "adt" and st[2][1][1].endswith("result::Result"):
                    ret = st[2][1][-1]
            t = bl["t"]
            if t[0] == "call":
                d = t[1].get("dest")
                if d and len(d) >= 3 and d[0] == 1 and d[1] == "*" and isinstance(d[2], list) and d[2][0] == ".":
                    fs.add(d[2][1])
                if d == [0]:
                    ret = "Err" if (t[1]["f"].get("p") or "").endswith("from_residual") else "?"
                p_ = t[1]["f"].get("p") or ""
                if p_.startswith("dmntk_recognizer::recognizer::Recognizer::") and p_ in F.bodies and p_ != fn and t[1].get("args"):
                    cb = F.bodies[p_]
                    if cb.get("argc") and "Recognizer" in F.ty(cb, cb["locals"][1]):
                        callee_sets = ok_sets(p_, depth + 1)
            return fs, ret, callee_sets
        states = {0: {(frozenset(), None)}}
        work = [0]
        oks = set()
        while work:
            x = work.pop()
            fs, ret, cs = effects(blocks[x])
            cur = {(s_ | fs, ret if ret is not None else r) for s_, r in states[x]}
            if cs:
                cur = {(s_ | c_, r) for s_, r in cur for c_ in cs}
            t = blocks[x]["t"]
            if t[0] == "ret":
                oks |= {s_ for s_, r in cur if r in ("Ok", "?", None)}
            for y in mirutil.normal_successors(t):
                old = states.get(y, set())
                new_ = old | cur
                if new_ != old:
                    states[y] = new_
                    work.append(y)
        memo[fn] = oks or {frozenset()}
        return memo[fn]
    oks = {s_ for s_ in ok_sets(name)}
    if oks == {frozenset()}:
        oks = set()
    # fields assigned unconditionally before the branching (placements) are in every set; compare the sets
    if not oks:
        rep.missing_anchor(rid, "an Ok return in recognize_orientation")
        return
    union = frozenset().union(*oks)
    inter = frozenset(union).intersection(*oks)
    rep.floor(rid, "successful exits (distinct field sets are merged)", len(oks), 1)
    if union == inter and len(union) >= 3:
        rep.ok(rid, "ok-paths", "every Ok path assigns %s" % sorted(fnames[i] for i in union))
    elif union != inter:
        rep.violation(rid, "ok-paths", "some successful path of recognize_orientation does not assign %s although the other successful paths do: that layout keeps the default value"
                      % sorted(fnames[i] for i in union - inter), "%s:%s" % (b["file"], b["line"]))
    else:
        rep.missing_anchor(rid, "assignments of hit policy / orientation / rule count in recognize_orientation")


def plane_invariant_rule(F, rep):
    """R19.5: side condition of the plane audits ("the plane is a non-empty rectangle after finalize()"): Plane::finalize (with the private helpers it calls) must
    compare the length of the rows with the plane's width and reject an empty plane, and answer Err when the comparison fails.  An absent test is a violation: about
    two hundred audited index / remove sites in plane.rs argue from this invariant."""
    from facts import find_hir, strip
    rid = rep.rule("R19.5", "plane invariant: Plane::finalize rejects an empty plane and rows whose length differs from the plane's width (what the audited plane sites rely on)")
    P = "dmntk_recognizer::plane::Plane::"
    h = F.hir.get(P + "finalize")
    if h is None:
        rep.missing_anchor(rid, P + "finalize")
        return
    bodies = [h]
    for c, _ in find_hir(h["body"], lambda x: x.get("k") in ("Call", "MethodCall") and (x.get("callee") or "").startswith(P)):
        hh = F.hir.get(c["callee"])
        if hh is not None and hh is not h and F.fns.get(c["callee"], {}).get("vis") != "pub":
            bodies.append(hh)

    def is_len(e):
        """a row length / the plane width: `x.len()`, `self.width()`, or a local initialised with one of them"""
        return bool(find_hir(e, lambda y: y.get("k") == "MethodCall" and (y.get("method") in ("len", "width")))) or \
            (strip(e).get("k") == "Path" and strip(e).get("res") == "local" and strip(e).get("name") in len_locals)
    len_locals = set()
    for b in bodies:
        for st, _ in find_hir(b["body"], lambda x: x.get("k") == "LetStmt" and "e" in x and x["p"].get("k") == "Bind"):
            if find_hir(st["e"], lambda y: y.get("k") == "MethodCall" and y.get("method") in ("len", "width")):
                len_locals.add(st["p"]["name"])
    width_cmp = empty_cmp = False
    for b in bodies:
        for x, _ in find_hir(b["body"], lambda x: x.get("k") == "Binary" and x.get("op") in ("==", "!=", "<", ">", "<=", ">=")):
            a, c = x["a"], x["b"]
            if is_len(a) and is_len(c):
                width_cmp = True
            elif (is_len(a) and strip(c).get("k") == "Lit" and strip(c).get("v") in (0, 1)) or (is_len(c) and strip(a).get("k") == "Lit" and strip(a).get("v") in (0, 1)):
                empty_cmp = True
        if find_hir(b["body"], lambda x: x.get("k") == "MethodCall" and x.get("method") == "is_empty"):
            empty_cmp = True
    errs = find_hir(h["body"], lambda x: (x.get("k") == "Call" and "Ctor" in (x.get("dk") or "") and (x.get("callee") or "").endswith("Result::Err")) or
                    (x.get("k") == "Match" and x.get("src") == "TryDesugar"))
    probs = []
    if not width_cmp:
        probs.append("no comparison of a row's length with the plane's width")
    if not empty_cmp:
        probs.append("no test for an empty plane")
    if not errs:
        probs.append("no Err exit")
    if probs:
        rep.violation(rid, "finalize", "Plane::finalize does not establish the invariant the audited plane sites rely on (%s): pivot / the rule-number scans index and remove "
                      "under the assumption that every row has the plane's width" % "; ".join(probs), "%s:%s" % (h["file"], h["line"]))
    else:
        rep.ok(rid, "finalize", "compares row lengths with the width, rejects the empty plane, has an Err exit")


SHRINKING = ("clear", "pop", "truncate", "remove", "drain", "retain", "retain_mut", "split_off", "swap_remove", "resize", "resize_with", "dedup", "dedup_by", "dedup_by_key", "take")


def mut_ref_of(a):
    """name of the local an argument `&mut local` refers to"""
    while isinstance(a, dict) and a.get("k") in ("DropTemps", "Paren"):
        a = a.get("e")
    if isinstance(a, dict) and a.get("k") == "AddrOf" and a.get("mut"):
        t = a.get("e")
        while isinstance(t, dict) and t.get("k") in ("DropTemps", "Paren"):
            t = t.get("e")
        if isinstance(t, dict) and t.get("k") == "Path" and t.get("res") == "local":
            return t.get("name")
    return None


def nonempty_grid_rule(F, rep):
    """R19.8: Canvas::move_to clamps a point into the grid and then reads `self.content[y]` - with `y = 0` when the grid has no row, so a canvas without rows panics on the
    first cursor movement (recognize_information_item_name runs on every scanned text). The audited bounds arguments of the canvas sites start from a grid with at least
    one row; that premise is decided where the grid is made: in every function that builds a Canvas literal, the vector given as `content` starts non-empty
    (`vec![vec![]]`) and is never shrunk or replaced, or the literal is reached only behind a test of its emptiness."""
    from facts import find_hir, strip
    rid = rep.rule("R19.8", "the grid handed to a Canvas literal has at least one row: it starts from a non-empty vector and is never shrunk, or its emptiness is tested before (move_to reads content[0] on an empty grid)")
    n = 0
    for name, h in sorted(F.hir.items()):
        if not name.startswith("dmntk_recognizer::"):
            continue
        for lit, _ in find_hir(h["body"], lambda x: x.get("k") == "Struct" and str(x.get("path") or "").endswith("canvas::Canvas")):
            fields = {f["name"]: f["e"] for f in lit.get("fields", [])}
            if "content" not in fields:
                continue
            n += 1
            short = name.split("::")[-1]
            key = "grid:%s" % short
            where = "%s:%s" % (h["file"], lit.get("l"))
            e = strip(fields["content"])
            if not (e.get("k") == "Path" and e.get("res") == "local"):
                rep.undecided(rid, key, "the grid of the Canvas literal is not a local vector")
                continue
            loc = e["name"]
            lets = [st for st, _ in find_hir(h["body"], lambda x: x.get("k") == "LetStmt" and x.get("p", {}).get("k") == "Bind" and x["p"].get("name") == loc)]
            assigns = [a for a, _ in find_hir(h["body"], lambda x: x.get("k") == "Assign" and isinstance(x.get("a"), dict) and strip(x["a"]).get("name") == loc)]
            if len(lets) != 1 or "e" not in lets[0] or assigns:
                rep.undecided(rid, key, "the grid local `%s` is bound or assigned more than once" % loc)
                continue
            init = lets[0]["e"]
            arrays = find_hir(init, lambda x: x.get("k") == "Array" and x.get("m") == "vec!")
            from_elem = [c for c, _ in find_hir(init, lambda x: x.get("k") == "Call" and str(x.get("callee") or "").endswith("vec::from_elem") and len(x.get("args", [])) == 2)]
            empty_ctor = strip(init).get("k") == "Call" and re.search(r"vec::Vec::<.*>::(new|with_capacity)$|Default::default$", str(strip(init).get("callee") or "")) is not None
            starts_nonempty = any(len(a.get("es", [])) >= 1 for a, _ in arrays) or \
                any(strip(c["args"][1]).get("k") == "Lit" and isinstance(strip(c["args"][1]).get("v"), int) and strip(c["args"][1])["v"] >= 1 for c in from_elem)

            def on_local(x):
                r = x.get("recv")
                while isinstance(r, dict) and r.get("k") in ("AddrOf", "Unary", "DropTemps", "Paren"):
                    r = r.get("e") or r.get("a")
                return isinstance(r, dict) and r.get("k") == "Path" and r.get("res") == "local" and r.get("name") == loc
            calls = find_hir(h["body"], lambda x: x.get("k") == "MethodCall" and on_local(x))
            shrink = sorted({c["method"] for c, _ in calls if c.get("method") in SHRINKING})
            tested = [c for c, ps in calls if c.get("method") in ("is_empty", "len") and any(q.get("k") in ("If", "Match") for q in ps if isinstance(q, dict))]
            moved = [c for c, _ in find_hir(h["body"], lambda x: x.get("k") == "Call" and not str(x.get("callee") or "").endswith("::into_iter") and any(
                mut_ref_of(a) == loc for a in x.get("args", [])))]
            top_push = [c for c, ps in calls if c.get("method") in ("push", "insert") and not any(
                isinstance(q, dict) and q.get("k") in ("If", "Match", "Loop", "Closure") for q in ps)]
            if starts_nonempty and not shrink and not moved:
                rep.ok(rid, key, "`%s` starts with a row and is only grown (%d method calls on it)" % (loc, len(calls)))
            elif tested and not shrink:
                rep.ok(rid, key, "the emptiness of `%s` is tested before the canvas is built" % loc)
            elif top_push and not shrink and not moved:
                rep.ok(rid, key, "`%s` receives a row unconditionally" % loc)
            elif empty_ctor and not tested and not moved and not arrays:
                rep.violation(rid, key, "%s builds the canvas from a grid that starts empty (`%s`), receives rows only inside loops / conditions and is never tested for emptiness: for a text "
                              "without a drawing the canvas has no row, and Canvas::move_to reads `self.content[0]` (y is clamped to 0 when there is no row) - a panic instead of an error"
                              % (short, loc), where)
            else:
                rep.undecided(rid, key, "the grid `%s` is neither visibly non-empty nor visibly empty (shrinking calls: %s)" % (loc, shrink or "none"))
    rep.floor(rid, "Canvas literals", n, 1)
