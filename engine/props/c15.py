"""C15 (clauses): the calendar and unit tables the temporal arithmetic is built on - month lengths, leap-year rule, unit constants, year range -
and the comparison core shared with C09 (compare() answers, mirror symmetry of compare()/subtract()).  Values of date arithmetic are not decided."""
import json
import re

from facts import find_hir, strip

LEVEL = "other"
CRATES_QUICK = ["dmntk_feel", "dmntk_feel_evaluator", "dmntk_feel_number"]
CRATES_THOROUGH = None
T = "dmntk_feel::temporal::"

# unit relations (SI / Gregorian calendar): name -> value
UNIT_CONSTANTS = {
    "NANOSECONDS_IN_SECOND": 10 ** 9, "NANOSECONDS_IN_MINUTE": 60 * 10 ** 9, "NANOSECONDS_IN_HOUR": 3600 * 10 ** 9, "NANOSECONDS_IN_DAY": 86400 * 10 ** 9,
    "NANOS_IN_SECOND": 10 ** 9, "SECONDS_IN_HOUR": 3600, "SECONDS_IN_MIN": 60, "SECONDS_IN_MINUTE": 60, "SECONDS_IN_DAY": 86400, "MONTHS_IN_YEAR": 12,
    "MINUTES_IN_HOUR": 60, "HOURS_IN_DAY": 24,
}
MONTH_LENGTHS = {1: 31, 3: 31, 5: 31, 7: 31, 8: 31, 10: 31, 12: 31, 4: 30, 6: 30, 9: 30, 11: 30}


def const_eval(F, e, depth=0):
    """value of a constant expression made of integer literals, + - * / and references to other constants"""
    e = strip(e)
    k = e.get("k")
    if k == "Lit" and isinstance(e.get("v"), int):
        return e["v"]
    if k == "Unary" and e.get("op") == "-":
        v = const_eval(F, e["a"], depth)
        return -v if v is not None else None
    if k == "Cast":
        return const_eval(F, e["e"], depth)
    if k == "Binary" and e.get("op") in ("*", "+", "-", "/"):
        a, b = const_eval(F, e["a"], depth), const_eval(F, e["b"], depth)
        if a is None or b is None:
            return None
        return {"*": a * b, "+": a + b, "-": a - b, "/": a // b if b else None}[e["op"]]
    if k == "Path" and e.get("res") == "def" and depth < 6:
        h = F.hir.get(e.get("path"))
        if h is not None and h.get("kind") == "const":
            return const_eval(F, h["body"], depth + 1)
    return None


def canon(e, params):
    """name-independent rendering of a small boolean / arithmetic expression over the function's parameters"""
    e = strip(e)
    k = e.get("k")
    if k == "Lit":
        return str(e.get("v"))
    if k == "Path" and e.get("res") == "local":
        return "p%d" % params.index(e["name"]) if e["name"] in params else e["name"]
    if k == "Binary":
        a, b, op = canon(e["a"], params), canon(e["b"], params), e["op"]
        if op in ("&&", "||", "==", "!=", "+", "*") and b < a:
            a, b = b, a
        return "(%s%s%s)" % (a, op, b)
    if k == "Unary":
        return "(%s%s)" % (e["op"], canon(e["a"], params))
    if k == "Block" and not e["b"].get("stmts") and e["b"].get("e") is not None:
        return canon(e["b"]["e"], params)
    if k == "Cast":
        return canon(e["e"], params)
    return k


def run(F, rep, tier):
    rep.explanation = ("Calendar behaviour over all dates is value-level and is not decided. Decided are the finite tables and formulas it rests on - the length of "
                       "every month, the Gregorian leap-year rule, the unit constants (nanoseconds per second ... day, months per year), the accepted year range - "
                       "compared with the calendar itself, and the comparison core: equal / before / after / between answer exactly as compare()'s ordering "
                       "prescribes and compare() / subtract() treat both operands alike (the rules of C09 re-evaluated, because ordering and subtraction of dates "
                       "and date-times are this property's clauses too).")
    rep.assumptions += ["chrono's calendar arithmetic", "values of date / duration arithmetic for any concrete operands"]
    unit_constants_rule(F, rep)
    calendar_tables_rule(F, rep)
    date_validity_rule(F, rep)
    offset_rule(F, rep)
    # ---------------- comparison core (shared with C09)
    from props import c09
    c09.temporal_order_rule(F, rep)
    c09.mirror_rule(F, rep)


def unit_constants_rule(F, rep):
    r1 = rep.rule("R15.1", "unit constants of the temporal modules have their SI / calendar values (after constant folding)")
    # ---------------- R15.1
    n = 0
    for name, h in sorted(F.hir.items()):
        if h.get("kind") != "const" or not name.startswith(T):
            continue
        short = name.split("::")[-1]
        if short not in UNIT_CONSTANTS:
            continue
        n += 1
        v = const_eval(F, h["body"])
        key = "const:%s" % name[len(T):]
        if v == UNIT_CONSTANTS[short]:
            rep.ok(r1, key, "%s = %d" % (short, v))
        else:
            rep.violation(r1, key, "%s evaluates to %s, the unit relation is %d" % (name, v, UNIT_CONSTANTS[short]), "%s:%s" % (h["file"], h["line"]))
    rep.floor(r1, "unit constants", n, 6)


def calendar_tables_rule(F, rep):
    r2 = rep.rule("R15.2", "last_day_of_month is the Gregorian table (31/30 days, February 28 or 29 by is_leap_year) and is_leap_year is divisible by 4 and (not by 100 or by 400)")
    # ---------------- R15.2
    lm = F.hir.get(T + "date::last_day_of_month")
    if lm is None:
        rep.missing_anchor(r2, T + "date::last_day_of_month")
    else:
        table, feb, other = {}, None, None
        for m, _ in find_hir(lm["body"], lambda x: x.get("k") == "Match" and x.get("src") == "Normal"):
            for arm in m["arms"]:
                months = []

                def pat(p):
                    if p.get("k") == "Or":
                        for q in p["ps"]:
                            pat(q)
                    elif p.get("k") == "Lit" and isinstance(p.get("v"), int):
                        months.append(p["v"])
                    elif p.get("k") == "Range" and isinstance(p.get("lo", {}).get("v"), int) and isinstance(p.get("hi", {}).get("v"), int):
                        months.extend(range(p["lo"]["v"], p["hi"]["v"] + (1 if p.get("end") == "Included" else 0)))
                pat(arm["p"])
                b = strip(arm["b"])
                val = None
                if b.get("k") == "Call" and (b.get("callee") or "").endswith("Option::Some") and b.get("args"):
                    a = strip(b["args"][0])
                    if a.get("k") == "Lit":
                        val = a.get("v")
                    elif a.get("k") == "If":
                        c = strip(a["c"])
                        t, e = strip(a["then"]), strip(a.get("else", {}))
                        tv = strip(t["b"]["e"]).get("v") if t.get("k") == "Block" and t["b"].get("e") else t.get("v")
                        evv = strip(e["b"]["e"]).get("v") if e.get("k") == "Block" and e["b"].get("e") else e.get("v")
                        val = ("leap", (c.get("callee") or "").split("::")[-1], tv, evv)
                if not months and arm["p"].get("k") in ("Wild", "Bind"):
                    other = "none" if (b.get("k") == "Path" and (b.get("path") or "").endswith("Option::None")) else "some"
                for mo in months:
                    table[mo] = val
        probs = []
        for mo, days in MONTH_LENGTHS.items():
            if table.get(mo) != days:
                probs.append("month %d has %s days" % (mo, table.get(mo)))
        if table.get(2) != ("leap", "is_leap_year", 29, 28):
            probs.append("February is %s, expected 29 days when is_leap_year(year) else 28" % (table.get(2),))
        if sorted(table) != list(range(1, 13)):
            probs.append("months covered: %s" % sorted(table))
        if other != "none":
            probs.append("a month outside 1..12 does not yield None")
        if probs:
            rep.violation(r2, "month-lengths", "; ".join(probs), "%s:%s" % (lm["file"], lm["line"]))
        else:
            rep.ok(r2, "month-lengths", "12 months, February by is_leap_year, None otherwise")
    ly = F.hir.get(T + "date::is_leap_year")
    if ly is None:
        rep.missing_anchor(r2, T + "date::is_leap_year")
    else:
        params = [p.get("name") for p in ly.get("params", [])]
        got = canon(ly["body"], params)
        want = {"(((p0%100)!=0)||((p0%400)==0))&&((p0%4)==0)", "(((p0%4)==0)&&(((p0%100)!=0)||((p0%400)==0)))", "(((p0%100)!=0)||((p0%400)==0)&&((p0%4)==0))"}
        norm = got.replace(" ", "")
        # canonical ordering puts the smaller string first; accept the two orders of the conjunction
        ok = norm in {"(((p0%4)==0)&&(((p0%100)!=0)||((p0%400)==0)))", "((((p0%100)!=0)||((p0%400)==0))&&((p0%4)==0))"} or norm in want
        if ok:
            rep.ok(r2, "leap-year", "year % 4 == 0 && (year % 100 != 0 || year % 400 == 0)")
        else:
            rep.violation(r2, "leap-year", "is_leap_year computes %s; the Gregorian rule is year %% 4 == 0 && (year %% 100 != 0 || year %% 400 == 0)" % got, "%s:%s" % (ly["file"], ly["line"]))


def date_validity_rule(F, rep):
    r3 = rep.rule("R15.3", "date validity: the fallback range of years is -999999999..999999999 and the day is compared with the month's last day")
    # ---------------- R15.3
    vd = F.hir.get(T + "date::is_valid_date")
    if vd is None:
        rep.missing_anchor(r3, T + "date::is_valid_date")
    else:
        lits = sorted({const_eval(F, x) for x, _ in find_hir(vd["body"], lambda x: x.get("k") in ("Lit", "Unary")) if isinstance(const_eval(F, x), int) and abs(const_eval(F, x)) > 10 ** 6})
        if lits == [-999999999, 999999999]:
            rep.ok(r3, "year-range", "years -999999999 ..= 999999999")
        else:
            rep.violation(r3, "year-range", "is_valid_date bounds the year by %s, the FEEL range is -999999999..999999999" % lits, "%s:%s" % (vd["file"], vd["line"]))
        cmpd = [x for x, _ in find_hir(vd["body"], lambda x: x.get("k") == "Binary" and x.get("op") in ("<=", "<", ">", ">=") and "last_day_of_month" in json.dumps(x) or
                                       (x.get("k") == "Binary" and x.get("op") in ("<=",) and strip(x["a"]).get("name") == "day"))]
        days = [x for x in cmpd if strip(x["a"]).get("name") == "day" and x.get("op") == "<="]
        if days:
            rep.ok(r3, "day-bound", "day <= last day of the month")
        else:
            rep.violation(r3, "day-bound", "is_valid_date does not compare the day with the month's last day by `day <= last_day_of_month`", "%s:%s" % (vd["file"], vd["line"]))


def offset_rule(F, rep):
    r4 = rep.rule("R15.4", "a UTC offset literal denotes sign * (3600*hours + 60*minutes + seconds): the sign applies to the whole sum; the text form prints the magnitude of minutes and seconds")
    # ---------------- R15.4: UTC offsets
    fz = F.hir.get(T + "zone::FeelZone::from_captures")
    if fz is None:
        rep.missing_anchor(r4, T + "zone::FeelZone::from_captures")
    else:
        def names_canon(e):
            e = strip(e)
            k = e.get("k")
            if k == "Lit":
                return str(e.get("v"))
            if k == "Path":
                return e.get("name") or (e.get("path") or "?").split("::")[-1]
            if k == "Binary":
                a, b, op = names_canon(e["a"]), names_canon(e["b"]), e["op"]
                if op in ("+", "*") and b < a:
                    a, b = b, a
                return "(%s%s%s)" % (a, op, b)
            if k == "Unary":
                return "(%s%s)" % (e["op"], names_canon(e["a"]))
            if k in ("Cast",):
                return names_canon(e["e"])
            return k
        inits = [(st["p"]["name"], names_canon(st["e"]), st.get("l")) for st, _ in find_hir(fz["body"], lambda x: x.get("k") == "LetStmt" and "e" in x and x["p"].get("k") == "Bind"
                                                                                          and strip(x["e"]).get("k") == "Binary")]
        sums = [(n, c, l) for n, c, l in inits if "3600" in c]
        negs = [(strip(a["a"]).get("name"), names_canon(a["b"])) for a, _ in find_hir(fz["body"], lambda x: x.get("k") == "Assign")]
        adds = [(strip(a["a"]).get("name"), names_canon(a["b"])) for a, _ in find_hir(fz["body"], lambda x: x.get("k") == "AssignOp" and x.get("op") in ("+", "+="))]
        probs = []
        if len(sums) != 1:
            probs.append("expected one `3600 * hours + 60 * minutes` sum, found %s" % [c for _, c, _ in sums])
        else:
            var, c, _ = sums[0]
            m = re.match(r"^\(\((3600\*(\w+)|(\w+)\*3600)\)\+\((60\*(\w+)|(\w+)\*60)\)\)$", c) or re.match(r"^\(\((60\*(\w+)|(\w+)\*60)\)\+\((3600\*(\w+)|(\w+)\*3600)\)\)$", c)
            if not m:
                probs.append("the offset is computed as %s, expected 3600*hours + 60*minutes (the sign must not be folded into one of the products)" % c)
            if (var, "(-%s)" % var) not in negs:
                probs.append("the negative sign is not applied to the whole offset (`%s = -%s` missing)" % (var, var))
            if not any(a == var for a, _ in adds) and "seconds" not in c:
                probs.append("offset seconds are not added")
        if probs:
            rep.violation(r4, "offset:parse", "; ".join(probs), "%s:%s" % (fz["file"], fz["line"]))
        else:
            rep.ok(r4, "offset:parse", "3600*hours + 60*minutes (+ seconds), negated as a whole")
    fd = [h2 for n2, h2 in F.hir.items() if n2.startswith("<" + T + "zone::FeelZone as core::fmt::Display>::fmt")]
    if not fd:
        rep.missing_anchor(r4, "Display for FeelZone")
    else:
        body = fd[0]["body"]
        # minutes and seconds are taken from the magnitude: every `% 60` / `.rem(3600)` / `% 3600` operand chain starts from abs() / unsigned_abs()
        rems = [x for x, _ in find_hir(body, lambda x: (x.get("k") == "Binary" and x.get("op") == "%") or (x.get("k") == "MethodCall" and x.get("method") in ("rem", "rem_euclid")))]
        bad = [x for x in rems if not find_hir(x, lambda y: y.get("k") == "MethodCall" and y.get("method") in ("abs", "unsigned_abs"))]
        if not rems:
            rep.missing_anchor(r4, "minutes / seconds computation in Display for FeelZone")
        elif bad:
            rep.violation(r4, "offset:print", "the minutes / seconds of a UTC offset are computed from the signed offset (line %s): -03:30 prints as -03:-30, which is not a valid literal" % bad[0].get("l"),
                          "%s:%s" % (fd[0]["file"], bad[0].get("l")))
        else:
            rep.ok(r4, "offset:print", "%d remainder(s), all on the magnitude" % len(rems))
