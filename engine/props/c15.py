"""C15 (clauses): the calendar and unit tables the temporal arithmetic is built on - month lengths, leap-year rule, unit constants, year range -
and the comparison core shared with C09 (compare() answers, mirror symmetry of compare()/subtract()).  Values of date arithmetic are not decided."""
import json
import re

from facts import find_hir, strip

LEVEL = "other"
CRATES_QUICK = ["dmntk_feel", "dmntk_feel_evaluator", "dmntk_feel_number"]
CRATES_THOROUGH = None
T = "dmntk_feel::temporal::"

# unit relations (SI / Gregorian calendar): name -> value
UNIT_CONSTANTS = {
    "NANOSECONDS_IN_SECOND": 10 ** 9, "NANOSECONDS_IN_MINUTE": 60 * 10 ** 9, "NANOSECONDS_IN_HOUR": 3600 * 10 ** 9, "NANOSECONDS_IN_DAY": 86400 * 10 ** 9,
    "NANOS_IN_SECOND": 10 ** 9, "SECONDS_IN_HOUR": 3600, "SECONDS_IN_MIN": 60, "SECONDS_IN_MINUTE": 60, "SECONDS_IN_DAY": 86400, "MONTHS_IN_YEAR": 12,
    "MINUTES_IN_HOUR": 60, "HOURS_IN_DAY": 24,
}
MONTH_LENGTHS = {1: 31, 3: 31, 5: 31, 7: 31, 8: 31, 10: 31, 12: 31, 4: 30, 6: 30, 9: 30, 11: 30}


def const_eval(F, e, depth=0):
    """value of a constant expression made of integer literals, + - * / and references to other constants"""
    e = strip(e)
    k = e.get("k")
    if k == "Lit" and isinstance(e.get("v"), int):
        return e["v"]
    if k == "Unary" and e.get("op") == "-":
        v = const_eval(F, e["a"], depth)
        return -v if v is not None else None
    if k == "Cast":
        return const_eval(F, e["e"], depth)
    if k == "Binary" and e.get("op") in ("*", "+", "-", "/"):
        a, b = const_eval(F, e["a"], depth), const_eval(F, e["b"], depth)
        if a is None or b is None:
            return None
        return {"*": a * b, "+": a + b, "-": a - b, "/": a // b if b else None}[e["op"]]
    if k == "Path" and e.get("res") == "def" and depth < 6:
        h = F.hir.get(e.get("path"))
        if h is not None and h.get("kind") == "const":
            return const_eval(F, h["body"], depth + 1)
    return None


def canon(e, params):
    """name-independent rendering of a small boolean / arithmetic expression over the function's parameters"""
    e = strip(e)
    k = e.get("k")
    if k == "Lit":
        return str(e.get("v"))
    if k == "Path" and e.get("res") == "local":
        return "p%d" % params.index(e["name"]) if e["name"] in params else e["name"]
    if k == "Binary":
        a, b, op = canon(e["a"], params), canon(e["b"], params), e["op"]
        if op in ("&&", "||", "==", "!=", "+", "*") and b < a:
            a, b = b, a
        return "(%s%s%s)" % (a, op, b)
    if k == "Unary":
        return "(%s%s)" % (e["op"], canon(e["a"], params))
    if k == "Block" and not e["b"].get("stmts") and e["b"].get("e") is not None:
        return canon(e["b"]["e"], params)
    if k == "Cast":
        return canon(e["e"], params)
    return k


def run(F, rep, tier):
    rep.explanation = ("Calendar behaviour over all dates is value-level and is not decided. Decided are the finite tables and formulas it rests on - the length of "
                       "every month, the Gregorian leap-year rule, the unit constants (nanoseconds per second ... day, months per year), the accepted year range - "
                       "compared with the calendar itself, and the comparison core: equal / before / after / between answer exactly as compare()'s ordering "
                       "prescribes and compare() / subtract() treat both operands alike (the rules of C09 re-evaluated, because ordering and subtraction of dates "
                       "and date-times are this property's clauses too).")
    rep.assumptions += ["chrono's calendar arithmetic", "values of date / duration arithmetic for any concrete operands"]
    unit_constants_rule(F, rep)
    calendar_tables_rule(F, rep)
    date_validity_rule(F, rep)
    offset_rule(F, rep)
    components_rule(F, rep)
    whole_months_rule(F, rep, tier)
    wall_clock_rule(F, rep)
    date_components_rule(F, rep)
    instants_rule(F, rep)
    # the properties of a date-and-time (time offset, timezone) are those at the value's own date: its time component never reaches the zone-at-today operations (C13's R13.6)
    import callgraph
    from props import c13
    c13.datetime_component_rule(F, callgraph.CallGraph(F), rep)
    # ---------------- comparison core (shared with C09)
    from props import c09
    c09.temporal_order_rule(F, rep)
    c09.mirror_rule(F, rep)


def unit_constants_rule(F, rep):
    r1 = rep.rule("R15.1", "unit constants of the temporal modules have their SI / calendar values (after constant folding)")
    # ---------------- R15.1
    n = 0
    for name, h in sorted(F.hir.items()):
        if h.get("kind") != "const" or not name.startswith(T):
            continue
        short = name.split("::")[-1]
        if short not in UNIT_CONSTANTS:
            continue
        n += 1
        v = const_eval(F, h["body"])
        key = "const:%s" % name[len(T):]
        if v == UNIT_CONSTANTS[short]:
            rep.ok(r1, key, "%s = %d" % (short, v))
        else:
            rep.violation(r1, key, "%s evaluates to %s, the unit relation is %d" % (name, v, UNIT_CONSTANTS[short]), "%s:%s" % (h["file"], h["line"]))
    rep.floor(r1, "unit constants", n, 6)


def fns_named(F, simple, prefix="dmntk_feel::"):
    """functions of that simple name anywhere below the prefix (a function may move between modules)"""
    return sorted(n for n, h in F.hir.items() if n.startswith(prefix) and n.split("::")[-1] == simple and h.get("kind") in ("fn", "method", "assoc_fn", None) and "body" in h and "::{closure" not in n)


def fold(F, name, args, hook=None, inline=None):
    """outcomes [(conds, value)] of the function on abstract / enumerated arguments, None when the evaluator gives up"""
    from hireval import Evaluator, TooManyPaths
    ev = Evaluator(F, call_hook=hook, ints=True, inline=inline or set(), max_paths=2000)
    try:
        return ev.run_fn(name, args), ev
    except (TooManyPaths, ValueError, KeyError, RecursionError):
        return None, ev


def single(outs):
    """the one concrete outcome of a folded call, or None"""
    if not outs:
        return None
    vals = {repr(v) for _, v in outs}
    return outs[0][1] if len(vals) == 1 else None


def opt_int(v):
    """Some(k) -> k, None -> 'none', anything else -> None"""
    if v is None:
        return None
    if v[0] == "v" and v[1] == "None":
        return "none"
    if v[0] == "v" and v[1] == "Some" and v[2] and v[2][0][0] == "lit" and isinstance(v[2][0][1], int):
        return v[2][0][1]
    return None


def calendar_tables_rule(F, rep):
    r2 = rep.rule("R15.2", "last_day_of_month folds to the Gregorian table for every month number 0..255 (31/30 days, February 29 when is_leap_year else 28, None outside 1..12); "
                           "is_leap_year folds to `divisible by 4 and (not by 100 or by 400)` on every residue class of the year modulo 400, both signs")
    # ---------------- R15.2: table extraction by folding the function on each element of its finite (u8) / periodic (mod 400) domain
    lms = fns_named(F, "last_day_of_month")
    if not lms:
        rep.missing_anchor(r2, "a function last_day_of_month in dmntk_feel")
    for lm in lms:
        h = F.hir[lm]
        probs, und = [], []
        for leap in (True, False):
            def hook(callee, args, s, leap=leap):
                if (callee or "").split("::")[-1] == "is_leap_year":
                    return ("bool", leap)
                return None
            for m in range(0, 256):
                outs, _ = fold(F, lm, [("sym", "year"), ("lit", m)], hook)
                got = opt_int(single(outs))
                want = MONTH_LENGTHS.get(m, (29 if leap else 28) if m == 2 else "none")
                if got is None:
                    und.append(m)
                elif got != want:
                    probs.append("month %d%s has %s days (calendar: %s)" % (m, " of a leap year" if m == 2 and leap else "", got, want))
        key = "month-lengths" if len(lms) == 1 else "month-lengths:%s" % lm
        if probs:
            rep.violation(r2, key, "; ".join(probs[:4]), "%s:%s" % (h["file"], h["line"]))
        elif und:
            rep.undecided(r2, key, "%s does not fold to a constant for month(s) %s" % (lm, und[:5]))
        else:
            rep.ok(r2, key, "256 month numbers x leap / common year folded: 12 months, February by is_leap_year, None otherwise")
    lys = fns_named(F, "is_leap_year")
    if not lys:
        rep.missing_anchor(r2, "a function is_leap_year in dmntk_feel")
    for ly in lys:
        h = F.hir[ly]
        # congruence abstraction: the Gregorian rule and every `year % k` with k | 400 are constant on (sign, |year| mod 400) classes; the function may
        # use the year only as the left operand of such remainders (checked), so folding one representative per class decides all years
        uses_ok = True
        pname = (h.get("params") or [{}])[0].get("name")
        for x, par in find_hir(h["body"], lambda x: x.get("k") == "Path" and x.get("res") == "local" and x.get("name") == pname):
            q = [y for y in par if y.get("k") not in ("Cast", "AddrOf", "Block")]
            parent = q[-1] if q else {}
            div = const_eval(F, parent.get("b", {})) if parent.get("k") == "Binary" and parent.get("op") == "%" else \
                (const_eval(F, parent["args"][0]) if parent.get("k") == "MethodCall" and parent.get("method") in ("rem", "rem_euclid") and parent.get("args") else None)
            if not (isinstance(div, int) and div > 0 and 400 % div == 0):
                uses_ok = False
        probs, und = [], []
        if True:
            # a residue whose folded answer differs is a counterexample whether or not the abstraction's precondition holds; the precondition is
            # only needed to conclude that agreement on the representatives means agreement on all years
            for y in list(range(-399, 400)) + [-2400, -2100, -2001, -1900, -401, -400, 400, 401, 1900, 2000, 2100, 2400]:
                outs, _ = fold(F, ly, [("lit", y)])
                got = single(outs)
                want = (y % 4 == 0) and (y % 100 != 0 or y % 400 == 0)
                if got is None or got[0] != "bool":
                    und.append(y)
                elif got[1] != want:
                    probs.append("year %d is %sa leap year" % (y, "" if got[1] else "not "))
        key = "leap-year" if len(lys) == 1 else "leap-year:%s" % ly
        if probs:
            rep.violation(r2, key, "%s: %s; the Gregorian rule is year %% 4 == 0 && (year %% 100 != 0 || year %% 400 == 0)" % (ly, "; ".join(probs[:4])), "%s:%s" % (h["file"], h["line"]))
        elif und or not uses_ok:
            rep.undecided(r2, key, "%s %s" % (ly, "agrees on all representatives but uses the year other than in `year % k` with k dividing 400, so they do not stand for all years" if not uses_ok
                                              else "does not fold to a boolean for residues %s" % und[:5]))
        else:
            rep.ok(r2, key, "799 residue classes (sign, |year| mod 400) folded: year % 4 == 0 && (year % 100 != 0 || year % 400 == 0)")


def compared_only(F, h, pname):
    """the parameter is used only as an operand of comparisons with constants, in match scrutinees / tuples, in range tests or as a call argument -
    then the function is constant on the cells cut out by those constants and one representative per cell decides it"""
    for x, par in find_hir(h["body"], lambda x: x.get("k") == "Path" and x.get("res") == "local" and x.get("name") == pname):
        q = [y for y in par if y.get("k") not in ("Cast", "AddrOf", "Block") and not (y.get("k") == "Unary" and y.get("op") == "*")]
        parent = q[-1] if q else {}
        k = parent.get("k")
        if k == "Binary" and parent.get("op") in ("<", "<=", ">", ">=", "==", "!="):
            other = parent["b"] if find_hir(parent["a"], lambda y: y is x) else parent["a"]
            if const_eval(F, other) is None and not (strip(other).get("k") == "Path" and strip(other).get("res") == "local"):
                return False
        elif k in ("Tup", "Match", "Call", "MethodCall", "Let", "If"):
            continue
        else:
            return False
    return True


def code_constants(F, h):
    """integer constants the function compares with (literals, range-pattern bounds, constant items): the cells of its parameters' domains are cut at these values,
    so representatives are taken around each of them in addition to the calendar's own thresholds"""
    out = set()

    def f(x, parents):
        if x.get("k") == "Lit" and isinstance(x.get("v"), int) and not isinstance(x.get("v"), bool):
            out.add(x["v"])
        elif x.get("k") == "Path" and x.get("res") == "def" and "Const" in (x.get("dk") or ""):
            v = const_eval(F, x)
            if isinstance(v, int):
                out.add(v)
        elif x.get("k") == "Range":
            for b in (x.get("lo"), x.get("hi")):
                if isinstance(b, dict) and isinstance(b.get("v"), int):
                    out.add(b["v"])
        elif x.get("k") == "Unary" and x.get("op") == "-":
            v = const_eval(F, x)
            if isinstance(v, int):
                out.add(v)
        return True
    from facts import walk_hir
    walk_hir(h["body"], f)
    return out


def around(consts, lo, hi):
    return sorted({v for k in consts for v in (k - 1, k, k + 1) if lo <= v <= hi})


def date_validity_rule(F, rep):
    r3 = rep.rule("R15.3", "date validity beyond chrono's range: years -999999999..999999999 and 1 <= day <= last day of the month (is_valid_date folded on one representative per cell)")
    # ---------------- R15.3
    for vd in fns_named(F, "is_valid_date") or [None]:
        if vd is None:
            rep.missing_anchor(r3, "a function is_valid_date in dmntk_feel")
            break
        h = F.hir[vd]
        params = [p.get("name") for p in h.get("params", [])]
        cells_ok = len(params) == 3 and all(compared_only(F, h, p) for p in params)
        probs, und = [], 0
        for last in (28, 29, 30, 31, None):
            def hook(callee, args, s, last=last):
                n = (callee or "").split("::")[-1]
                if n == "try_from" or n == "try_into":
                    return ("v", "Err", [("sym", "out-of-chrono-range")])
                if n == "last_day_of_month":
                    return ("v", "Some", [("lit", last)]) if last is not None else ("v", "None", [])
                return None
            ks = code_constants(F, h)
            years = sorted(set((-2 ** 31, -1000000000, -999999999, 0, 999999999, 1000000000, 2 ** 31 - 1)) | set(around(ks, -2 ** 31, 2 ** 31 - 1)))
            days = sorted(set((0, 1, 27, 28, 29, 30, 31, 32, 255)) | set(around(ks, 0, 255)))
            for y in years:
                for d in days:
                    outs, _ = fold(F, vd, [("lit", y), ("sym", "month"), ("lit", d)], hook)
                    got = single(outs)
                    want = last is not None and -999999999 <= y <= 999999999 and 1 <= d <= last
                    if got is None or got[0] != "bool":
                        und += 1
                    elif got[1] != want:
                        probs.append("year %d, day %d of a month with %s days is %s" % (y, d, last if last is not None else "no", "valid" if got[1] else "not valid"))
        if probs:
            rep.violation(r3, "date-validity", "%s: %s (the FEEL year range is -999999999..999999999 and a day is valid from 1 up to the month's last day)" % (vd, "; ".join(probs[:3])), "%s:%s" % (h["file"], h["line"]))
        elif und or not cells_ok:
            rep.undecided(r3, "date-validity", "%s %s" % (vd, "does not fold to a boolean on %d representative(s)" % und if und else
                                                          "agrees on all representatives but uses its parameters in arithmetic, so they do not stand for all values"))
        else:
            rep.ok(r3, "date-validity", "%d year x %d day representatives (around the calendar's and the code's own constants) x 5 month lengths folded" % (len(years), len(days)))


def offset_rule(F, rep):
    r4 = rep.rule("R15.4", "a UTC offset literal denotes sign * (3600*hours + 60*minutes + seconds), the sign applying to the whole sum, and is accepted only for hours <= 14 "
                           "(from_captures folded symbolically); the text form prints minutes and seconds from the magnitude")
    # ---------------- R15.4: UTC offsets, read
    cands = fns_named(F, "from_captures", T)
    if not cands:
        rep.missing_anchor(r4, "FeelZone::from_captures")
    for name in cands:
        h = F.hir[name]
        some = lambda x: ("v", "Some", [x])
        none = ("v", "None", [])
        groups = {"offHours": "h", "offMinutes": "m", "offSeconds": "s"}

        def hook(callee, args, st):
            c = callee or ""
            last = c.split("::")[-1]
            if last == "name" and "Captures" in c and len(args) == 2 and args[1][0] == "lit":
                g = args[1][1]
                if g in ("offSign", "offHours", "offMinutes"):
                    return some(("sym", "m:" + g))
                if g == "offSeconds":
                    return [(("secs", True), some(("sym", "m:" + g))), (("secs", False), none)]
                return none
            if last == "parse" and args and args[0][0] == "sym" and args[0][1].startswith("m:") and args[0][1][2:] in groups:
                return ("v", "Ok", [("sym", groups[args[0][1][2:]])])
            if last in ("eq", "ne") and len(args) == 2:
                a, b = args
                if b[0] == "sym":
                    a, b = b, a
                if a == ("sym", "m:offSign") and b[0] == "lit" and b[1] in ("-", "+", "\u2212"):
                    neg_ = ("sym", "NEG") if b[1] != "+" else ("not", ("sym", "NEG"))
                    return neg_ if last == "eq" else (("not", neg_) if neg_[0] != "not" else neg_[1])
            return None
        outs, ev = fold(F, name, [("sym", "captures")], hook)
        key = "offset:parse"
        if outs is None:
            rep.undecided(r4, key, "%s has too many paths to fold" % name)
            continue
        probs, seen_some, seen_bound = [], 0, set()
        for conds, v in outs:
            if not (v[0] == "v" and v[1] == "Some" and v[2] and v[2][0][0] == "call" and (v[2][0][1] or "").endswith("FeelZone::new")):
                continue
            x = v[2][0][2][0] if v[2][0][2] else None
            lin = ev.as_lin(x) if x is not None else None
            if lin is None:
                seen_some = -10 ** 6
                continue
            seen_some += 1
            negs = [c[2] if c[3] == ("sym", "NEG") else (not c[2]) for c in conds if c[0] == "if" and len(c) > 3 and c[3] in (("sym", "NEG"), ("not", ("sym", "NEG")))]
            secs = [c[1] for c in conds if c[0] == "secs"]
            sg = -1 if (negs and negs[-1]) else 1
            want = {"h": 3600 * sg, "m": 60 * sg}
            if secs and secs[-1]:
                want["s"] = sg
            if lin[0] != want or lin[1] != 0:
                got = " + ".join("%d*%s" % (c, n) for n, c in sorted(lin[0].items())) + (" + %d" % lin[1] if lin[1] else "")
                probs.append("for a %s offset %s seconds the value is %s, expected %s(3600*h + 60*m%s)" % ("negative" if sg < 0 else "positive", "with" if "s" in want else "without", got,
                                                                                                            "-" if sg < 0 else "", " + s" if "s" in want else ""))
            # the bounds on hours, minutes and seconds under which this value is returned (conjunctions / disjunctions of comparisons are split into their parts)
            def atoms(c3, truth):
                if isinstance(c3, tuple) and c3 and c3[0] == "or" and truth is False:
                    return atoms(c3[1], False) + atoms(c3[2], False)
                if isinstance(c3, tuple) and c3 and c3[0] == "and" and truth is True:
                    return atoms(c3[1], True) + atoms(c3[2], True)
                if isinstance(c3, tuple) and c3 and c3[0] == "not":
                    return atoms(c3[1], not truth)
                return [(c3, truth)]
            bounds = {}
            for c in conds:
                if not (c[0] == "if" and len(c) > 3):
                    continue
                for c3, truth in atoms(c[3], c[2]):
                    if not (isinstance(c3, tuple) and c3 and c3[0] == "cmp"):
                        continue
                    for nm in ("h", "m", "s"):
                        if ("sym", nm) not in (c3[2], c3[3]):
                            continue
                        op, a, b = c3[1], c3[2], c3[3]
                        if a == ("sym", nm) and b[0] == "lit":        # x op K
                            k = b[1]
                            ub = {("<", True): k - 1, ("<=", True): k}.get((op, truth))
                        elif b == ("sym", nm) and a[0] == "lit":      # K op x
                            k = a[1]
                            ub = {("<", False): k, ("<=", False): k - 1}.get((op, truth))
                        else:
                            ub = None
                        if ub is not None:
                            bounds[nm] = ub if nm not in bounds else min(bounds[nm], ub)
            seen_bound.add(bounds.get("h"))
            if bounds.get("m") != 59:
                probs.append("offsets are accepted with minutes up to %s (the lexical form allows two digits; 60 and above is not a time zone offset)" % bounds.get("m", "99"))
            if "s" in want and bounds.get("s") != 59:
                probs.append("offsets are accepted with seconds up to %s" % bounds.get("s", "99"))
        if seen_some < 0:
            rep.undecided(r4, key, "%s: the offset handed to FeelZone::new does not fold to a linear form of hours / minutes / seconds" % name)
        elif seen_some == 0:
            rep.undecided(r4, key, "%s: no path that returns Some(FeelZone::new(..)) was folded" % name)
        else:
            if seen_bound != {14}:
                probs.append("offsets are accepted for hours up to %s (expected: more than 14 hours are rejected)" % sorted("unbounded" if b is None else b for b in seen_bound))
            if probs:
                rep.violation(r4, key, "; ".join(sorted(set(probs))[:4]), "%s:%s" % (h["file"], h["line"]))
            else:
                rep.ok(r4, key, "%d returning paths: sign * (3600*h + 60*m [+ s]), hours <= 14" % seen_some)
    # ---------------- R15.4: UTC offsets, printed
    fd = [h2 for n2, h2 in F.hir.items() if n2.startswith("<" + T) and "FeelZone as core::fmt::Display>::fmt" in n2 and "{closure" not in n2]
    if not fd:
        rep.missing_anchor(r4, "Display for FeelZone")
    else:
        body = fd[0]["body"]
        inits = {}
        for st, _ in find_hir(body, lambda x: x.get("k") == "LetStmt" and "e" in x and x["p"].get("k") == "Bind"):
            inits.setdefault(st["p"]["name"], st["e"])

        def leaves(e, depth=0):
            """where the operand of a remainder comes from: 'abs' (a magnitude) or 'raw:<name>' (a pattern-bound / parameter value reached without abs)"""
            e = strip(e)
            k = e.get("k")
            if k == "MethodCall" and e.get("method") in ("abs", "unsigned_abs", "wrapping_abs", "rem_euclid"):
                return {"abs"}
            if k == "Path" and e.get("res") == "local":
                if e["name"] in inits and depth < 6:
                    return leaves(inits[e["name"]], depth + 1)
                return {"raw:" + e["name"]}
            out = set()
            for key in ("a", "b", "e", "recv"):
                if isinstance(e.get(key), dict):
                    out |= leaves(e[key], depth)
            for a in e.get("args", []) or []:
                out |= leaves(a, depth)
            return out
        rems = [x for x, _ in find_hir(body, lambda x: (x.get("k") == "Binary" and x.get("op") == "%") or (x.get("k") == "MethodCall" and x.get("method") in ("rem",)))]
        bad = [x for x in rems if any(l.startswith("raw:") for l in leaves(x.get("a") or x.get("recv")))]
        if not rems:
            rep.undecided(r4, "offset:print", "no remainder computation in Display for FeelZone")
        elif bad:
            rep.violation(r4, "offset:print", "the minutes / seconds of a UTC offset are computed from the signed offset (line %s): -03:30 prints as -03:-30, which is not a valid literal" % bad[0].get("l"),
                          "%s:%s" % (fd[0]["file"], bad[0].get("l")))
        else:
            rep.ok(r4, "offset:print", "%d remainder(s), all on the magnitude" % len(rems))
        # the printed text, folded on representative offsets: sign of the offset, then hh:mm[:ss] of its magnitude - what from_captures reads back as the same offset
        import strfold
        from hireval import Evaluator, TooManyPaths
        probs, und, n_ok = [], 0, 0
        for k in (1, 59, 60, 1800, 3599, 3600, 3661, 12600, 50400):
            for sg in (1, -1):
                off = sg * k
                ev = Evaluator(F, ints=True, max_paths=400)
                sf = strfold.StrFold(ev)

                def hook(c, a, s_, sf=sf):
                    c = c or ""
                    if c.endswith("::write_fmt") and len(a) == 2:
                        r = sf.format_value(a[1])
                        return ("written", r) if r is not None else None
                    if c.endswith("::write_str") and len(a) == 2 and strfold.as_str(a[1]) is not None:
                        return ("written", strfold.as_str(a[1]))
                    return sf.hook(c, a, s_)
                ev.call_hook = hook
                try:
                    outs = ev.run(fd[0]["params"], fd[0]["body"], [("v", "Offset", [("lit", off)]), ("sym", "f")])
                except (TooManyPaths, ValueError, KeyError, RecursionError):
                    outs = []
                txts = set()
                for _, v in outs:
                    if isinstance(v, tuple) and v[0] == "written" and strfold.as_str(v[1]) is not None and all(a_[0] == "c" for a_ in strfold.as_str(v[1])[1]):
                        txts.add("".join(a_[1] for a_ in strfold.as_str(v[1])[1]))
                    else:
                        txts.add(None)
                if len(txts) != 1 or None in txts:
                    und += 1
                    continue
                got = txts.pop()
                hh, mm, ss = k // 3600, k % 3600 // 60, k % 60
                want = ("-" if off < 0 else "+") + "%02d:%02d" % (hh, mm) + (":%02d" % ss if ss else "")
                if got != want:
                    probs.append("the offset of %d seconds is printed `%s`, which does not denote it (`%s` does)" % (off, got, want))
                else:
                    n_ok += 1
        if probs:
            rep.violation(r4, "offset:print-fold", "; ".join(probs[:3]) + " (%d of 18 representative offsets)" % len(probs), "%s:%s" % (fd[0]["file"], fd[0]["line"]))
        elif und:
            rep.undecided(r4, "offset:print-fold", "%d of 18 representative offsets do not fold to a literal text" % und)
        else:
            rep.ok(r4, "offset:print-fold", "18 representative offsets print as sign + hh:mm[:ss] of the magnitude")


# ======================================================================================================
# R15.5: the component accessors of a duration are cut from one and the same total
COMPONENTS = {
    "FeelYearsAndMonthsDuration": ["years", "months"],
    "FeelDaysAndTimeDuration": ["get_days", "get_hours", "get_minutes", "get_seconds"],
}


def components_rule(F, rep):
    rid = rep.rule("R15.5", "the component accessors of a duration (years / months; days / hours / minutes / seconds) divide one and the same base - the signed total or its magnitude - so that the components are consistent with the total length")

    def base(v, depth=0):
        """the value the chain of divisions / remainders by constants starts from"""
        while depth < 12 and isinstance(v, tuple) and v and v[0] == "bin" and v[1] in ("/", "%") and v[3][0] == "lit":
            v = v[2]
            depth += 1
        return v
    for ty, names in sorted(COMPONENTS.items()):
        bases = {}
        first = None
        for n in names:
            cands = [k for k in F.hir if k.startswith(T) and k.endswith("::%s::%s" % (ty, n))]
            if len(cands) != 1:
                continue
            full = cands[0]
            first = first or full
            outs, ev = fold(F, full, [("sym", "self")])
            v = single(outs)
            if v is None:
                continue
            bases[n] = base(v)
        key = "components:%s" % ty.split("::")[-1]
        if len(bases) < 2:
            rep.undecided(rid, key, "fewer than two component accessors of %s fold to a division chain" % ty)
            continue
        distinct = {}
        for n, b in bases.items():
            distinct.setdefault(repr(b), []).append(n)
        if len(distinct) > 1:
            desc = "; ".join("%s from %s" % ("/".join(ns), short_val(eval(r) if False else r)) for r, ns in sorted(distinct.items()))
            rep.violation(rid, key, "the component accessors of %s are cut from different totals (%s): for negative durations the components no longer add up to the total" % (ty.split("::")[-1], desc[:300]),
                          F.hir[first]["file"])
        else:
            rep.ok(rid, key, "%d accessors share the base %s" % (len(bases), short_val(list(distinct)[0])))


def short_val(r):
    r = str(r)
    r = r.replace("('field', '0', ('sym', 'self'))", "self.0")
    return r[:120]


# ======================================================================================================
# R15.6: ordering, difference and weekday of date-times are taken from UTC-resolved instants
def instants_rule(F, rep):
    rid = rep.rule("R15.6", "compare() / subtract() / weekday() answer only from the instants produced by date_time_offset(date, time, resolved offset): first operand first, no answer from local calendar fields; "
                            "the weekday number is Monday-based (1..7)")
    from props import c09
    FN = {n: c09.temporal_fn(F, n) for n in ("compare", "subtract", "weekday", "date_time_offset")}
    if any(v is None for v in FN.values()):
        rep.missing_anchor(rid, "temporal functions compare / subtract / weekday / date_time_offset")
        return

    def hook(callee, args, st):
        n = (callee or "").split("::")[-1]
        if callee == FN["date_time_offset"]:
            return ("v", "Some", [("inst", args)])
        if n in ("get_local_offset", "get_zone_offset"):
            return ("v", "Some", [("call", callee, args)])
        return None

    def insts(v, out):
        if isinstance(v, tuple) and v and v[0] == "inst":
            out.append(v)
            return
        if isinstance(v, (tuple, list)):
            for x in v:
                if isinstance(x, (tuple, list)):
                    insts(x, out)

    def owner(inst):
        r = repr(inst)
        return {"me" if "('sym', 'me')" in r else None, "other" if "('sym', 'other')" in r else None} - {None}
    for fn, binary in (("compare", True), ("subtract", True), ("weekday", False)):
        # private helpers of the temporal module (an extracted `to_instant`) are folded at their call sites
        inl = {n for n, h2 in F.hir.items() if n.startswith(T) and h2.get("kind") == "fn" and F.fns.get(n, {}).get("vis") != "pub" and n not in FN.values()
               and n.split("::")[-1] not in ("get_local_offset", "get_zone_offset")}
        outs, ev = fold(F, FN[fn], [("sym", "me"), ("sym", "other")][:2 if binary else 1], hook, inline=inl)
        key = "instants:%s" % fn
        if outs is None:
            rep.undecided(rid, key, "%s has too many paths to fold" % fn)
            continue
        probs, n = [], 0
        for conds, v in outs:
            if v[0] == "v" and v[1] == "None":
                continue
            n += 1
            found = []
            insts(v, found)
            if binary:
                if len(found) != 2 or owner(found[0]) != {"me"} or owner(found[1]) != {"other"}:
                    probs.append("a path answers %s, which is not built from the instant of the first operand followed by the instant of the second" % ev.short(v)[:160])
                elif fn == "compare" and not (v[0] == "v" and v[1] == "Some" and v[2] and v[2][0][0] == "ord" and v[2][0][1][0] == "inst" and v[2][0][2][0] == "inst"):
                    probs.append("a path answers %s instead of Some(instant(me).cmp(instant(other)))" % ev.short(v)[:160])
            else:
                if len(found) != 1 or owner(found[0]) != {"me"}:
                    probs.append("a path answers %s, which is not taken from the operand's instant" % ev.short(v)[:160])
                else:
                    r = repr(v)
                    if "number_from_monday" in r and "num_days" not in r and "number_from_sunday" not in r:
                        pass
                    elif "num_days_from_sunday" in r or "number_from_sunday" in r:
                        probs.append("the weekday number is Sunday-based (%s): FEEL numbers Monday = 1 ... Sunday = 7" % ("num_days_from_sunday" if "num_days_from_sunday" in r else "number_from_sunday"))
                    else:
                        rep.undecided(rid, key + ":numbering", "the weekday number is computed as %s" % ev.short(v)[:160])
        if probs:
            rep.violation(rid, key, "temporal::%s: %s" % (fn, "; ".join(sorted(set(probs))[:3])), "%s:%s" % (F.hir[FN[fn]]["file"], F.hir[FN[fn]]["line"]))
        elif not n:
            rep.undecided(rid, key, "no answering path of %s was folded" % fn)
        else:
            rep.ok(rid, key, "%d answering path(s), all from date_time_offset instants" % n)


# ======================================================================================================
# R15.7: the years-and-months duration between two dates is the number of whole months between them
def whole_months_rule(F, rep, tier):
    """`to.ym_duration(from)` folded on concrete (year, month, day) triples.  The pinned function reads the six components only through casts, differences and order
    comparisons, so it is piecewise linear with pieces cut out by the signs of the component differences; the representatives take every sign combination of (year,
    month, day) differences with several magnitudes each (agreement on them is evidence for that form of function only - stated in the manifest note).  The calendar's answer: with
    m = 12 * (y1 - y0) + (m1 - m0) counted from `from` = (y0, m0, d0) to `to` = (y1, m1, d1), an incomplete last month is taken off towards zero - m - 1 when
    to >= from and d1 < d0, m + 1 when to < from and d1 > d0.  A disagreement on a representative is a counterexample by itself."""
    rid = rep.rule("R15.7", "the years-and-months duration between two dates is the number of whole months between them (ym_duration folded on representative pairs of dates: "
                            "every sign combination of the year / month / day differences)")
    names = [n for n in fns_named(F, "ym_duration") if "FeelDate::" in n and "FeelDateTime" not in n]
    if not names:
        if fns_named(F, "ym_duration"):
            rep.undecided(rid, "ym_duration", "no FeelDate::ym_duration; the computation has moved")
        else:
            rep.missing_anchor(rid, "FeelDate::ym_duration")
        return
    name = names[0]
    h = F.hir[name]
    years = [2019, 2020, 2021] if tier == "quick" else [-1, 0, 2019, 2020, 2021, 999999999]
    months = [1, 2, 12] if tier == "quick" else [1, 2, 6, 11, 12]
    days = [1, 15, 31] if tier == "quick" else [1, 14, 15, 28, 31]
    dates = [(y, m, d) for y in years for m in months for d in days]

    def lit3(t):
        return ("tuple", [("lit", t[0]), ("lit", t[1]), ("lit", t[2])])
    from hireval import Evaluator, TooManyPaths
    ev = Evaluator(F, ints=True, max_paths=400)
    checked = bad = und = 0
    first_bad = None
    for to in dates:
        for frm in dates:
            try:
                outs = ev.run_fn(name, [lit3(to), lit3(frm)])
            except (TooManyPaths, ValueError, KeyError, RecursionError):
                outs = None
            v = single(outs) if outs else None
            got = None
            if v is not None and v[0] == "call" and len(v[2]) == 1 and v[2][0][0] == "lit" and isinstance(v[2][0][1], int) and v[1].endswith("::new_m"):
                got = v[2][0][1]
            elif v is not None and v[0] == "lit" and isinstance(v[1], int):
                got = v[1]
            if got is None:
                und += 1
                continue
            m = 12 * (to[0] - frm[0]) + (to[1] - frm[1])
            if to >= frm and to[2] < frm[2]:
                m -= 1
            elif to < frm and to[2] > frm[2]:
                m += 1
            checked += 1
            if got != m:
                bad += 1
                if first_bad is None:
                    first_bad = (frm, to, got, m)
    if bad:
        frm, to, got, m = first_bad
        rep.violation(rid, "ym_duration", "years and months duration(date(%04d-%02d-%02d), date(%04d-%02d-%02d)) folds to %d months, the number of whole months between the dates is %d "
                      "(%d of %d representative pairs disagree)" % (frm + to + (got, m, bad, checked)), "%s:%s" % (h["file"], h["line"]))
    elif und or not checked:
        rep.undecided(rid, "ym_duration", "%d of %d representative pairs do not fold to an integer number of months (the function has a form the folding does not follow)" % (und, und + checked))
    else:
        rep.ok(rid, "ym_duration", "%d representative pairs of dates fold to the calendar's number of whole months" % checked)
    rep.analysed["whole_month_pairs"] = checked


# ======================================================================================================
# R15.8: the offset of a zone at a written (wall clock) date and time is resolved as local time of that zone
LOCAL_RESOLUTION = re.compile(r"::(offset_from_local_datetime|offset_from_local_date|from_local_datetime|from_local_date|with_ymd_and_hms|and_local_timezone|ymd_opt|and_hms_opt|and_hms_milli_opt|"
                              r"and_hms_micro_opt|and_hms_nano_opt|ymd|and_hms|and_hms_nano)$")
UTC_RESOLUTION = re.compile(r"::(offset_from_utc_datetime|offset_from_utc_date|from_utc_datetime|from_utc_date)$")


def operand_locals(x, out):
    """locals mentioned in an rvalue / operand list of the MIR facts"""
    if isinstance(x, list):
        if len(x) == 2 and x[0] in ("C", "M") and isinstance(x[1], list) and x[1] and isinstance(x[1][0], int):
            out.add(x[1][0])
            for pr in x[1][1:]:
                if isinstance(pr, list) and pr and pr[0] in ("[]", "idx") and len(pr) > 1 and isinstance(pr[1], int):
                    out.add(pr[1])
            return
        for y in x:
            operand_locals(y, out)


def wall_clock_rule(F, rep):
    """`get_local_offset(date, time)` / `get_zone_offset(zone, date, time)` receive the components *written* in the value: a wall clock reading in that zone.  The offset in
    force at that reading is what chrono's local-time resolution of the zone gives (offset_from_local_datetime, from_local_datetime, ymd_opt(..).and_hms_nano_opt(..) on the
    zone ...).  Reading the same digits as a UTC instant and asking the zone for its offset *then* (offset_from_utc_datetime, from_utc_datetime on a zone other than Utc) is off
    by the amount of the transition for the hours next to a daylight saving switch.  Decided on MIR by a backward data slice of the returned offset: it must contain a
    local-resolution call on a zone that is not Utc; a slice that reaches the answer only through a UTC-resolution call of such a zone is positive evidence."""
    rid = rep.rule("R15.8", "the UTC offset of the local / a named zone at a written date and time is obtained by resolving the reading as local time of that zone (not by reading the digits as UTC)")
    import mirutil
    found = 0
    for simple in ("get_local_offset", "get_zone_offset"):
        names = [n for n in F.bodies if n.startswith("dmntk_feel::") and n.split("::")[-1] == simple]
        if not names:
            if any(k.split("::")[-1] in ("compare", "subtract") for k in F.bodies if k.startswith("dmntk_feel::temporal")):
                rep.undecided(rid, simple, "no function of this name: the offset resolution has been reorganised")
            else:
                rep.missing_anchor(rid, "dmntk_feel::temporal::%s" % simple)
            continue
        found += 1
        b = F.bodies[names[0]]
        B = mirutil.Body(F, b)
        # backward data slice from the return place
        seen, work = set(), [0]
        calls = []
        while work:
            l = work.pop()
            if l in seen:
                continue
            seen.add(l)
            for (bi, si, kind, st) in B.defs.get(l, []):
                ls = set()
                if l == 0 and kind == "call" and (st["f"].get("p") or "").endswith("from_residual"):
                    continue              # the early `None` / `Err` exit of a `?`: not the offset that is answered
                if kind == "call":
                    calls.append(st)
                    operand_locals(st.get("args", []), ls)
                else:
                    rv = st[2]
                    operand_locals(rv, ls)
                    if rv[0] in ("Ref", "AddrOf", "RawPtr") and isinstance(rv[2], list) and rv[2] and isinstance(rv[2][0], int):
                        ls.add(rv[2][0])                  # the borrowed place
                    elif rv[0] in ("Disc", "Len") and isinstance(rv[1], list) and rv[1] and isinstance(rv[1][0], int):
                        ls.add(rv[1][0])
                work.extend(ls - seen)
        local_res, utc_res = [], []
        for c in calls:
            p = c["f"].get("o") or c["f"].get("p") or ""
            full = (c["f"].get("p") or "") + " " + str(c["f"].get("substs") or "") + " " + str(c["f"].get("self_ty_s") or "")
            recv_ty = B.local_ty(c["args"][0][1][0]) if c.get("args") and c["args"][0][0] in ("C", "M") and len(c["args"][0][1]) >= 1 else ""
            is_utc_zone = "Utc" in recv_ty or "offset::utc::Utc" in full or "<chrono::Utc" in full
            if "::naive::" in p:
                continue                  # NaiveDate / NaiveTime constructors know no zone
            if p.endswith("::with_timezone") and len(c.get("args", [])) == 2:
                # an instant re-expressed in another zone: a UTC resolution of the zone given as argument
                a1 = c["args"][1]
                zty = B.local_ty(a1[1][0]) if a1[0] in ("C", "M") else ""
                if "Utc" not in zty:
                    utc_res.append("with_timezone")
                continue
            if LOCAL_RESOLUTION.search(p) and not is_utc_zone:
                local_res.append(p.split("::")[-1])
            elif UTC_RESOLUTION.search(p) and not is_utc_zone:
                utc_res.append(p.split("::")[-1])
        where = "%s:%s" % (b["file"], b["line"])
        if local_res:
            rep.ok(rid, simple, "the returned offset derives from %s on the zone" % sorted(set(local_res))[0])
        elif utc_res:
            rep.violation(rid, simple, "%s answers with the zone's offset at the written digits read as a UTC instant (%s) and never resolves them as local time of the zone: near a daylight "
                          "saving switch the offset is that of the other side of the switch" % (simple, sorted(set(utc_res))[0]), where)
        else:
            rep.undecided(rid, simple, "the returned offset does not derive from a chrono resolution call the rule knows")
    rep.analysed["offset_resolution_functions"] = found


# ======================================================================================================
# R15.9: date construction from numbers takes whole numbers in range as they are
def date_components_rule(F, rep):
    """'date construction from numbers rejects components outside their range': in the conversion (number, number, number) -> FeelDate the year, month and day stored in the
    date derive from the numbers without a *rounding or wrapping* carrier.  The infallible conversions `From<FeelNumber> for u8 / i32 ..` go through decQuadToUInt32 / ToInt32
    with half-even rounding and an `as` cast: 2.5 becomes 2, 258 becomes 2.  Decided on MIR: the backward data slice of the components of every FeelDate aggregate built in that
    conversion contains none of these conversions and no narrowing integer cast."""
    import mirutil
    rid = rep.rule("R15.9", "the year / month / day of a date built from three numbers derive from them without a rounding or wrapping conversion (no From<FeelNumber> for a primitive integer, no narrowing cast)")
    names = [n for n in F.bodies if re.search(r"TryFrom<\(dmntk_feel_number::number::FeelNumber, dmntk_feel_number::number::FeelNumber, dmntk_feel_number::number::FeelNumber\)>", n)
             and "FeelDate" in n and n.endswith("::try_from")]
    if not names:
        rep.undecided(rid, "date-from-numbers", "no TryFrom<(FeelNumber, FeelNumber, FeelNumber)> for FeelDate")
        return
    b = F.bodies[names[0]]
    B = mirutil.Body(F, b)
    sites = 0
    bad = []
    for bl in b["blocks"]:
        for st in bl["s"]:
            if not (st[0] == "A" and st[2][0] == "Agg" and isinstance(st[2][1], list) and st[2][1][0] == "adt" and st[2][1][1].endswith("::FeelDate") and len(st[2][2]) == 3):
                continue
            sites += 1
            seen, work = set(), [o[1][0] for o in st[2][2] if o[0] in ("C", "M")]
            while work:
                l = work.pop()
                if l in seen:
                    continue
                seen.add(l)
                for (dbi, si, kind, d) in B.defs.get(l, []):
                    ls = set()
                    if kind == "call":
                        p = d["f"].get("p") or ""
                        if re.search(r"<(u|i)(8|16|32|64|size) as core::convert::From<&?dmntk_feel_number::number::FeelNumber>>::from$", p) or \
                                (p.endswith("Into<T>>::into") or p.endswith("::into")) and re.search(r"FeelNumber", str(d["f"].get("substs") or "")) and re.search(r"\b(u|i)(8|16|32|64|size)\b", str(d["f"].get("substs") or "")):
                            bad.append("%s (line %s)" % (p.split(">::")[-1] + " of a FeelNumber into a primitive integer", d.get("line")))
                        if re.search(r"dec::dec_to_(u|i)32$", p):
                            bad.append("%s (line %s)" % (p.split("::")[-1], d.get("line")))
                        operand_locals(d.get("args", []), ls)
                    else:
                        rv = d[2]
                        if rv[0] == "Cast" and "IntToInt" in str(rv[1]) and rv[2][0] in ("C", "M"):
                            src_ty, dst_ty = B.local_ty(rv[2][1][0]), B.local_ty(d[1][0])
                            w = lambda t: {"u8": 8, "i8": 8, "u16": 16, "i16": 16, "u32": 32, "i32": 32, "u64": 64, "i64": 64, "usize": 64, "isize": 64, "u128": 128, "i128": 128}.get(t)
                            if w(src_ty) and w(dst_ty) and w(dst_ty) < w(src_ty):
                                bad.append("a narrowing cast %s as %s (line %s)" % (src_ty, dst_ty, d[-1]))
                        operand_locals(rv, ls)
                        if rv[0] in ("Ref", "AddrOf", "RawPtr") and isinstance(rv[2], list) and rv[2] and isinstance(rv[2][0], int):
                            ls.add(rv[2][0])
                    work.extend(ls - seen)
    where = "%s:%s" % (b["file"], b["line"])
    if not sites:
        rep.undecided(rid, "date-from-numbers", "the conversion builds no FeelDate aggregate itself")
    elif bad:
        rep.violation(rid, "date-from-numbers", "the components of the date derive from the numbers through %s: a fractional component is rounded and a component above the type's range wraps "
                      "(date(2021, 258, 1) is a date in February)" % sorted(set(bad))[0], where)
    else:
        rep.ok(rid, "date-from-numbers", "%d aggregate(s): no rounding / wrapping conversion in the data slice of the components" % sites)
