"""C09, R09.13: `a = b` and `b = a` give the same result - eval_ternary_equality folded on every ordered pair of a universe of concrete values.

The three-valued equality of the evaluator is evaluated by the folding engine on concrete values (null, booleans, numbers, strings, lists, contexts; nested once).  A context is
modelled as its (name, value) entries in name order (`keys`, `get_entry`, iteration).  The law is judged pairwise: the answer for (a, b) must be the answer for (b, a).  Only two
definite, different answers are a violation; pairs that do not fold are counted and reported as UNDECIDED when they are many."""
import itertools

from hireval import Evaluator, TooManyPaths, mk_bool

FN = "dmntk_feel_evaluator::builders::eval_ternary_equality"
CTX = "dmntk_feel::context::FeelContext::"


def enc(x):
    if x is None:
        return ("v", "Null", [("v", "None", [])])
    if isinstance(x, bool):
        return ("v", "Boolean", [("lit", x)])
    if isinstance(x, int):
        return ("v", "Number", [("lit", x)])
    if isinstance(x, str):
        return ("v", "String", [("lit", x)])
    if isinstance(x, list):
        return ("v", "List", [("array", [enc(i) for i in x])])
    return ("v", "Context", [("array", [("tuple", [("lit", k), enc(v)]) for k, v in sorted(x.items())])])


def show(x):
    if x is None:
        return "null"
    if isinstance(x, bool):
        return str(x).lower()
    if isinstance(x, str):
        return '"%s"' % x
    if isinstance(x, list):
        return "[" + ", ".join(show(i) for i in x) + "]"
    if isinstance(x, dict):
        return "{" + ", ".join("%s: %s" % (k, show(v)) for k, v in sorted(x.items())) + "}"
    return str(x)


def kind(x):
    return "null" if x is None else "boolean" if isinstance(x, bool) else "number" if isinstance(x, int) else "string" if isinstance(x, str) else "list" if isinstance(x, list) else "context"


UNIVERSE = [None, True, False, 1, 2, "x", "y", [], [1], [2], [1, 2], ["x"], [1, "x"], [None], [[1]],
            {}, {"a": 1}, {"a": 2}, {"a": "x"}, {"b": 1}, {"a": 1, "b": "x"}, {"b": 1, "c": 1}, {"a": 1, "b": 1}, {"a": None}, {"a": [1]}, {"a": {"b": 1}}, {"a": {"c": "x"}}]


def fold(F, a, b):
    box = {}

    def hook(c, args, st):
        ev = box["ev"]
        c = c or ""
        seq = ev.as_seq(args[0]) if args else None
        if (c.startswith(CTX) or "BTreeMap" in c) and seq is not None:
            m = c.split("::")[-1]
            if m in ("get_entry", "get") and len(args) == 2 and args[1][0] == "lit":
                for kv in seq:
                    if kv[1][0] == args[1]:
                        return ("v", "Some", [kv[1][1]])
                return ("v", "None", [])
            if m in ("contains_entry", "contains_key") and len(args) == 2 and args[1][0] == "lit":
                return mk_bool(any(kv[1][0] == args[1] for kv in seq))
            if m == "keys":
                return ("iterv", [kv[1][0] for kv in seq])
            if m == "len":
                return ("lit", len(seq))
            if m == "is_empty":
                return mk_bool(not seq)
            if m in ("deref", "iter", "into_iter", "get_entries"):
                return ("iterv", list(seq))
        if c.endswith("::deref") and seq is not None:
            return ("iterv", list(seq))
        if c in ("dmntk_feel::values::Values::as_vec",):
            return args[0]
        if c.endswith("PartialEq>::eq") and len(args) == 2 and args[0][0] == args[1][0] == "lit":
            return mk_bool(args[0][1] == args[1][1])
        return None
    ev = Evaluator(F, call_hook=hook, ints=True, max_paths=400, inline={FN})
    ev.vecs = True
    box["ev"] = ev
    try:
        outs = ev.run_fn(FN, [enc(a), enc(b)])
    except (TooManyPaths, ValueError, KeyError, TypeError, IndexError, RecursionError) as x:
        return "?", "%s: %s" % (type(x).__name__, str(x)[:80])
    vals = set()
    for conds, v in outs:
        if conds:
            return "?", "path condition left open: %s" % str(conds[0])[:80]
        if v[0] == "v" and v[1] == "None":
            vals.add("null")
        elif v[0] == "v" and v[1] == "Some" and v[2] and v[2][0][0] == "cmp" and v[2][0][1] in ("==", "!=") and all(t[0] == "lit" for t in v[2][0][2:4]):
            vals.add(str((v[2][0][2][1] == v[2][0][3][1]) == (v[2][0][1] == "==")).lower())
        elif v[0] == "v" and v[1] == "Some" and v[2] and v[2][0][0] in ("bool", "lit") and isinstance(v[2][0][1], bool):
            vals.add(str(v[2][0][1]).lower())
        else:
            return "?", "not an Option<bool>: %s" % str(v)[:80]
    return (vals.pop(), "") if len(vals) == 1 else ("?", "%d answers" % len(vals))


def run(F, rep):
    rid = rep.rule("R09.13", "`a = b` and `b = a` give the same result: eval_ternary_equality folded on every ordered pair of a universe of concrete values (null, booleans, numbers, "
                             "strings, lists, contexts) is symmetric")
    h = F.hir.get(FN)
    if h is None:
        rep.missing_anchor(rid, FN)
        return
    ans, unknown = {}, []
    for i, a in enumerate(UNIVERSE):
        for j, b in enumerate(UNIVERSE):
            r, note = fold(F, a, b)
            ans[(i, j)] = r
            if r == "?":
                unknown.append("%s = %s: %s" % (show(a), show(b), note))
    bad = {}
    for i, j in itertools.combinations(range(len(UNIVERSE)), 2):
        x, y = ans[(i, j)], ans[(j, i)]
        if "?" not in (x, y) and x != y:
            bad.setdefault("%s/%s" % tuple(sorted((kind(UNIVERSE[i]), kind(UNIVERSE[j])))), []).append(
                "`%s = %s` is %s, `%s = %s` is %s" % (show(UNIVERSE[i]), show(UNIVERSE[j]), x, show(UNIVERSE[j]), show(UNIVERSE[i]), y))
    where = "%s:%s" % (h["file"], h["line"])
    for k, ex in sorted(bad.items()):
        rep.violation(rid, "symmetry:%s" % k, "equality is not symmetric for %s operands (%d pairs of the universe): %s" % (k.replace("/", " and "), len(ex), "; ".join(ex[:2])), where)
    decided = sum(1 for v in ans.values() if v != "?")
    if len(unknown) > len(ans) // 4:
        rep.undecided(rid, "symmetry:fold", "%d of %d pairs do not fold: %s" % (len(unknown), len(ans), "; ".join(unknown[:2])))
    elif not bad:
        rep.ok(rid, "symmetry:fold", "%d ordered pairs fold; every answer equals the answer for the exchanged operands%s" % (decided, (" (%d do not fold)" % len(unknown)) if unknown else ""))
    rep.floor(rid, "ordered pairs of values folded to a definite answer", decided, 500)
