"""C03: decision tables return what their hit policy prescribes - dispatch, collection order, result shape, default path, attribute tables (DESIGN §3 C03)."""
import json
import os
import re

import hirflow
import mirutil
from facts import find_hir, strip

LEVEL = "other"
CRATES_QUICK = ["dmntk_model_evaluator", "dmntk_model", "dmntk_feel_evaluator"]
CRATES_THOROUGH = None
VERIF = os.path.dirname(os.path.dirname(os.path.dirname(os.path.abspath(__file__))))
DT = "dmntk_model_evaluator::builders::decision_table::"
EDT = DT + "EvaluatedDecisionTable::"
HP = "dmntk_model::model::HitPolicy"
AG = "dmntk_model::model::BuiltinAggregator"
FILE = "model-evaluator/src/builders/decision_table.rs"


def classify_collection_helpers(F):
    """which helper returns the matching rules in rule order, which in priority order: decided from their bodies"""
    out = {}
    for n, h in F.hir.items():
        if not n.startswith(EDT) or h["kind"] != "method":
            continue
        def filters_matches(hh):
            filt = find_hir(hh["body"], lambda x: x.get("k") == "MethodCall" and x.get("method") == "filter")
            return any(find_hir(f[0], lambda x: x.get("k") == "Field" and x.get("name") == "matches") for f in filt)
        # the selection of the matching rules may be inherited from another helper (`let mut rules = self.get_matching_rules(); rules.sort_by(..)`)
        own = filters_matches(h)
        inherited = not own and any(filters_matches(F.hir[c]) and F.hir[c].get("kind") == "method" and "Vec<" in str(F.fns.get(c, {}).get("ret", "Vec<"))
                                    for c in called_methods(F, h, 1))
        if not own and not inherited:
            continue
        if inherited and not find_hir(h["body"], lambda x: x.get("k") == "MethodCall" and x.get("method", "").startswith("sort")):
            continue              # a consumer of the collection (an evaluate_* method), not a collection helper
        sorts = find_hir(h["body"], lambda x: x.get("k") == "MethodCall" and x.get("method", "").startswith("sort"))
        # the comparator may be a closure in the helper or a private method it calls
        bodies = [h["body"]] + [F.hir[c]["body"] for c in called_methods(F, h, 2)]
        uses_output_values = [x for b2 in bodies for x in find_hir(b2, lambda x: x.get("k") == "Field" and x.get("name") == "output_values")]
        rev = find_hir(h["body"], lambda x: x.get("k") == "MethodCall" and x.get("method") in ("rev", "reverse"))
        if sorts and uses_output_values and not rev:
            out[n] = "prioritized"
        elif not sorts and not rev:
            out[n] = "rule-order"
        else:
            out[n] = "other"
    return out


def called_methods(F, h, depth):
    """EvaluatedDecisionTable methods called (transitively, up to depth) from a HIR function"""
    out, work = [], [(h, 0)]
    while work:
        hh, d = work.pop()
        for c, _ in find_hir(hh["body"], lambda x: x.get("k") in ("MethodCall", "Call") and (x.get("callee") or "").startswith(EDT)):
            cal = c["callee"]
            if cal in F.hir and cal not in out and F.hir[cal] is not h:
                out.append(cal)
                if d + 1 < depth:
                    work.append((F.hir[cal], d + 1))
    return out


def edt_helper(F, exclude):
    """private EvaluatedDecisionTable methods are expanded at their call sites (several policies may share one parameterised implementation)"""
    def f(callee):
        hh = F.hir.get(callee)
        if hh is None or not callee.startswith(EDT) or callee in exclude:
            return None
        short = callee.split("::")[-1]
        if short in ("get_result", "get_results", "evaluate_default_output_value") or short.startswith("get_matching_rules"):
            return None       # the vocabulary of the rule itself
        return hh
    return f


def effective_returns(fl):
    """returns of a method with the returns of expanded helpers substituted for `return helper(..)`"""
    expanded = {n for _, _, _, n in fl.helper_returns}
    # only a helper whose call is itself a result of the method contributes its returns; a helper called for an argument (`sum(self.values_of(..))`) does not
    in_return_position = {d[1] for d, _, _ in fl.returns if d and d[0] == "call" and d[1] in expanded}
    hr = [(d, c, l) for d, c, l, n in fl.helper_returns if n in in_return_position]
    own = [(d, c, l) for d, c, l in fl.returns if not (d and d[0] == "alt") and not any(d == x[0] for x in hr) and not (d and d[0] == "call" and d[1] in expanded)]
    return own + hr


def method_features(F, name, helpers):
    """(collection kinds used, result shape, default path ok, extra facts) of an evaluate_hit_policy_* method"""
    h = F.hir[name]
    fl = hirflow.Flow(h, inline=edt_helper(F, {name}))
    coll = set()
    for c, args, cond, line, node in fl.calls:
        if c in helpers:
            coll.add(helpers[c])
    results = []
    default_guard = True
    default_call = EDT + "evaluate_default_output_value"
    rets = effective_returns(fl)
    saw_default = False
    for d, cond, line in rets:
        txt = repr(d)
        if d and d[0] == "call" and d[1] == default_call:
            saw_default = True
            # must be under an emptiness test
            if not any(hirflow.emptiness(c)[0] == "empty" for c in cond):
                default_guard = False
            continue
        if d == ("null",):
            results.append(("null", cond))
            continue
        if "get_results" in txt:
            results.append(("list", cond))
        elif "get_result" in txt:
            idx0 = "('lit', 0)" in txt or "index" in txt or "::first'" in txt
            results.append(("single" if idx0 else "single?", cond))
        elif "evaluate_sum" in txt:
            results.append(("aggregate:sum", cond))
        elif "evaluate_min" in txt:
            results.append(("aggregate:min", cond))
        elif "evaluate_max" in txt:
            results.append(("aggregate:max", cond))
        elif "Number" in txt and "len" in txt:
            results.append(("count", cond))
        elif d and d[0] == "local":
            results.append(("local:" + d[1], cond))
        else:
            results.append(("other:" + txt[:80], cond))
    return coll, results, saw_default and default_guard, saw_default


def collect_env(fl, h):
    """environment of top-level lets of the method body (for the tail expression descriptor)"""
    env = {}
    for i, p in enumerate(h.get("params", [])):
        if p.get("k") == "Bind":
            env[p["name"]] = ("arg", i)
    for s in h["body"]["b"].get("stmts", []):
        if s.get("k") == "LetStmt" and "e" in s and s["p"].get("k") == "Bind":
            env[s["p"]["name"]] = fl.desc(s["e"], env)
    return env


def run(F, rep, tier):
    rep.explanation = ("The hit-policy semantics is a finite dispatch: policy -> evaluation method -> (which ordering of the matching rules, single/list/count/aggregate, "
                       "default output on the empty match). It is extracted from the type-checked HIR and compared with the specification table; the XML attribute and "
                       "text-marker spellings are compared with the same table; rule matching must be the conjunction of all input entries. Which rules match for given "
                       "inputs, priority comparison details and values are not decided.")
    orc = json.load(open(os.path.join(VERIF, "tables", "hit_policy.json")))
    r1 = rep.rule("R03.1", "hit-policy dispatch: every policy/aggregator has its own arm and reaches a method with the prescribed collection order, result shape and default-output path")
    r2 = rep.rule("R03.2", "hitPolicy / aggregation attribute strings and text markers denote the variants the specification assigns")
    r3 = rep.rule("R03.3", "a rule matches iff all its input entries are true: the match flag starts true and is only ever cleared inside the entry loop")
    # premise (C09): an input entry is a unary test; `<= c`, `not(<= c)` ... must compare with the operator they are written with
    from props import c09
    c09.unary_dispatch_rule(F, rep)
    c09.list_polarity_rule(F, rep)
    from props import c03_fold
    c03_fold.run(F, rep, tier)
    c03_fold.run_matching(F, rep, tier)
    # ---------------- R03.1
    bld = F.hir.get(DT + "build_decision_table_evaluator")
    if bld is None:
        rep.missing_anchor(r1, DT + "build_decision_table_evaluator")
        return
    helpers = classify_collection_helpers(F)
    rep.floor(r1, "match-collection helpers", len([v for v in helpers.values() if v in ("rule-order", "prioritized")]), 2)
    # the dispatch: the match(es) over HitPolicy / BuiltinAggregator in the decision-table module (in the builder's closure, or moved into a method of the evaluated table)
    def over_policy(m):
        return any(isinstance(c, str) and (c.startswith(HP + "::") or c.startswith(AG + "::")) for arm in m["arms"] for c in hirflow.Flow.pat_ctors(arm["p"]))
    ms = [m for n2, h2 in sorted(F.hir.items()) if n2.startswith(DT) for m, _ in find_hir(h2["body"], lambda x: x.get("k") == "Match" and x.get("src") == "Normal") if over_policy(m)]
    dispatch = {}
    wild = False

    def arm_target(arm):
        calls = [c for c, _ in find_hir(arm["b"], lambda x: x.get("k") == "MethodCall" and (x.get("callee") or "").startswith(EDT))]
        return [c["callee"] for c in calls]
    for m in ms:
        for arm in m["arms"]:
            ct = [c for c in hirflow.Flow.pat_ctors(arm["p"]) if isinstance(c, str)]
            hp = [c.split("::")[-1] for c in ct if c.startswith(HP + "::")]
            ag = [c.split("::")[-1] for c in ct if c.startswith(AG + "::")]
            if not hp and not ag:
                if arm["p"].get("k") in ("Wild", "Bind") and not arm["p"].get("sub"):
                    wild = True
                continue
            if hp == ["Collect"] and not ag:
                continue  # outer arm of the nested match
            tg = arm_target(arm)
            for v in hp:
                if v != "Collect":
                    dispatch[v] = tg
            for v in ag:
                dispatch["Collect:" + v] = tg
    if wild:
        rep.violation(r1, "wildcard", "the hit-policy dispatch has a wildcard arm", FILE)
    for pol, spec in orc["policies"].items():
        tg = dispatch.get(pol)
        key = "policy:%s" % pol
        if not tg or len(set(tg)) != 1:
            rep.violation(r1, key, "hit policy %s is dispatched to %s (expected exactly one evaluation method)" % (pol, tg), FILE)
            continue
        meth = tg[0]
        if meth not in F.hir:
            rep.missing_anchor(r1, meth)
            continue
        coll, results, default_ok, saw_default = method_features(F, meth, helpers)
        where = "%s:%s" % (FILE, F.hir[meth]["line"])
        probs = []
        if coll != {spec["collection"]}:
            probs.append("collects the matching rules in %s order, the specification prescribes %s" % (sorted(coll) or "no", spec["collection"]))
        shapes = {r[0] for r in results if r[0] != "null"}
        want = spec["result"]
        if shapes != {want}:
            probs.append("returns %s, the specification prescribes %s" % (sorted(shapes), want))
        if not default_ok:
            probs.append("does not return the default output value on the empty-match path" if not saw_default else "the default output is not guarded by the emptiness test")
        # every non-default result must be on the non-empty path
        for shape, cond in results:
            if shape == "null":
                continue
            if not any(hirflow.emptiness(c)[0] == "nonempty" for c in cond):
                probs.append("a result (%s) is produced without the emptiness test dominating it" % shape)
                break
        if probs:
            rep.violation(r1, key, "%s (%s): %s" % (pol, meth.split("::")[-1], "; ".join(probs)), where)
        else:
            rep.ok(r1, key, "%s: %s order, %s, default output when nothing matches" % (meth.split("::")[-1], spec["collection"], want))
    # two policies sharing one method is a slip unless the specification gives them the same behaviour
    inv = {}
    for pol, tg in dispatch.items():
        for t in set(tg):
            inv.setdefault(t, []).append(pol)
    for t, pols in inv.items():
        if len(pols) > 1:
            specs = {json.dumps(orc["policies"].get(p), sort_keys=True) for p in pols}
            if len(specs) > 1:
                rep.violation(r1, "shared:%s" % t.split("::")[-1], "policies %s with different semantics share %s" % (pols, t), FILE)

    # ---------------- R03.2
    def string_table(fn_name):
        h = F.hir.get(fn_name)
        if h is None:
            return None
        tab = {}
        default = None
        for m, _ in find_hir(h["body"], lambda x: x.get("k") == "Match" and x.get("src") == "Normal"):
            for arm in m["arms"]:
                lits = [c[1] for c in hirflow.Flow.pat_ctors(arm["p"]) if isinstance(c, tuple) and c[0] == "lit"]
                vs = variants_in(arm["b"])
                for s in lits:
                    tab[s] = vs
        # default (attribute absent): an `else` branch constructing a variant without a string pattern, or the `None` arm of a match on the optional attribute
        for i, _ in find_hir(h["body"], lambda x: x.get("k") == "If" and "else" in x):
            vs = variants_in(i["else"])
            if vs:
                default = vs
        for m, _ in find_hir(h["body"], lambda x: x.get("k") == "Match" and x.get("src") == "Normal"):
            for arm in m["arms"]:
                pc = hirflow.Flow.pat_ctors(arm["p"])
                if any(isinstance(c, str) and c.endswith("Option::None") for c in pc) and not any(isinstance(c, tuple) and c[0] == "lit" for c in pc):
                    vs = variants_in(arm["b"])
                    if vs:
                        default = vs
        return tab, default

    def variants_in(e):
        hp = [(x.get("path") or x.get("callee")).split("::")[-1] for x, _ in find_hir(e, lambda x: x.get("k") in ("Path", "Call") and ((x.get("path") or x.get("callee") or "").startswith(HP + "::")))]
        ag = [(x.get("path") or x.get("callee")).split("::")[-1] for x, _ in find_hir(e, lambda x: x.get("k") in ("Path", "Call") and ((x.get("path") or x.get("callee") or "").startswith(AG + "::")))]
        hp = sorted(set(hp))
        ag = sorted(set(ag))
        if hp == ["Collect"] and ag:
            return "Collect:" + ag[0]
        if hp:
            return hp[0]
        if ag:
            return ag[0]
        return None
    P = "dmntk_model::model::parser::ModelParser::"
    for fn, want, wdef, what in ((P + "parse_hit_policy_attribute", orc["xml_hit_policy"], orc["xml_hit_policy_default"], "hitPolicy"),
                                 (P + "parse_aggregation_attribute", orc["xml_aggregation"], orc["xml_aggregation_default"], "aggregation")):
        cands = [n for n in F.hir if n.endswith("::" + fn.split("::")[-1]) and n.startswith("dmntk_model::model::parser::")]
        if not cands:
            rep.missing_anchor(r2, fn)
            continue
        tab, default = string_table(cands[0])
        for s, v in want.items():
            got = tab.get(s)
            key = "%s:%s" % (what, s)
            if got == v or (v == "Collect" and (got or "").startswith("Collect")):
                rep.ok(r2, key, "%r -> %s" % (s, got))
            else:
                rep.violation(r2, key, "%s=\"%s\" is read as %s, the specification says %s" % (what, s, got, v), "model/src/model/parser.rs")
        for s, got in tab.items():
            if s not in want:
                rep.violation(r2, "%s:%s" % (what, s), "%s accepts the unspecified spelling %r (-> %s)" % (what, s, got), "model/src/model/parser.rs")
        if default == wdef:
            rep.ok(r2, "%s:<absent>" % what, "defaults to %s" % default)
        else:
            rep.violation(r2, "%s:<absent>" % what, "an absent %s attribute defaults to %s, the specification says %s" % (what, default, wdef), "model/src/model/parser.rs")
    tf = [n for n in F.hir if n.startswith("<" + HP + " as core::convert::TryFrom<&") and n.endswith("::try_from")]
    if not tf:
        rep.missing_anchor(r2, "TryFrom<&str> for HitPolicy")
    else:
        tab, _ = string_table(tf[0])
        for s, v in orc["text_markers"].items():
            got = tab.get(s)
            if got == v:
                rep.ok(r2, "marker:%s" % s, "%r -> %s" % (s, got))
            else:
                rep.violation(r2, "marker:%s" % s, "hit policy marker %r is read as %s, the specification says %s" % (s, got, v), "model/src/model/mod.rs")
        for s, got in tab.items():
            if s not in orc["text_markers"]:
                rep.violation(r2, "marker:%s" % s, "unspecified marker %r accepted (-> %s)" % (s, got), "model/src/model/mod.rs")

    # ---------------- R03.4: ANY - "null when the matching rules' outputs differ": the outputs compared are the complete results
    r4 = rep.rule("R03.4", "ANY returns null when matching rules differ: the comparison that leads to null is over the complete output of the rules (all components)")
    any_m = (dispatch.get("Any") or [None])[0]
    if any_m not in F.hir:
        rep.missing_anchor(r4, "evaluation method of hit policy ANY")
    else:
        fl = hirflow.Flow(F.hir[any_m])

        def unvia(d):
            while isinstance(d, tuple) and d and (d[0] == "via" or (d[0] == "un" and d[1] in ("*", "&"))):
                d = d[2]
            return d

        def whole(d):
            d = unvia(d)
            if isinstance(d, tuple) and d and d[0] == "call" and isinstance(d[1], str) and d[1] == EDT + "get_result":
                return True
            if isinstance(d, tuple) and d and d[0] == "field" and d[1] == "output_entry_values":
                return True
            return False
        verdicts = []
        for d, cond, line in fl.returns:
            if d != ("null",):
                continue
            if not any(c[0] and c[0][0] == "loop-enter" for c in cond if isinstance(c[0], tuple)):
                continue
            cmps = [c for c in cond if isinstance(c[0], tuple) and c[0] and c[0][0] == "bin" and c[0][1] in ("==", "!=") and c[2] == (c[0][1] == "!=")]
            if not cmps:
                verdicts.append((False, line, "the null result inside the loop over the matching rules is not guarded by an inequality of two outputs"))
                continue
            c = cmps[-1][0]
            if whole(c[2]) and whole(c[3]):
                verdicts.append((True, line, "get_result(rule) != get_result(first)"))
            else:
                verdicts.append((False, line, "the outputs are compared through %s and %s, not as complete results (get_result / all output entries): rules that differ in another component are treated as equal"
                                 % (str(unvia(c[2]))[:90], str(unvia(c[3]))[:90])))
        if not verdicts:
            rep.violation(r4, "any:agreement", "%s has no path returning null from the loop over the matching rules" % any_m.split("::")[-1], "%s:%s" % (FILE, F.hir[any_m]["line"]))
        for okk, line, msg in verdicts:
            if okk:
                rep.ok(r4, "any:agreement", msg)
            else:
                rep.violation(r4, "any:agreement", msg, "%s:%s" % (FILE, line))

    # ---------------- R03.5: priority order is lexicographic over the output components
    r5 = rep.rule("R03.5", "priority ordering (PRIORITY, OUTPUT ORDER) is lexicographic over the output components: the comparator leaves the component loop only on a strict difference and ends with Equal")
    pri = [n for n, v in helpers.items() if v == "prioritized"]
    if not pri:
        rep.missing_anchor(r5, "prioritized match-collection helper")
    for n in pri:
        h = F.hir[n]
        # comparator candidates: closures of the helper and the private methods it calls; the comparator is the one with a component loop
        units = [{"params": c.get("params", []), "body": c["body"]} for c, _ in find_hir(h["body"], lambda x: x.get("k") == "Closure")]
        units += [F.hir[c] for c in called_methods(F, h, 2)]
        inloop, tails = [], []
        for u in units:
            fl = hirflow.Flow(u)
            il = [(d, cond, line) for d, cond, line in fl.returns if any(isinstance(c[0], tuple) and c[0] and c[0][0] == "loop-enter" for c in cond)]
            if not il:
                continue
            inloop += il
            tails += [(d, cond, line) for d, cond, line in fl.returns if (d, cond, line) not in il and d and "Ordering::" in repr(d)]
        key = "priority-comparator:%s" % n.split("::")[-1]
        probs = []
        if not inloop:
            probs.append("no component loop with early returns found in the comparator (shape not recognised)")
        for d, cond, line in inloop:
            if d and d[0] in ("ctor", "def") and isinstance(d[1], str) and d[1].endswith(("Ordering::Less", "Ordering::Greater")):
                continue
            # a computed ordering may leave the loop only when it is known not to be Equal
            excl = False
            for c in cond:
                txt = repr(c[0]) + repr(c[1])
                if "Ordering::Equal" in txt and ((c[2] is False and "Ordering::Equal" in repr(c[1])) or (isinstance(c[0], tuple) and c[0][0] == "bin" and c[2] == (c[0][1] == "!="))):
                    excl = True
                if isinstance(c[0], tuple) and c[0] and c[0][0] == "call" and isinstance(c[0][1], str) and ((c[0][1].endswith("::is_ne") and c[2] is True) or (c[0][1].endswith("::is_eq") and c[2] is False)):
                    excl = True
            if not excl:
                probs.append("line %s returns the ordering of one component (%s) without excluding Equal: a tie on this component is not resolved by the following components" % (line, str(d)[:70]))
        # antisymmetry: arms for mirrored patterns ((Some, None) / (None, Some)) return opposite orderings; otherwise compare(x, y) and compare(y, x)
        # can both be Less, the order is not total, and slice::sort_by panics on longer inputs
        lit = {}
        for d, cond, line in inloop:
            if d and d[0] in ("ctor", "def") and isinstance(d[1], str) and d[1].endswith(("Ordering::Less", "Ordering::Greater")):
                for c in reversed(cond):
                    pats = tuple(x.split("::")[-1] for x in c[1] if isinstance(x, str) and x.startswith("core::option::Option::"))
                    if len(pats) == 2 and c[2] is True:
                        lit[pats] = d[1].split("::")[-1]
                        break
        for pats, o in lit.items():
            mir = (pats[1], pats[0])
            if mir != pats and mir in lit and lit[mir] == o:
                probs.append("the arms for %s and %s both return %s: the comparator is not antisymmetric (not a total order; sort_by may panic or give an arbitrary order)" % (pats, mir, o))
                break
        if not any(d and d[0] in ("ctor", "def") and isinstance(d[1], str) and d[1].endswith("Ordering::Equal") for d, cond, line in tails):
            probs.append("the comparator does not end with Ordering::Equal after the component loop")
        if probs:
            rep.violation(r5, key, "; ".join(probs), "%s:%s" % (FILE, h["line"]))
        else:
            rep.ok(r5, key, "%d early returns, all on a strict difference; Equal after the loop" % len(inloop))

    # ---------------- R03.6: sibling agreement of the aggregating COLLECT methods
    r6 = rep.rule("R03.6", "the aggregating COLLECT methods (+, <, >) refuse / accept tables under one and the same condition (sibling agreement of their early null returns)")
    aggs = {pol: (dispatch.get(pol) or [None])[0] for pol in ("Collect:Sum", "Collect:Min", "Collect:Max")}
    guards = {}
    for pol, meth in aggs.items():
        if meth not in F.hir:
            rep.missing_anchor(r6, "evaluation method of %s" % pol)
            continue
        fl = hirflow.Flow(F.hir[meth], inline=edt_helper(F, {meth}))
        gs = set()
        for d, cond, line in effective_returns(fl):
            if d == ("null",):
                # the conditions under which the method gives up, with the method's own name removed
                gs.add(repr(tuple((c[0], c[1], c[2]) for c in cond if not (isinstance(c[0], tuple) and c[0] and c[0][0] == "loop-enter"))))
        guards[pol] = gs
    if len(guards) == 3:
        from collections import Counter
        cnt = Counter(frozenset(g) for g in guards.values())
        major, _ = cnt.most_common(1)[0]
        for pol, gs in guards.items():
            if frozenset(gs) == major and (cnt[major] > 1):
                rep.ok(r6, "aggregator-guard:%s" % pol, "same refusal condition as its siblings (%d null path(s))" % len(gs))
            else:
                rep.violation(r6, "aggregator-guard:%s" % pol, "%s refuses tables under a different condition than the other aggregators: %s vs %s" % (aggs[pol].split("::")[-1], sorted(gs)[:2], sorted(major)[:2]),
                              "%s:%s" % (FILE, F.hir[aggs[pol]]["line"]))

    # ---------------- R03.8: the aggregating policies (count included) aggregate over ALL matching rules' outputs
    r8 = rep.rule("R03.8", "COLLECT with an aggregator (+, <, >, #) consumes the outputs of all matching rules: no de-duplication, filtering or truncation between the matching rules and the aggregate")
    FILTERS = re.compile(r"::(dedup|dedup_by|dedup_by_key|retain|retain_mut|filter|filter_map|skip|skip_while|take|take_while|step_by|truncate|drain|sort_unstable_by_key|unique|contains|"
                         r"swap_remove)$|collections::(hash|btree)::(set|map)::")
    for pol in ("Collect:Sum", "Collect:Min", "Collect:Max", "Collect:Count"):
        meth = (dispatch.get(pol) or [None])[0]
        if meth not in F.bodies:
            rep.undecided(r8, "aggregate-all:%s" % pol, "evaluation method of %s not found" % pol)
            continue
        seen_b, work = set(), [meth]
        bad = []
        while work:
            bn = work.pop()
            if bn in seen_b or bn not in F.bodies:
                continue
            seen_b.add(bn)
            for bi, c in F.body_calls(F.bodies[bn]):
                p2 = c["f"].get("p") or ""
                if FILTERS.search(p2):
                    bad.append((p2.split("::")[-1] if "collections::" not in p2 else p2.split("collections::")[1].split("::")[1], c.get("line")))
                # private helpers of the decision-table module and the closures of this method (not get_results / the rule matching itself)
                if (p2.startswith(bn + "::{closure") or (p2.startswith(DT) and F.fns.get(p2, {}).get("vis") != "pub" and not re.search(r"::(get_results|get_result|get_matching_rules\w*)$", p2))):
                    work.append(p2)
            for cn in F.bodies:
                if cn.startswith(bn + "::{closure"):
                    work.append(cn)
        key = "aggregate-all:%s" % pol
        if bad:
            rep.violation(r8, key, "%s applies %s to the matching rules' outputs before aggregating (line %s): the aggregate must range over the outputs of all matching rules "
                          "(C# counts rules, not distinct outputs)" % (meth.split("::")[-1], sorted({b2[0] for b2 in bad}), bad[0][1]), "%s:%s" % (FILE, bad[0][1]))
        else:
            rep.ok(r8, key, "no filtering / de-duplication in %s" % meth.split("::")[-1])

    # ---------------- R03.9: what the aggregating COLLECT policies aggregate are values of the matching rules (label propagation over MIR)
    r9 = rep.rule("R03.9", "the values handed to the aggregate of COLLECT +, <, >, # derive from the matching rules (get_matching_rules / get_results), not from the table's rules directly")
    import taint
    for pol in ("Collect:Sum", "Collect:Min", "Collect:Max", "Collect:Count"):
        meth = (dispatch.get(pol) or [None])[0]
        key = "aggregate-source:%s" % pol
        if meth not in F.bodies:
            rep.undecided(r9, key, "evaluation method of %s not found" % pol)
            continue
        is_count = pol.endswith("Count")
        tt = taint.Taint(F, is_source=lambda p: "matching-rules" if re.search(r"::(get_matching_rules\w*|get_results|get_result)$", p or "") and p.startswith(EDT) else None,
                         is_sink=lambda p, is_count=is_count: ("aggregate", [0]) if re.search(r"^dmntk_feel_evaluator::(\w+::)*evaluate_(sum|min|max|mean|count)$", p or "") or
                         (is_count and re.search(r"(::len|::count)$", p or "") and ("slice" in p or "vec::Vec" in p or "Iterator" in p)) else None,
                         param_source=lambda n, i, meth=meth: "table" if n == meth and i == 1 else None,
                         opaque=lambda p: bool(re.search(r"::(get_matching_rules\w*|get_results|get_result|evaluate_default_output_value)$", p or "")))
        tt.analyse(meth)
        labs = tt.sinks.get(("aggregate", 0), set())
        if not tt.sink_sites.get("aggregate"):
            rep.undecided(r9, key, "no aggregate call (evaluate_sum / min / max, or a length for #) found in %s" % meth.split("::")[-1])
        elif "table" in labs:
            rep.violation(r9, key, "%s aggregates values taken from the table itself (all rules), not only from the matching rules: the aggregate must range over the outputs of the matching rules"
                          % meth.split("::")[-1], "%s:%s" % (FILE, F.hir[meth]["line"]) if meth in F.hir else FILE)
        elif "matching-rules" in labs:
            rep.ok(r9, key, "aggregates values of the matching rules")
        else:
            rep.undecided(r9, key, "the aggregated values of %s are not traced to the matching rules" % meth.split("::")[-1])

    # ---------------- R03.7: list results are lists; per-clause collections are accumulated, not overwritten
    r7 = rep.rule("R03.7", "list-valued results are lists on every path (also for a single match); collections gathered over the clauses of a table grow in their loop and are never overwritten there")
    gr = F.hir.get(EDT + "get_results")
    if gr is None:
        rep.missing_anchor(r7, EDT + "get_results")
    else:
        fl = hirflow.Flow(gr)
        bad = [(d, line) for d, cond, line in fl.returns if not (d and d[0] == "ctor" and isinstance(d[1], str) and d[1].endswith("Value::List"))]
        if bad:
            rep.violation(r7, "get_results:list", "get_results returns %s at line %s: RULE ORDER / OUTPUT ORDER / COLLECT yield the *list* of matching outputs, also when exactly one rule matches"
                          % (str(bad[0][0])[:80], bad[0][1]), "%s:%s" % (FILE, bad[0][1]))
        else:
            rep.ok(r7, "get_results:list", "every path returns Value::List")
    from props.c05 import _sccs
    nacc = 0
    for bname, b in sorted(F.bodies.items()):
        if not bname.startswith(DT) or b["kind"] == "closure" and False:
            continue
        blocks = b["blocks"]
        nodes = [i for i, bl in enumerate(blocks) if not bl.get("cleanup")]
        succ = {i: [y for y in mirutil.normal_successors(blocks[i]["t"]) if not blocks[y].get("cleanup")] for i in nodes}
        inloop = set()
        for comp in _sccs(nodes, succ):
            if len(comp) > 1 or comp[0] in succ[comp[0]]:
                inloop |= set(comp)
        B = mirutil.Body(F, b)
        for l, defs in B.defs.items():
            ty = B.local_ty(l)
            if not ty.startswith("alloc::vec::Vec<") or B.is_arg(l):
                continue
            outside = [d for d in defs if d[0] not in inloop]
            inside = [d for d in defs if d[0] in inloop]
            # only named source variables (temporaries are re-created per iteration by construction)
            if str(l) not in (b.get("names") or {}):
                continue
            if outside and inside:
                nm = b["names"][str(l)]
                line = inside[0][3].get("line") if isinstance(inside[0][3], dict) else (inside[0][3][-1] if isinstance(inside[0][3], list) else None)
                rep.violation(r7, "accumulator:%s:%s" % (bname.split("::")[-1], nm), "`%s` in %s is initialised before a loop and assigned as a whole inside it (line %s): what earlier iterations "
                              "collected is dropped (e.g. only the last output clause's values survive)" % (nm, bname.split("::")[-1], line), "%s:%s" % (FILE, line))
            elif outside and not inside:
                nacc += 1
    if not any(v["rule"] == r7 and v["key"].startswith("accumulator:") for v in rep.violations):
        rep.ok(r7, "accumulators", "%d vector variables of decision_table.rs are only grown (push / append / extend), none is overwritten inside a loop" % nacc)
    rep.floor(r7, "vector accumulators in decision_table.rs", nacc, 6)

    # ---------------- R03.3 (MIR): the `matches` flag
    name = DT + "evaluate_parsed_decision_table"
    b = F.bodies.get(name)
    if b is None:
        rep.missing_anchor(r3, name)
        return
    B = mirutil.Body(F, b)
    # the local that becomes EvaluatedRule.matches: the bool operand of the aggregate constructing EvaluatedRule
    flag_locals = set()
    for bl in b["blocks"]:
        for st in bl["s"]:
            if st[0] == "A" and st[2][0] == "Agg" and isinstance(st[2][1], list) and st[2][1][0] == "adt" and st[2][1][1].endswith("EvaluatedRule"):
                adt = F.adts.get(st[2][1][1])
                idx = [i for i, f in enumerate(adt["variants"][0]["fields"]) if f["name"] == "matches"] if adt else [0]
                op = st[2][2][idx[0]]
                if op[0] in ("C", "M"):
                    flag_locals.add(op[1][0])
    if not flag_locals:
        # no `matches` flag built in this body (the rules may be evaluated by an iterator chain): the same statement is decided by folding the function on parsed tables (R03.11)
        from props import c03_fold
        probe = []
        import itertools as _it
        for k in (0, 1, 2):
            for ins in _it.product((True, False, None), repeat=k):
                v, _note = c03_fold.fold_table(F, c03_fold.parsed_table([(list(ins), ["a"])], [None], [None]))
                try:
                    m = v[1]["evaluated_rules"][1][0][1]["matches"]
                    probe.append(m[0] in ("bool", "lit") and m[1] is all(t is True for t in ins))
                except (TypeError, KeyError, IndexError):
                    probe.append(False)
        if probe and all(probe):
            rep.ok(r3, "matches-flag", "no match flag in this form; folded on %d parsed rules: a rule matches exactly when every input entry is true (see R03.11)" % len(probe))
        else:
            rep.missing_anchor(r3, "construction of EvaluatedRule in evaluate_parsed_decision_table")
        return
    # follow copies back to the mutable flag variable
    work = list(flag_locals)
    roots = set()
    while work:
        l = work.pop()
        defs = B.defs.get(l, [])
        srcs = [d for d in defs if d[2] == "assign" and d[3][2][0] == "Use" and d[3][2][1][0] in ("C", "M") and len(d[3][2][1][1]) == 1]
        if srcs and len(defs) == len(srcs):
            for d in srcs:
                work.append(d[3][2][1][1][0])
        else:
            roots.add(l)
    ok = True
    detail = []
    for l in roots:
        consts = []
        for (bi, si, kind, st) in B.defs.get(l, []):
            if kind != "assign" or st[2][0] != "Use" or st[2][1][0] != "K":
                ok = False
                detail.append("match flag assigned from a non-constant (%s)" % (st[2][0] if kind == "assign" else "call result"))
                continue
            v = st[2][1][3] if len(st[2][1]) > 3 else None
            consts.append((bi, bool(v)))
        trues = [bi for bi, v in consts if v]
        falses = [bi for bi, v in consts if not v]
        if len(trues) != 1:
            ok = False
            detail.append("match flag is set to true %d times (expected once, as its initial value)" % len(trues))
        if not falses:
            ok = False
            detail.append("match flag is never cleared")
        # every clearing assignment must be control-dependent on an `is_true` test of an entry value
        for bi in falses:
            dom = B.dominators()[bi]
            tests = []
            for d in dom:
                t = b["blocks"][d]["t"]
                if t[0] == "call" and (t[1]["f"].get("p") or "").endswith("values::Value::is_true"):
                    tests.append(d)
            if not tests:
                ok = False
                detail.append("the flag is cleared without a dominating is_true() test of an input entry value")
    if ok:
        rep.ok(r3, "matches-flag", "initialised true once, cleared only under a failed is_true() test inside the entry loop")
    else:
        rep.violation(r3, "matches-flag", "; ".join(detail), "%s:%s" % (FILE, b["line"]))
