"""C12: loading any model text yields a usable model or an error, never a crash (DESIGN §3 C12)."""
import re

import callgraph
import mirutil
from props import c05

LEVEL = "other"
CRATES_QUICK = None
CRATES_THOROUGH = None
PID = "C12"
ME = "dmntk_model_evaluator::model_evaluator::ModelEvaluator::"
WS = "dmntk_workspace::workspace::Workspace::"


def entry_points(F, tier):
    roots = [n for n in F.bodies if n in ("dmntk_model::model::parser::parse", "dmntk_model::parse")]
    roots += [n for n, b in F.bodies.items() if n.startswith("dmntk_model::") and b.get("vis") == "pub" and n.split("::")[-1] == "parse"]
    roots += [ME + x for x in ("new", "evaluate_invocable", "evaluate_decision", "evaluate_business_knowledge_model", "evaluate_decision_service")]
    roots += [n for n, b in F.bodies.items() if n.startswith(WS) and b.get("vis") == "pub"]
    if tier == "thorough":
        roots += [n for n, b in F.bodies.items() if b.get("vis") == "pub" and b["kind"] != "closure" and
                  b["_crate"].split(".")[0] in ("dmntk_model_evaluator", "dmntk_workspace") and not n.startswith("dmntk_model_evaluator::tests")]
    return sorted(set(r for r in roots if r in F.bodies))


FLOORS = {"quick": dict(bodies=1400, sites=440), "thorough": dict(bodies=1400, sites=440)}


def run(F, rep, tier):
    roots = entry_points(F, tier)
    c05.run_inventory(F, rep, tier, PID, roots, FLOORS[tier],
                      ("loading and evaluating DMN models", "dmntk_model::parse, ModelEvaluator::new / evaluate_*, and every public Workspace operation"))
    G = callgraph.CallGraph(F)
    r3 = rep.rule("R12.3", "ModelEvaluator::new never re-acquires a registry lock it is holding for writing (non-re-entrant RwLock)")
    self_deadlock(F, G, rep, r3)
    r4 = rep.rule("R12.4", "Workspace::deploy swallows per-model build errors (checked under C17/R17.4) and ModelEvaluator::new reports build errors as Err")
    b = F.bodies.get(ME + "new")
    if b is None:
        rep.missing_anchor(r4, ME + "new")
    else:
        ret = F.crates[b["_crate"]]["types"][b["locals"][0]]
        if "Result<" in ret:
            rep.ok(r4, "ModelEvaluator::new", "returns %s" % ret[:80])
        else:
            rep.violation(r4, "ModelEvaluator::new", "ModelEvaluator::new returns %s, build problems cannot be reported" % ret, b["file"])
    # premise of "invoking any invocable returns a value": slice::sort_by panics (Rust >= 1.81) when the comparator is not a total order; the only
    # user-written comparator on the evaluation path is the priority comparator of the decision tables, whose order properties are rules R03.5 of C03
    from props import c03
    expl = rep.explanation
    c03.run(F, rep, tier)
    rep.explanation = expl + " The decision-table rules of C03 (R03.x, among them the total-order conditions of the priority comparator handed to sort_by) are re-evaluated as premises."


def lock_wrappers(F, prefix):
    """local functions that only acquire the lock they are given: fn f(lock: &RwLock<T>) -> ..Guard { lock.read() / lock.write() } - a call of such a wrapper is an
    acquisition of its argument (a wrapper "acquires the lock" when it returns with the lock held)"""
    out = {}
    for n, bb in F.bodies.items():
        if not n.startswith(prefix) or bb.get("kind") == "closure" or not bb.get("argc"):
            continue
        tys = F.crates[bb["_crate"]]["types"]
        if "RwLock<" not in tys[bb["locals"][1]] or "Guard<" not in tys[bb["locals"][0]]:
            continue
        B = mirutil.Body(F, bb)
        for bi, c in F.body_calls(bb):
            pp = c["f"].get("p") or ""
            m = re.search(r"RwLock::<.*>::(read|write)$", pp)
            if m and c["args"] and B.pointer_root(c["args"][0]) == {("param", 1)}:
                out[n] = m.group(1)
    return out


def locked_field(B, a, fields, depth=0):
    """name of the struct field whose lock the reference operand designates (`&self.field`, possibly re-borrowed)"""
    if a[0] not in ("C", "M") or depth > 4:
        return None
    for (dbi, dsi, kind, st) in B.defs.get(a[1][0], []):
        if kind == "assign" and st[2][0] == "Ref":
            pl = st[2][2]
            flds = [e[1] for e in pl[1:] if isinstance(e, list) and e[0] == "."]
            if flds and flds[-1] < len(fields):
                return fields[flds[-1]]
            r = locked_field(B, ["C", [pl[0]]], fields, depth + 1)
            if r:
                return r
        elif kind == "assign" and st[2][0] == "Use" and st[2][1][0] in ("C", "M"):
            r = locked_field(B, st[2][1], fields, depth + 1)
            if r:
                return r
    return None


def lock_call(p, wrappers):
    """'read' / 'write' when the callee acquires an RwLock (directly or through a wrapper), else None"""
    m = re.search(r"RwLock::<.*>::(read|write)$", p or "")
    if m:
        return m.group(1)
    return wrappers.get(p)


def self_deadlock(F, G, rep, rid):
    """in ModelEvaluator::new: while the guard of `self.X.write()` is alive, the callee (`build`) must not reach an acquisition of the same field"""
    name = ME + "new"
    b = F.bodies.get(name)
    if b is None:
        rep.missing_anchor(rid, name)
        return
    adt = F.adts.get("dmntk_model_evaluator::model_evaluator::ModelEvaluator")
    fields = [f["name"] for f in adt["variants"][0]["fields"]] if adt else []
    # accessor -> field: pub fn X(&self) -> Result<RwLockReadGuard<..>> { self.X.read() }
    acc = {}
    wrappers = lock_wrappers(F, "dmntk_model_evaluator::")
    for n, bb in F.bodies.items():
        if not n.startswith(ME) or n in wrappers:
            continue
        for bi, c in F.body_calls(bb):
            p = c["f"].get("p") or ""
            if lock_call(p, wrappers) and c["args"]:
                B = mirutil.Body(F, bb)
                fl0 = locked_field(B, c["args"][0], fields)
                if fl0:
                    acc.setdefault(n, set()).add((fl0, lock_call(p, wrappers)))
    B = mirutil.Body(F, b)
    nlocks = 0
    for bi, c in F.body_calls(b):
        p = c["f"].get("p") or ""
        if lock_call(p, wrappers) != "write":
            continue
        held = [x[0] for x in acc.get(name, ()) if True]
        # which field: resolve the argument
        fld = locked_field(B, c["args"][0], fields)
        if fld is None:
            continue
        nlocks += 1
        # the guard lives until the end of the statement: find the `build` call whose receiver derives from this guard = next local call after this block
        nxt = None
        work = [c.get("target")]
        seen = set()
        while work:
            x = work.pop()
            if x is None or x in seen:
                continue
            seen.add(x)
            t = b["blocks"][x]["t"]
            if t[0] == "call" and (t[1]["f"].get("p") or "") in F.bodies and (t[1]["f"].get("p") or "") not in wrappers:
                nxt = t[1]["f"]["p"]
                break
            work += mirutil.normal_successors(t)
        if nxt is None:
            rep.violation(rid, "new:%s" % fld, "cannot find the build call made under the write lock of %s" % fld, b["file"])
            continue
        reach, pred = G.reach([nxt], kinds=("call", "trait", "immediate", "callback"))
        bad = [n for n in reach if any(f == fld for f, _ in acc.get(n, ()))]
        if bad:
            rep.violation(rid, "new:%s" % fld, "while ModelEvaluator::new holds the write lock of `%s`, %s reaches %s which locks the same registry: self-deadlock"
                          % (fld, nxt.split("::")[-2] + "::build", bad[0]), "%s:%s" % (b["file"], c.get("line")))
        else:
            rep.ok(rid, "new:%s" % fld, "%s (build-time reach %d bodies) never locks `%s` again" % (nxt.split("::")[-2] + "::" + nxt.split("::")[-1], len(reach), fld))
    rep.floor(rid, "write-lock acquisitions in ModelEvaluator::new", nlocks, 8)
