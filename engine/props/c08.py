"""C08: built-in functions - exhaustive dispatch, name<->Bif bijection, named/positional sibling agreement (DESIGN §3 C08)."""
import json
import os

import hirflow
from facts import find_hir, strip

LEVEL = "other"
CRATES_QUICK = ["dmntk_feel_evaluator", "dmntk_feel"]
CRATES_THOROUGH = None
VERIF = os.path.dirname(os.path.dirname(os.path.dirname(os.path.abspath(__file__))))
CORE = "dmntk_feel_evaluator::bifs::core::"
BIF = "dmntk_feel::bif::Bif"


def dispatch_table(F, rep, rid, fn_name):
    """variant -> wrapper function (resolved callee) of an evaluate_bif match"""
    h = F.hir.get(fn_name)
    if h is None:
        rep.missing_anchor(rid, fn_name)
        return None, False
    ms = [m for m, _ in find_hir(h["body"], lambda n: n.get("k") == "Match" and n.get("src") == "Normal")
          if any(p.startswith(BIF + "::") for arm in m["arms"] for p in hirflow.Flow.pat_ctors(arm["p"]) if isinstance(p, str))]
    if not ms:
        rep.missing_anchor(rid, "match over Bif in " + fn_name)
        return None, False
    m = ms[0]
    table = {}
    wildcard = False
    for arm in m["arms"]:
        ctors = [p for p in hirflow.Flow.pat_ctors(arm["p"]) if isinstance(p, str) and p.startswith(BIF + "::")]
        if not ctors:
            wildcard = True
            continue
        calls = [c for c, _ in find_hir(arm["b"], lambda n: n.get("k") == "Call" and (n.get("callee") or "").startswith("dmntk_feel_evaluator::bifs::"))]
        for c in ctors:
            v = c.split("::")[-1]
            table.setdefault(v, []).extend(x["callee"] for x in calls)
    return table, wildcard


def simp(d):
    """strip list-unwrapping / borrowing / Some(..) from an argument descriptor"""
    while d:
        if d[0] in ("via", "unwrap"):
            d = d[2]
        elif d[0] == "ctor" and isinstance(d[1], str) and d[1].endswith("Option::Some") and len(d) > 2 and d[2]:
            d = d[2][0]
        else:
            break
    return d


def alternatives(d):
    """the alternatives of a descriptor produced by an expanded helper with several returns (None alternatives carry no argument)"""
    if d and d[0] == "alt":
        out = []
        for x in d[1]:
            if x and x[0] in ("ctor", "def") and isinstance(x[1], str) and x[1].endswith("Option::None"):
                continue
            out += alternatives(x)
        return out
    return [d]


def wrapper_calls(F, fn, first):
    """all calls into bifs::core made by a wrapper (and by same-module helpers it calls), with descriptors"""
    out = []
    seen = set()
    work = [fn]
    mod = fn.rsplit("::", 1)[0]
    while work:
        f = work.pop()
        if f in seen or f not in F.hir:
            continue
        seen.add(f)
        def helper(callee, _mod=mod):
            # small same-module helpers that only select / repackage the parameters (extract-function refactorings) are expanded at the call site
            hh = F.hir.get(callee)
            if hh is None or not callee.startswith(_mod + "::") or callee.endswith("::get_param") or callee.split("::")[-1].startswith("bif_") or callee.endswith("::evaluate_bif"):
                return None
            return hh
        fl = hirflow.Flow(F.hir[f], first_param_desc=first, inline=helper)
        for callee, args, cond, line, node in fl.calls:
            if not callee:
                continue
            if callee.startswith(CORE):
                import itertools
                for combo in itertools.product(*[alternatives(a) for a in args]):
                    out.append((callee[len(CORE):], [simp(a) for a in combo], cond, line, f))
            elif callee.startswith(mod + "::") and not callee.endswith("::get_param") and helper(callee) is None:
                work.append(callee)
    return out


def static_strings(F, static_path):
    """string value of a lazy_static Name: the literals of its initializer, joined by a space"""
    for n, h in F.hir.items():
        if n.startswith("<" + static_path + " as ") and n.endswith("__static_ref_initialize"):
            lits = [x["v"] for x, _ in find_hir(h["body"], lambda n: n.get("k") == "Lit" and n.get("lit") == "str")]
            return " ".join(lits)
    return None


def run(F, rep, tier):
    rep.explanation = ("Table extraction from the type-checked HIR: the two 73-arm evaluate_bif dispatchers, Bif::from_str, and for every Bif variant the "
                       "set of core functions reached by the positional and by the named wrapper together with the provenance of every argument "
                       "(parameters[i] / named parameter / null). Sibling cross-check named vs positional and against the specification's parameter order. "
                       "Values computed by the core functions are not decided.")
    rep.assumptions += ["core functions are reached only through direct calls from the wrappers (no function pointers in bifs::positional / bifs::named)",
                        "parameter names: where the repository's own tests pin a name that differs from the specification, the implemented name is the contract"]
    r1 = rep.rule("R08.1", "both evaluate_bif dispatchers match every Bif variant explicitly (no wildcard) and send it to one wrapper")
    r2 = rep.rule("R08.2", "Bif::from_str is a bijection between name strings and variants")
    r3 = rep.rule("R08.3", "named wrapper reaches a subset of the core functions the positional wrapper reaches; empty only for audited variadics")
    r4 = rep.rule("R08.4", "an omitted optional trailing argument is passed as null by both wrappers at the same argument index")
    r5 = rep.rule("R08.5", "named parameter -> core argument index agrees with positional index under the specification's parameter order")
    units_rule(F, rep)
    slice_end_rule(F, rep)
    feel_equality_rule(F, rep)
    arity_rule(F, rep)
    search_direction_rule(F, rep)
    no_trim_rule(F, rep)
    from props import c08_lists
    c08_lists.run(F, rep)
    adt = F.adts.get(BIF)
    if adt is None:
        rep.missing_anchor(r1, BIF)
        return
    variants = [v["name"] for v in adt["variants"]]
    rep.floor(r1, "Bif variants", len(variants), 73)
    ptab, pw = dispatch_table(F, rep, r1, "dmntk_feel_evaluator::bifs::positional::evaluate_bif")
    ntab, nw = dispatch_table(F, rep, r1, "dmntk_feel_evaluator::bifs::named::evaluate_bif")
    if ptab is None or ntab is None:
        return
    for nm, tab, w in (("positional", ptab, pw), ("named", ntab, nw)):
        if w:
            rep.violation(r1, "%s:wildcard" % nm, "%s::evaluate_bif has a wildcard arm: a new Bif variant would silently evaluate to whatever the wildcard does" % nm,
                          "feel-evaluator/src/bifs/%s.rs" % nm)
        for v in variants:
            tg = tab.get(v, [])
            if len(set(tg)) == 1:
                rep.ok(r1, "%s:%s" % (nm, v), tg[0])
            else:
                rep.violation(r1, "%s:%s" % (nm, v), "Bif::%s is dispatched to %s in %s::evaluate_bif (expected exactly one wrapper)" % (v, tg, nm),
                              "feel-evaluator/src/bifs/%s.rs" % nm)
        # two variants sharing one wrapper is a copy/paste slip
        inv = {}
        for v, tg in tab.items():
            for t in set(tg):
                inv.setdefault(t, []).append(v)
        for t, vs in inv.items():
            if len(vs) > 1:
                rep.violation(r1, "%s:shared:%s" % (nm, t.split("::")[-1]), "variants %s share the wrapper %s" % (vs, t), "feel-evaluator/src/bifs/%s.rs" % nm)

    # R08.2
    fs = F.hir.get("<dmntk_feel::bif::Bif as core::str::traits::FromStr>::from_str")
    name_of = {}
    if fs is None:
        rep.missing_anchor(r2, "<Bif as FromStr>::from_str")
    else:
        m = [m for m, _ in find_hir(fs["body"], lambda n: n.get("k") == "Match" and n.get("src") == "Normal")]
        pairs = []
        for arm in (m[0]["arms"] if m else []):
            lits = [p[1] for p in hirflow.Flow.pat_ctors(arm["p"]) if isinstance(p, tuple) and p[0] == "lit"]
            vs = [x["path"].split("::")[-1] for x, _ in find_hir(arm["b"], lambda n: n.get("k") == "Path" and (n.get("path") or "").startswith(BIF + "::"))]
            for s in lits:
                pairs.append((s, vs))
        seen_s = {}
        seen_v = {}
        for s, vs in pairs:
            if len(vs) != 1:
                rep.violation(r2, "name:%s" % s, "name %r maps to %s" % (s, vs), "feel/src/bif.rs")
                continue
            if s in seen_s:
                rep.violation(r2, "name:%s" % s, "name %r matched twice (second arm is dead)" % s, "feel/src/bif.rs")
                continue
            seen_s[s] = vs[0]
            seen_v.setdefault(vs[0], []).append(s)
        for v in variants:
            ss = seen_v.get(v, [])
            if len(ss) == 1:
                rep.ok(r2, "variant:%s" % v, ss[0])
                name_of[v] = ss[0]
            elif not ss:
                rep.violation(r2, "variant:%s" % v, "Bif::%s is not produced by from_str for any name: the function cannot be invoked" % v, "feel/src/bif.rs")
            else:
                rep.violation(r2, "variant:%s" % v, "Bif::%s has several names %s" % (v, ss), "feel/src/bif.rs")
                name_of[v] = ss[0]
        rep.floor(r2, "from_str arms", len(pairs), 73)

    sig = json.load(open(os.path.join(VERIF, "tables", "bif_signatures.json")))
    fam = set(sig["c08_families"])
    statics = {}
    n_named_calls = 0
    for v in variants:
        fname = name_of.get(v, v)
        pw_fn = (ptab.get(v) or [None])[0]
        nw_fn = (ntab.get(v) or [None])[0]
        if not pw_fn or not nw_fn:
            continue
        pc = wrapper_calls(F, pw_fn, ("params",))
        nc = wrapper_calls(F, nw_fn, ("params",))
        P = {c for c, _, _, _, _ in pc}
        N = {c for c, _, _, _, _ in nc}
        where_n = "%s:%s" % (F.hir[nw_fn]["file"], F.hir[nw_fn]["line"])
        # R08.3
        if not N:
            if not P:
                rep.ok(r3, v, "not implemented in either form")
            elif fname in sig["variadic_no_named_form"]:
                rep.ok(r3, v, "variadic, the specification defines no named invocation", how="audited")
            elif fname in fam:
                rep.violation(r3, v, "'%s': positional invocation reaches core::%s but the named invocation reaches no core function (always null)" % (fname, sorted(P)), where_n)
            else:
                rep.ok(r3, v, "named form unimplemented; function outside the families C08 speaks about (noted)", how="audited")
                rep.note("named form of '%s' is unimplemented (outside C08's families)" % fname)
        elif N <= P:
            rep.ok(r3, v, "named %s within positional %s" % (sorted(N), sorted(P)))
        else:
            rep.violation(r3, v, "'%s': named invocation reaches core::%s, positional invocation reaches core::%s" % (fname, sorted(N - P), sorted(P)), where_n)
        # R08.4 / R08.5: argument provenance per (core fn, arg index)
        ppos = {}
        for c, args, cond, line, f in pc:
            for i, a in enumerate(args):
                ppos.setdefault((c, i), set()).add(a if a and a[0] in ("pos", "null", "pos_slice", "params") else ("other",))
        sigs = sig["signatures"].get(fname)
        for c, args, cond, line, f in nc:
            if c not in P:
                continue
            n_named_calls += 1
            for i, a in enumerate(args):
                key = "%s:%s:arg%d" % (v, c, i)
                pset = ppos.get((c, i), set())
                if a and a[0] == "null":
                    if ("null",) in pset:
                        rep.ok(r4, key, "null for the omitted optional argument in both forms")
                    else:
                        rep.violation(r4, key, "'%s': named wrapper passes null as argument %d of core::%s, the positional wrapper never does (%s)" % (fname, i, c, sorted(pset)),
                                      "%s:%s" % (F.hir[f]["file"], line))
                elif a and a[0] == "name":
                    st = a[1]
                    if st not in statics:
                        statics[st] = static_strings(F, st)
                    s = statics[st]
                    if s is None:
                        rep.violation(r5, key, "cannot determine the string value of %s" % st, "%s:%s" % (F.hir[f]["file"], line))
                        continue
                    if sigs is None:
                        rep.ok(r5, key, "no specification signature recorded for '%s' (outside C08's families); not judged" % fname, how="audited")
                        continue
                    pj = sorted(p[1] for p in pset if p[0] == "pos")
                    allowed = set()
                    for sg in sigs:
                        for j in pj:
                            if j < len(sg):
                                allowed.add(sg[j])
                    pinned = sig.get("repo_pinned", {}).get(fname, {})
                    if s in allowed or pinned.get(s) in allowed:
                        rep.ok(r5, key, "named parameter '%s' -> argument %d of core::%s = positional parameter %s" % (s, i, c, pj))
                    else:
                        rep.violation(r5, key, "'%s': named parameter '%s' is passed as argument %d of core::%s, where the positional form passes parameter(s) %s = %s in the specification's order"
                                      % (fname, s, i, c, pj, sorted(allowed)), "%s:%s" % (F.hir[f]["file"], line))
    rep.floor(r5, "named core calls analysed", n_named_calls, 60)
    rep.analysed.update(dict(bif_variants=len(variants), named_core_calls=n_named_calls, name_statics=len(statics)))


# ======================================================================================================
# R08.6: units of measure in the string built-ins: byte offsets vs character counts
BYTE_SOURCES = r"(core::str::<impl str>::(len|find|rfind)|alloc::string::String::len|core::str::<impl str>::(match_indices|char_indices|len_utf8)|char::methods::<impl char>::len_utf8)$"
CHAR_SINKS = r"core::iter::traits::iterator::Iterator::(skip|take|nth|step_by)$"


def units_rule(F, rep):
    """FEEL positions and lengths count Unicode characters; Rust's str::len / find / slicing count UTF-8 bytes. A units-of-measure analysis over the MIR
    definition chains of the string built-ins: a value is BYTES (from str::len, String::len, str::find, ...), CHARS (from chars().count()) or neutral;
    adding or subtracting BYTES and CHARS, slicing a string at a CHARS position, or stepping a chars() iterator by a BYTES amount mixes the units -
    the result is right for ASCII only."""
    import re
    import g1_panic
    rid = rep.rule("R08.6", "string built-ins never mix UTF-8 byte offsets with character counts (add/subtract, slice positions, chars().skip/take amounts)")
    nsrc = 0
    for name in sorted(F.bodies):
        if not name.startswith("dmntk_feel_evaluator::bifs::core::") or F.bodies[name]["kind"] == "closure" and False:
            continue
        b = F.bodies[name]
        A = g1_panic.Analyzer(F, name)
        B = A.B
        memo = {}

        def from_chars(op, depth=0):
            """does the iterator operand derive from str::chars()?"""
            if op[0] not in ("C", "M") or depth > 8:
                return False
            defs = B.defs.get(op[1][0], [])
            if len(defs) != 1:
                return False
            bi, si, kind, st = defs[0]
            if kind == "call":
                p = st["f"].get("p") or ""
                if p.endswith("core::str::<impl str>::chars"):
                    return True
                return bool(st["args"]) and from_chars(st["args"][0], depth + 1)
            rv = st[2]
            if rv[0] == "Use":
                return from_chars(rv[1], depth + 1)
            if rv[0] in ("Ref",):
                return from_chars(["C", rv[2]], depth + 1)
            return False

        def unit(op, depth=0):
            """'B', 'C', 'X' (mixed) or None"""
            if op[0] not in ("C", "M") or depth > 10:
                return None
            l = op[1][0]
            if (l, len(op[1])) in memo:
                return memo[(l, len(op[1]))]
            defs = B.defs.get(l, [])
            u = None
            if len(defs) == 1:
                bi, si, kind, st = defs[0]
                if kind == "call":
                    p = st["f"].get("p") or ""
                    if re.search(BYTE_SOURCES, p):
                        u = "B"
                    elif p.endswith("Iterator>::count") or p.endswith("Iterator::count"):
                        u = "C" if st["args"] and from_chars(st["args"][0]) else None
                    elif re.search(r"(checked_add|checked_sub|saturating_sub|saturating_add|wrapping_add|wrapping_sub|core::cmp::(min|max)|Ord::(min|max))$", p) and len(st["args"]) == 2:
                        a, c = unit(st["args"][0], depth + 1), unit(st["args"][1], depth + 1)
                        u = "X" if {a, c} >= {"B", "C"} or "X" in (a, c) else (a or c)
                else:
                    rv = st[2]
                    if rv[0] == "Use":
                        u = unit(rv[1], depth + 1)
                    elif rv[0] == "Cast":
                        u = unit(rv[2], depth + 1)
                    elif rv[0] == "Bin" and rv[1].replace("WithOverflow", "") in ("Add", "Sub"):
                        a, c = unit(rv[2], depth + 1), unit(rv[3], depth + 1)
                        u = "X" if {a, c} >= {"B", "C"} or "X" in (a, c) else (a or c)
                    elif rv[0] == "Agg":
                        us = [unit(x, depth + 1) for x in rv[2]]
                        u = "X" if "X" in us or {"B", "C"} <= set(us) else next((x for x in us if x), None)
            memo[(l, len(op[1]))] = u
            return u
        k = 0
        for bi, bl in enumerate(b["blocks"]):
            if bl.get("cleanup"):
                continue
            for st in bl["s"]:
                if st[0] == "A" and st[2][0] == "Bin" and st[2][1].replace("WithOverflow", "") in ("Add", "Sub"):
                    a, c = unit(st[2][2]), unit(st[2][3])
                    if a or c:
                        nsrc += 1
                    if {a, c} >= {"B", "C"}:
                        rep.violation(rid, "%s:mixed-arith#%d" % (name.split("::")[-1], k), "%s adds/subtracts a UTF-8 byte offset and a character count at line %s: correct for ASCII text only"
                                      % (name.split("::")[-1], st[-1]), "%s:%s" % (b["file"], st[-1]))
                        k += 1
            t = bl["t"]
            if t[0] != "call":
                continue
            p = t[1]["f"].get("p") or ""
            args = t[1]["args"]
            if re.search(r"(String|str) as core::ops::index::Index(Mut)?<.*>>::index(_mut)?$", p) and len(args) == 2:
                u = unit(args[1])
                nsrc += 1
                if u in ("C", "X"):
                    rep.violation(rid, "%s:slice#%d" % (name.split("::")[-1], k), "%s slices a string at a position that is (partly) a character count (line %s): byte and character positions differ "
                                  "for non-ASCII text" % (name.split("::")[-1], t[1].get("line")), "%s:%s" % (b["file"], t[1].get("line")))
                    k += 1
            if re.search(CHAR_SINKS, p) and len(args) == 2 and from_chars(args[0]):
                u = unit(args[1])
                nsrc += 1
                if u in ("B", "X"):
                    rep.violation(rid, "%s:chars-step#%d" % (name.split("::")[-1], k), "%s steps a chars() iterator by an amount that is (partly) a byte offset (line %s)" % (name.split("::")[-1], t[1].get("line")),
                                  "%s:%s" % (b["file"], t[1].get("line")))
                    k += 1
    if not any(v["rule"] == rid for v in rep.violations):
        rep.ok(rid, "units", "%d unit-bearing operations in bifs::core, none mixes bytes and characters" % nsrc)
    rep.floor(rid, "unit-bearing operations (slices, chars() steps, arithmetic on lengths/offsets)", nsrc, 8)


def slice_end_rule(F, rep):
    """R08.7: `items[first..last]` is valid for every last <= len. Where a built-in guards such a slice by comparing its (exclusive) end with the
    length of the sliced collection, the comparison must be non-strict: `last < len` rejects the sub-list / sub-string that ends at the last element,
    which is inside the function's domain."""
    import g1_panic
    rid = rep.rule("R08.7", "built-ins that guard a range slice by its end compare `end <= len`, not `end < len` (a result ending at the last element is in the domain)")
    n = 0
    for name in sorted(F.bodies):
        if not name.startswith("dmntk_feel_evaluator::bifs::core::"):
            continue
        A = g1_panic.Analyzer(F, name)
        k = 0
        for s in g1_panic.collect_sites(F, name):
            if s.kind != "call" or "::index" not in s.what or not s.ops or len(s.ops) < 2:
                continue
            rg = A.range_operand(s.ops[1])
            if not rg or rg[2] != "Range" or rg[1] is None:
                continue
            hi = rg[1]
            coll = A.operand_root(s.ops[0])
            verdict = None
            for f in A.facts_at(s.block, stale_ok=True):
                if f[0] != "cmp":
                    continue
                op, x, y = f[1], f[2], f[3]
                if y == hi and x[0] == "len":
                    op, x, y = g1_panic.FLIP[op], y, x
                if x == hi and y[0] == "len" and A.base_of(y[1]) == A.base_of(coll):
                    if op == "<=":
                        verdict = verdict or "ok"
                    elif op == "<":
                        verdict = "strict"
            if verdict is None:
                continue
            n += 1
            key = "%s:slice-end#%d" % (name.split("::")[-1], k)
            k += 1
            if verdict == "ok":
                rep.ok(rid, key, "end <= len")
            else:
                rep.violation(rid, key, "%s guards the slice at line %s with `end < len`: a result that ends at the last element is rejected (returns null inside the function's domain)"
                              % (name.split("::")[-1], s.line), "%s:%s" % (F.bodies[name]["file"], s.line))
    if n == 0:
        # no guard of the recognised shape (a comparison dominating the slice): the statement "a result that ends at the last element is in the domain" is then decided
        # by folding sublist on the cases that end at the last element (and one past it), the guard wherever it is written (an Option chain, a helper)
        from props import c08_lists
        cases = [([c08_lists.L4, 1, 4], c08_lists.L4), ([c08_lists.L4, 4, 1], ["d"]), ([c08_lists.L4, -1, 1], ["d"]), ([c08_lists.L4, 2, 3], ["b", "c", "d"]), ([c08_lists.L4, 2, 4], None)]
        got = [c08_lists.fold(F, "bif_sublist", a)[0] for a, _ in cases]
        if all(g is not None and len(g) == 1 and g[0] == w for g, (_, w) in zip(got, cases)):
            n = 1
            rep.ok(rid, "sublist:slice-end:fold", "sublist folded on the cases ending at the last element answers the specified list (and null one past it)")
    rep.floor(rid, "range slices guarded by their end", n, 1)


def feel_equality_rule(F, rep):
    """R08.8: FEEL values are compared with FEEL equality (evaluate_equals / eval_ternary_equality: numbers by value, nulls equal whatever their
    diagnostic text, ...). Rust's derived `PartialEq for Value` compares representations; a built-in that uses it (==, !=, slice::contains, dedup,
    HashSet / BTreeSet of Value) disagrees with `=` and with the sibling built-ins."""
    import re
    rid = rep.rule("R08.8", "built-ins never compare FEEL values with Rust's derived equality (==, contains, dedup on Value): membership and equality go through FEEL equality")
    n = 0
    bad = 0
    for name, h in sorted(F.hir.items()):
        if not name.startswith("dmntk_feel_evaluator::bifs::core::"):
            continue
        n += 1
        for x, _ in find_hir(h["body"], lambda x: x.get("k") in ("Binary", "MethodCall", "Call") and x.get("callee")):
            cal = x["callee"]
            if not re.search(r"(PartialEq(<.*>)?>?::(eq|ne)$|slice::<impl \[T\]>::(contains|starts_with|ends_with)$|Vec::<.*>::(dedup|dedup_by_key)$|VecDeque::<.*>::contains$)", cal):
                continue
            tys = []
            for key in ("a", "b", "recv"):
                e = x.get(key)
                if isinstance(e, dict) and e.get("t") is not None:
                    tys.append(F.ty(h, e["t"]))
                if isinstance(e, dict) and e.get("adj_t") is not None:
                    tys.append(F.ty(h, e["adj_t"]))
            if x.get("self_ty") is not None:
                tys.append(F.ty(h, x["self_ty"]))
            if any(re.search(r"dmntk_feel::values::Values?\b", t) for t in tys):
                bad += 1
                rep.violation(rid, "%s:derived-eq" % name.split("::")[-1], "%s compares FEEL values with Rust's derived equality (%s at line %s): nulls with different diagnostics, numbers of different scale "
                              "inside nested values etc. compare unequal although `=` says equal" % (name.split("::")[-1], cal.split("::")[-1], x.get("l")), "%s:%s" % (h["file"], x.get("l")))
    # membership / de-duplication keyed by a *rendering* of the value (to_feel_string, to_string, jsonify, format!): 1 and 1.0, 0.5 and 0.50 are equal in FEEL and render differently
    RENDER = ("to_feel_string", "to_string", "jsonify")
    KEYED = re.compile(r"(HashSet|BTreeSet|HashMap|BTreeMap|IndexSet|IndexMap)::<.*>::(insert|contains|contains_key|entry|get|replace|remove)$|slice::<impl \[T\]>::contains$|Vec::<.*>::(contains|dedup)$")
    for name, h in sorted(F.hir.items()):
        if not name.startswith("dmntk_feel_evaluator::bifs::core::"):
            continue
        bodies = [h]
        al = {}
        for st, _ in find_hir(h["body"], lambda x: x.get("k") == "LetStmt" and x.get("p", {}).get("k") == "Bind" and "e" in x):
            al[st["p"]["name"]] = st["e"]

        def renders_value(e, depth=0):
            if depth > 4:
                return None
            for x, _ in find_hir(e, lambda x: x.get("k") == "MethodCall" and x.get("method") in RENDER):
                r = x.get("recv", {})
                tys = [F.ty(h, r[k]) for k in ("t", "adj_t") if r.get(k) is not None]
                if any(re.search(r"dmntk_feel::values::Values?\b", t) for t in tys):
                    return x.get("method")
            for x, _ in find_hir(e, lambda x: x.get("k") == "Path" and x.get("res") == "local" and x.get("name") in al):
                r = renders_value(al[x["name"]], depth + 1)
                if r:
                    return r
            return None
        for x, _ in find_hir(h["body"], lambda x: x.get("k") == "MethodCall" and KEYED.search(x.get("callee") or "")):
            how = renders_value(x.get("args", []))
            if how:
                bad += 1
                rep.violation(rid, "%s:rendered-key" % name.split("::")[-1], "%s decides membership / equality of FEEL values by their text (%s() as key of %s at line %s): values that are equal in FEEL but written "
                              "differently (1 and 1.0, 0.5 and 0.50) are taken for different" % (name.split("::")[-1], how, x["callee"].split("::")[0].split("<")[0] or "a set", x.get("l")), "%s:%s" % (h["file"], x.get("l")))
    if not bad:
        rep.ok(rid, "feel-equality", "%d core functions, no derived comparison of Value" % n)
    rep.floor(rid, "core built-in functions", n, 60)


def arity_rule(F, rep):
    """R08.10: a positional wrapper looks at its whole argument list: a slice pattern that matches some leading arguments and ignores the rest (`[first, ..]`)
    accepts calls with surplus arguments and silently drops them - the specification gives null for a wrong number of arguments."""
    rid = rep.rule("R08.10", "positional wrappers never ignore surplus arguments: no slice pattern with an unbound rest over the parameter list")
    n = 0
    bad = 0
    for name, h in sorted(F.hir.items()):
        if not name.startswith("dmntk_feel_evaluator::bifs::positional::") or "{closure" in name:
            continue
        n += 1
        for m, _ in find_hir(h["body"], lambda x: x.get("k") in ("Match", "If", "LetStmt")):
            pats = [a["p"] for a in m.get("arms", [])] if m.get("k") == "Match" else [strip(m.get("c", {})).get("p")] if m.get("k") == "If" else [m.get("p")]
            scr = strip(m.get("e") or strip(m.get("c", {})).get("e") or {})
            while scr.get("k") in ("MethodCall",) and scr.get("method") in ("as_slice", "as_ref", "deref", "iter"):
                scr = strip(scr["recv"])
            if not (scr.get("k") == "Path" and scr.get("res") == "local" and scr.get("name") in [p.get("name") for p in h.get("params", [])]):
                continue
            for p in pats:
                for q, _ in find_hir({"k": "x", "p": p}, lambda x: x.get("k") == "Slice" and x.get("rest") and not x.get("rest_bound", False)):
                    if q.get("ps") or q.get("after"):
                        bad += 1
                        rep.violation(rid, "%s:rest" % name.split("::")[-1], "%s matches its arguments with a pattern that ignores everything after the first %d argument(s): a call with surplus arguments is "
                                      "evaluated on the leading ones instead of answering null" % (name.split("::")[-1], len(q.get("ps", []))), "%s:%s" % (h["file"], m.get("l", h["line"])))
    if not bad:
        rep.ok(rid, "arity", "%d positional wrappers, none ignores surplus arguments" % n)
    rep.floor(rid, "positional wrappers", n, 60)


# built-ins the specification defines on the FIRST occurrence of the match (DMN 1.3 table 71: substring before / after, contains, index of ... in list order)
FIRST_OCCURRENCE = ("substring_before", "substring_after", "index_of", "starts_with", "contains", "split", "replace")
BACKWARD_APIS = r"::(rfind|rsplit_once|rsplit|rsplitn|rsplit_terminator|rmatches|rmatch_indices|rposition|rfind_map|strip_suffix|trim_end_matches|next_back|last)$"


def search_direction_rule(F, rep):
    """R08.9: the string / list search built-ins are defined on the first occurrence; they must search forwards (find, split_once, position, ...)."""
    import re
    rid = rep.rule("R08.9", "first-occurrence built-ins (substring before/after, index of, ...) search forwards: no rfind / rsplit_once / rposition / next_back")
    n = 0
    for name, h in sorted(F.hir.items()):
        short = name.split("::")[-1]
        if not name.startswith("dmntk_feel_evaluator::bifs::core::") or short not in FIRST_OCCURRENCE:
            continue
        n += 1
        bad = [x for x, _ in find_hir(h["body"], lambda x: x.get("k") in ("MethodCall", "Call") and re.search(BACKWARD_APIS, x.get("callee") or ""))]
        if bad:
            rep.violation(rid, "%s:direction" % short, "%s searches from the end (%s at line %s); the specification defines it on the first occurrence of the match"
                          % (short, bad[0]["callee"].split("::")[-1], bad[0].get("l")), "%s:%s" % (h["file"], bad[0].get("l")))
        else:
            rep.ok(rid, "%s:direction" % short, "forward search only")
    rep.floor(rid, "first-occurrence built-ins", n, 5)


def no_trim_rule(F, rep):
    """R08.11: none of the string functions of DMN 1.3 (10.3.4.3: substring .. replace, upper case, lower case ..) removes white space: `upper case(" a ")` is " A ".  A
    core built-in function that applies `str::trim*` to the text it returns changes every argument with leading / trailing white space - positive evidence, per function."""
    rid = rep.rule("R08.11", "no core string built-in trims the text it returns (the specification's string functions keep leading and trailing white space)")
    import re
    from facts import find_hir
    n = 0
    for name, h in sorted(F.hir.items()):
        if not name.startswith("dmntk_feel_evaluator::bifs::core::") or "{closure" in name or h.get("kind") not in ("fn", "method"):
            continue
        strings = find_hir(h["body"], lambda x: x.get("k") == "Call" and (x.get("callee") or "").endswith("values::Value::String"))
        if not strings:
            continue
        n += 1
        trims = []
        for c, _ in strings:
            trims += find_hir(c, lambda x: x.get("k") == "MethodCall" and re.search(r"core::str::<impl str>::trim(_start|_end|_matches|_start_matches|_end_matches)?$", x.get("callee") or ""))
        # a local bound to a trimmed text and returned as the string
        for st, _ in find_hir(h["body"], lambda x: x.get("k") == "LetStmt" and "e" in x and x["p"].get("k") == "Bind"):
            tr = find_hir(st["e"], lambda x: x.get("k") == "MethodCall" and re.search(r"core::str::<impl str>::trim(_start|_end|_matches|_start_matches|_end_matches)?$", x.get("callee") or ""))
            if tr and any(find_hir(c, lambda y: y.get("k") == "Path" and y.get("res") == "local" and y.get("name") == st["p"]["name"]) for c, _ in strings):
                trims += tr
        # a private helper's trimming is the trimming of the built-ins that return through it
        owners = [name]
        if (F.bodies.get(name) or {}).get("vis") != "pub":
            seen, work = {name}, [name]
            pubs = []
            while work:
                cur = work.pop()
                for caller, hh in F.hir.items():
                    if caller in seen or not caller.startswith("dmntk_feel_evaluator::bifs::core::"):
                        continue
                    if find_hir(hh["body"], lambda x: x.get("k") == "Call" and x.get("callee") == cur):
                        seen.add(caller)
                        base = caller.split("::{closure")[0]
                        if (F.bodies.get(base) or {}).get("vis") == "pub":
                            pubs.append(base)
                        else:
                            work.append(caller)
            owners = sorted(set(pubs)) or [name]
        for owner in owners:
            key = "trim:%s" % owner.split("::")[-1]
            if trims:
                rep.violation(rid, key, "%s trims the text it returns (`%s`, line %s%s): an argument with leading or trailing white space loses it, which none of the specification's string "
                              "functions does" % (owner.split("::")[-1], trims[0][0].get("method"), trims[0][0].get("l"), "" if owner == name else ", in its helper %s" % name.split("::")[-1]),
                              "%s:%s" % (h["file"], trims[0][0].get("l")))
            elif owner == name:
                rep.ok(rid, key, "returns its text untrimmed")
    rep.floor(rid, "core built-ins returning a string", n, 8)
