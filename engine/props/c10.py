"""C10 (clauses): names with spaces and symbols resolve to their bound value (longest match).

Decided from the source:
  R10.1  the lexer tries the candidate prefixes of the collected name parts longest first and answers with the first hit; the restored input
         position is taken from the same prefix length (MIR def-use of the prefix-length local in the body that consults Scope::flatten_keys);
  R10.2  composed along feel.y, every derivation of a binding production (context entry `key : expression`, iteration / quantified variable
         `NAME in ..`, formal parameter) contains an action that writes a name into the parsing context on top at its start - whichever form the
         key / parameter has (per-action effects from the scope typestate analysis of C13);
  R10.3  the key set the lexer consults covers the scope: Scope::flatten_keys unions all contexts of the stack; FeelContext::flatten_keys inserts every
         own key and recurses into nested contexts and into every item of a list.
Not decided: which prefix matches for a given scope and input (position arithmetic of the name state machine), white-space normalisation of names."""
import os
import re

import callgraph
import g3_scope
import lalr
from facts import find_hir, strip

LEVEL = "other"
CRATES_QUICK = ["dmntk_feel", "dmntk_feel_parser", "dmntk_feel_evaluator", "dmntk_common", "dmntk_feel_number"]
CRATES_THOROUGH = None
REPO = os.environ.get("DMNTK_REPO", "/repo")
FLATTEN_SCOPE = "dmntk_feel::scope::Scope::flatten_keys"
FLATTEN_CTX = "dmntk_feel::context::FeelContext::flatten_keys"


def run(F, rep, tier):
    rep.explanation = ("Which name the lexer picks for a given scope and input is position arithmetic over run-time data and is not decided. Decided are three structural necessary "
                       "conditions of longest-match resolution: (R10.1) the candidate scan over the collected name parts runs from all parts downwards and returns at the first "
                       "name found in the flattened scope keys, restoring the input position that belongs to the same prefix length; (R10.2) every binding form of the grammar - "
                       "context entry with a name or string key, iteration and quantified variable, formal parameter with or without type - has, on every derivation, an action "
                       "that registers a name in the parsing context of its construct; (R10.3) the flattened key set covers every context of the scope stack, every own key, nested "
                       "contexts and every item of a list of contexts.")
    rep.assumptions += ["the name-part state machine collects the longest possible sequence of parts (character classes are checked by R06.8)",
                        "HashSet::contains / Vec indexing behave as documented"]
    longest_first_rule(F, rep)
    variable_before_scope_rule(F, rep)
    first_in_rule(F, rep)
    binding_rule(F, rep)
    key_coverage_rule(F, rep)
    normalisation_rule(F, rep, tier)
    name_characters_rule(F, rep, tier)
    char_byte_rule(F, rep)
    # premise (C13): parser actions leave the parsing scope balanced - a context popped or left behind by one construct changes which names the lexer knows afterwards
    from props import c13
    r3 = rep.rule("R13.3", "parser actions composed along the grammar: every start alternative leaves the parsing scope at its entry depth; names are added at depth >= 1 only")
    c13.grammar_rule(F, rep, r3, g3_scope.ScopeAnalysis(F, callgraph.CallGraph(F)))


# ====================================================================================================== R10.1
def longest_first_rule(F, rep):
    rid = rep.rule("R10.1", "candidate prefixes of the name parts are tried longest first against the flattened scope keys, the first hit returns, the input position is restored from the same prefix length")
    users = [n for n, b in F.bodies.items() if n.startswith("dmntk_feel_parser::") and any(bl["t"][0] == "call" and (bl["t"][1]["f"].get("p") == FLATTEN_SCOPE) for bl in b["blocks"])]
    if not users:
        rep.missing_anchor(rid, "a lexer function that consults Scope::flatten_keys")
        return
    for n in sorted(users):
        b = F.bodies[n]
        where = "%s:%s" % (b["file"], b["line"])
        key = "scan:%s" % n.split("::")[-1]
        defs = {}      # local -> [(block, rvalue)]
        calls = {}     # dest local -> (block, call)
        for bi, bl in enumerate(b["blocks"]):
            for s in bl["s"]:
                if s[0] == "A" and len(s[1]) == 1:
                    defs.setdefault(s[1][0], []).append((bi, s[2]))
            t = bl["t"]
            if t[0] == "call" and t[1].get("dest") and len(t[1]["dest"]) == 1:
                calls[t[1]["dest"][0]] = (bi, t[1])
        tys = F.crates[b["_crate"]]["types"]

        def ty(l):
            return tys[b["locals"][l]]

        def roots(op, depth=0, seen=None):
            """locals an operand's value is copied / borrowed from (through Use / Ref / field-less projections)"""
            seen = seen if seen is not None else set()
            if op[0] not in ("C", "M"):
                return set()
            l = op[1][0]
            if l in seen or depth > 12:
                return {l}
            seen.add(l)
            out = {l}
            for bi, rv in defs.get(l, []):
                if rv[0] == "Use":
                    out |= roots(rv[1], depth + 1, seen)
                elif rv[0] == "Ref":
                    out |= roots(["C", rv[2]], depth + 1, seen)
            return out

        keysets = {d for d, (bi, c) in calls.items() if c["f"].get("p") == FLATTEN_SCOPE}
        tests = []
        for d, (bi, c) in calls.items():
            p = c["f"].get("p") or ""
            if p.endswith("::contains") and ("HashSet" in p or "BTreeSet" in p or "slice" in p or "Vec" in p) and len(c["args"]) == 2 and roots(c["args"][0]) & keysets:
                tests.append((d, bi, c))
        if not tests:
            r = closure_search_form(F, b, defs, calls, keysets, roots)
            if r is None:
                rep.undecided(rid, key, "%s consults Scope::flatten_keys but no membership test on the key set was found" % n)
            elif r[0] == "ok":
                rep.ok(rid, key, r[1])
            else:
                rep.violation(rid, key + (":" + r[2] if len(r) > 2 else ""), "%s %s" % (n, r[1]), where)
            continue
        for d, bi, c in tests:
            # the tested name: backward slice to the range / take bound of the prefix
            bound = prefix_bound(b, defs, calls, c["args"][1], roots)
            if bound is None:
                rep.undecided(rid, key, "the name tested against the scope keys is not built from a prefix `parts[..k]` of a part list")
                continue
            L = bound
            direction, why = direction_of(b, defs, calls, L, ty, roots)
            # does the hit path return without testing another candidate ?
            hit_returns = first_hit_returns(b, bi, d)
            pos_ok = position_from(b, defs, calls, L, roots, bi, d)
            nm = b["names"].get(str(L), "_%d" % L)
            # every candidate is looked up: no path around the loop from the membership test back to itself that bypasses the test (a `continue` / an `if` that skips
            # candidates by some other criterion - their length, a cache - makes a bound name unfindable)
            skip = skipping_cycle(b, bi)
            if skip and direction == "desc" and hit_returns:
                rep.violation(rid, key + ":skip", "%s can go round the candidate loop without testing the candidate against the scope keys (blocks at lines %s): a candidate prefix that is "
                              "a bound name is skipped" % (n, skip), where)
                continue
            if direction == "asc" and hit_returns:
                rep.violation(rid, key, "%s tries the candidate prefixes shortest first (%s) and returns at the first hit: the shortest bound name is chosen instead of the longest" % (n, why), where)
            elif direction == "desc" and hit_returns:
                if pos_ok is False:
                    rep.violation(rid, key + ":position", "%s restores the input position on a hit from a value that does not depend on the matched prefix length `%s`" % (n, nm), where)
                else:
                    rep.ok(rid, key, "prefix length `%s`: %s; the first hit returns%s" % (nm, why, "; position restored from the same length" if pos_ok else ""))
            else:
                rep.undecided(rid, key, "prefix length `%s`: direction %s (%s), first hit %s" % (nm, direction, why, "returns" if hit_returns else "does not return"))


def closure_search_form(F, b, defs, calls, keysets, roots):
    """the scan written as a search over a range of prefix lengths: `(lo..=hi).rev().find(|&k| keys.contains(&name_of(&parts[..k])))`.  The first item for which the
    closure answers true is the result, so the order of the range is the order of the candidates: with `rev()` the longest comes first; the upper end must be the number
    of collected parts, *included* - `1..parts.len()` never tries the candidate made of all parts.  None when the body has no such search."""
    for d, (bi, c) in calls.items():
        p = c["f"].get("o") or c["f"].get("p") or ""
        if not re.search(r"Iterator::(find|position|find_map)$", p) or len(c["args"]) != 2:
            continue
        # the closure: holds the test against the key set
        clos = set()
        for l in roots(c["args"][1]):
            for _, rv in defs.get(l, []):
                if rv[0] == "Agg" and isinstance(rv[1], list) and rv[1][0] == "closure":
                    clos.add((rv[1][1], tuple(x[1][0] for x in rv[2] if x[0] in ("C", "M"))))
        ok_clo = False
        for cn, caps in clos:
            cb = F.bodies.get(cn)
            if cb is None:
                continue
            has_test = any(bl["t"][0] == "call" and (bl["t"][1]["f"].get("p") or "").endswith("::contains") for bl in cb["blocks"])
            captures_keys = any(roots(["C", [x]]) & keysets for x in caps)
            if has_test and captures_keys:
                ok_clo = True
        if not ok_clo:
            continue
        # the receiver chain
        rev = False
        cur = c["args"][0]
        lo = hi = None
        inclusive = None
        for _ in range(8):
            if cur[0] not in ("C", "M"):
                break
            l = cur[1][0]
            if l in calls:
                cc = calls[l][1]
                q = cc["f"].get("o") or cc["f"].get("p") or ""
                if q.endswith("Iterator::rev"):
                    rev = not rev
                    cur = cc["args"][0]
                    continue
                if re.search(r"RangeInclusive::<.*>::new$|RangeInclusive<.*>::new$", q) and len(cc["args"]) == 2:
                    lo, hi, inclusive = cc["args"][0], cc["args"][1], True
                    break
                if q.endswith("IntoIterator::into_iter") or q.endswith("::by_ref") or q.endswith("::peekable"):
                    cur = cc["args"][0]
                    continue
                break
            nxt = None
            for _, rv in defs.get(l, []):
                if rv[0] == "Use":
                    nxt = rv[1]
                elif rv[0] == "Ref":
                    nxt = ["C", rv[2]]
                elif rv[0] == "Agg" and isinstance(rv[1], list) and rv[1][0] == "adt" and re.search(r"ops::range::Range$", rv[1][1]) and len(rv[2]) == 2:
                    lo, hi, inclusive = rv[2][0], rv[2][1], False
            if lo is not None or nxt is None:
                break
            cur = nxt
        if hi is None:
            continue

        def is_len(op, plus=0):
            """(is a collection length, constant added)"""
            if op[0] not in ("C", "M"):
                return None
            for l in roots(op):
                if l in calls and (calls[l][1]["f"].get("p") or "").endswith("::len"):
                    return True
            return False
        if not is_len(hi):
            return None
        if not rev:
            return ("bad", "searches the candidate prefix lengths in ascending order and takes the first hit: the shortest bound name is chosen instead of the longest", "ascending")
        if not inclusive:
            return ("bad", "searches the prefix lengths of a half-open range that ends before the number of collected parts: the candidate made of all parts is never tried, "
                           "so the longest bound name is not found when a shorter one is bound as well", "full-length")
        return ("ok", "prefix lengths searched from the number of parts downwards (inclusive range reversed), the first hit is the result")
    return None


def prefix_bound(b, defs, calls, op, roots, depth=0):
    """the local that bounds the prefix of the part list from which the tested name is built: end of a RangeTo / Range aggregate, or the argument of take()"""
    seen = set()
    work = [op]
    while work and len(seen) < 200:
        o = work.pop()
        if o[0] not in ("C", "M"):
            continue
        l = o[1][0]
        if l in seen:
            continue
        seen.add(l)
        for bi, rv in defs.get(l, []):
            if rv[0] in ("Use",):
                work.append(rv[1])
            elif rv[0] == "Ref":
                work.append(["C", rv[2]])
            elif rv[0] == "Agg" and isinstance(rv[1], list) and rv[1][0] == "adt" and re.search(r"ops::range::Range(To|ToInclusive)?$", rv[1][1]):
                end = rv[2][-1]
                if end[0] in ("C", "M"):
                    rs = [r for r in roots(end)]
                    named = [r for r in rs if str(r) in b["names"]]
                    return (named or rs)[0]
        if l in calls:
            bi, c = calls[l]
            p = c["f"].get("p") or ""
            if p.endswith("::take") and len(c["args"]) == 2 and c["args"][1][0] in ("C", "M"):
                rs = list(roots(c["args"][1]))
                named = [r for r in rs if str(r) in b["names"]]
                return (named or rs)[0]
            for a in c["args"]:
                work.append(a)
    return None


def direction_of(b, defs, calls, L, ty, roots):
    kinds = set()
    for bi, rv in defs.get(L, []):
        if rv[0] == "Use" and rv[1][0] == "K":
            kinds.add("init-const")
        elif rv[0] == "Use" and rv[1][0] in ("C", "M"):
            src = rv[1][1]
            l0 = src[0]
            proj = src[1:]
            if l0 in calls and not proj:
                p = calls[l0][1]["f"].get("p") or ""
                kinds.add("init-len" if p.endswith("::len") else "call:" + p.split("::")[-1])
            elif proj and any(isinstance(x, list) and x[0] == "." for x in proj):
                # field 0 of a checked arithmetic result, or payload of Some(..) from Iterator::next
                srcdefs = defs.get(l0, [])
                ar = [r for _, r in srcdefs if r[0] == "Bin"]
                if ar:
                    r = ar[0]
                    selfref = r[2][0] in ("C", "M") and L in roots(r[2])
                    if r[1].startswith("Sub") and selfref and r[3][0] == "K":
                        kinds.add("dec")
                    elif r[1].startswith("Add") and selfref and r[3][0] == "K":
                        kinds.add("inc")
                    else:
                        kinds.add("arith")
                elif l0 in calls and (calls[l0][1]["f"].get("p") or "").endswith("::next"):
                    it = calls[l0][1]["args"][0]
                    ity = " ".join(ty(r) for r in roots(it))
                    kinds.add("iter-rev" if "Rev<" in ity else "iter-fwd" if re.search(r"ops::range::Range(Inclusive)?<", ity) else "iter-other")
                else:
                    kinds.add("other")
            else:
                # plain copy of another local
                for r in roots(rv[1]) - {L}:
                    if r in calls and (calls[r][1]["f"].get("p") or "").endswith("::len"):
                        kinds.add("init-len")
                        break
                else:
                    kinds.add("copy")
        elif rv[0] == "Bin":
            selfref = rv[2][0] in ("C", "M") and L in roots(rv[2])
            kinds.add("dec" if rv[1].startswith("Sub") and selfref else "inc" if rv[1].startswith("Add") and selfref else "arith")
        elif rv[0] == "Len" or rv[0] == "PtrMetadata":
            kinds.add("init-len")
        else:
            kinds.add("other")
    why = "assigned by " + ", ".join(sorted(kinds))
    if kinds and kinds <= {"init-len", "dec"} and "dec" in kinds:
        return "desc", "starts at the number of parts and only decreases"
    if kinds == {"iter-rev"}:
        return "desc", "taken from a reversed range"
    if kinds and kinds <= {"init-const", "inc"} and "inc" in kinds:
        return "asc", "starts at a constant and only increases"
    if kinds == {"iter-fwd"}:
        return "asc", "taken from a range iterated forwards"
    return "unknown", why


def skipping_cycle(b, bi):
    """lines of a cycle of the CFG that lies inside the loop of the membership test (the strongly connected component of block bi) but does not pass through bi;
    cycles of inner loops that build the candidate (and therefore reach bi only after leaving them) are not such cycles: only cycles through the loop *header* count"""
    blocks = b["blocks"]
    n = len(blocks)
    succ = {i: [y for y in succs(blocks[i]["t"]) if y is not None and y < n and not blocks[y].get("cleanup")] for i in range(n)}
    # the SCC of bi
    def reach_from(x, banned=()):
        seen, work = set(), [x]
        while work:
            v = work.pop()
            for w in succ.get(v, []):
                if w not in seen and w not in banned:
                    seen.add(w)
                    work.append(w)
        return seen
    fwd = reach_from(bi)
    scc = {v for v in fwd if bi in reach_from(v)} | ({bi} if bi in fwd else set())
    if not scc:
        return None
    # loop header(s): blocks of the SCC entered from outside it
    preds = {}
    for v, ws in succ.items():
        for w in ws:
            preds.setdefault(w, []).append(v)
    headers = [v for v in scc if any(p_ not in scc for p_ in preds.get(v, []))]
    for hd in headers:
        if hd == bi:
            continue
        # can the header reach itself inside the SCC without passing bi?
        inner = reach_from(hd, banned={bi} | (set(range(n)) - scc))
        if hd in inner:
            lines = sorted({st[-1] for v in inner & scc for st in blocks[v]["s"] if isinstance(st[-1], int)})
            return lines[:6]
    return None


def first_hit_returns(b, bi, d):
    """from the block that branches on the membership answer: the `true` edge reaches a return without reaching the test block again"""
    # find the switch on d (possibly after copies) in the call's target chain
    t = b["blocks"][bi]["t"]
    cur = t[1].get("target")
    steps = 0
    while cur is not None and steps < 6:
        tt = b["blocks"][cur]["t"]
        if tt[0] == "switch":
            # targets: [[value, block]...], otherwise
            zero = [x[1] for x in tt[2] if x[0] == 0]
            other = tt[3]
            true_blk = other if zero else None
            if true_blk is None:
                return False
            return not reaches(b, true_blk, bi)
        if tt[0] in ("goto",):
            cur = tt[1]
        elif tt[0] == "call":
            cur = tt[1].get("target")
        else:
            return False
        steps += 1
    return False


def succs(t):
    if t[0] == "goto":
        return [t[1]]
    if t[0] == "switch":
        return [x[1] for x in t[2]] + [t[3]]
    if t[0] == "call":
        return [t[1]["target"]] if t[1].get("target") is not None else []
    if t[0] == "assert":
        return [t[1]["target"]]
    if t[0] == "drop":
        return [t[2]]
    return []


def reaches(b, start, goal):
    seen, work = set(), [start]
    while work:
        x = work.pop()
        if x == goal:
            return True
        if x in seen or x is None:
            continue
        seen.add(x)
        work += succs(b["blocks"][x]["t"])
    return False


def position_from(b, defs, calls, L, roots, bi, d):
    """on the hit path a field of self is assigned; does the assigned value depend on L ?  True / False / None (no such assignment found)"""
    t = b["blocks"][bi]["t"]
    cur = t[1].get("target")
    tt = b["blocks"][cur]["t"] if cur is not None else None
    if not tt or tt[0] != "switch":
        return None
    start = tt[3]
    seen, work = set(), [start]
    found = None

    # locals L itself is taken from: an item of an iterator (`for (k, pos) in ..enumerate()..rev()`) carries the length and the position together
    origin = {r for r in roots(["C", [L]]) if r in calls and (calls[r][1]["f"].get("p") or "").endswith("::next")} | {L}

    def depends(op, depth=0, vis=None):
        vis = vis if vis is not None else set()
        if op[0] not in ("C", "M"):
            return False
        l = op[1][0]
        if l in origin:
            return True
        if l in vis or depth > 10:
            return False
        vis.add(l)
        for _, rv in defs.get(l, []):
            if rv[0] == "Use" and depends(rv[1], depth + 1, vis):
                return True
            if rv[0] == "Ref" and depends(["C", rv[2]], depth + 1, vis):
                return True
            if rv[0] == "Bin" and (depends(rv[2], depth + 1, vis) or depends(rv[3], depth + 1, vis)):
                return True
        if l in calls:
            return any(depends(a, depth + 1, vis) for a in calls[l][1]["args"])
        return False
    while work:
        x = work.pop()
        if x in seen or x is None or x == bi:
            continue
        seen.add(x)
        for s in b["blocks"][x]["s"]:
            if s[0] == "A" and s[1][0] == 1 and len(s[1]) > 2 and s[2][0] == "Use":
                dep = depends(s[2][1])
                found = dep if found is None else (found and dep)
        work += succs(b["blocks"][x]["t"])
        if len(seen) > 40:
            break
    return found


# ====================================================================================================== R10.4
def variable_before_scope_rule(F, rep):
    """the name of an iteration / quantified variable is everything in front of `in` (the lexer's till_in mode); it is being *introduced*, so it must be cut out before
    the scope is consulted - otherwise a bound name that is a prefix of the new variable's name wins (`for order line in ..` with `order` bound)."""
    import mirutil
    rid = rep.rule("R10.4", "the variable of for / some / every (the parts in front of `in`) is returned before the scope keys are consulted")
    adt = F.adts.get("dmntk_feel_parser::lexer::Lexer")
    if adt is None:
        rep.missing_anchor(rid, "dmntk_feel_parser::lexer::Lexer")
        return
    fi = [i for i, f in enumerate(adt["variants"][0]["fields"]) if f["name"] == "till_in"]
    if not fi:
        rep.undecided(rid, "till-in", "the lexer has no `till_in` mode flag")
        return
    fi = fi[0]
    n_ok = 0
    for n, b in sorted(F.bodies.items()):
        if not n.startswith("dmntk_feel_parser::"):
            continue
        scans = [bi for bi, bl in enumerate(b["blocks"]) if bl["t"][0] == "call" and bl["t"][1]["f"].get("p") == FLATTEN_SCOPE]
        if not scans:
            continue
        # blocks that branch on a copy of self.till_in
        flag_locals = set()
        for bl in b["blocks"]:
            for s in bl["s"]:
                if s[0] == "A" and len(s[1]) == 1 and s[2][0] == "Use" and s[2][1][0] in ("C", "M") and s[2][1][1][0] == 1 and s[2][1][1][-1] == [".", fi]:
                    flag_locals.add(s[1][0])
        tests = [bi for bi, bl in enumerate(b["blocks"]) if bl["t"][0] == "switch" and bl["t"][1][0] in ("C", "M") and bl["t"][1][1][0] in flag_locals]
        key = "till-in:%s" % n.split("::")[-1]
        if not tests:
            rep.undecided(rid, key, "%s consults the scope keys but never tests the till_in mode" % n)
            continue
        B_ = mirutil.Body(F, b)
        dom = B_.dominators()

        def dominates(a, x):
            return a in dom.get(x, set())
        if all(any(dominates(t, sc) for t in tests) for sc in scans):
            n_ok += 1
            rep.ok(rid, key, "the till_in test dominates the call of Scope::flatten_keys")
        elif any(reaches(b, sc, t) for sc in scans for t in tests):
            rep.violation(rid, key, "%s consults the scope keys before it handles the variable in front of `in`: a bound name that is a prefix of a new iteration variable's name is "
                          "returned instead of the variable" % n, "%s:%s" % (b["file"], b["line"]))
        else:
            rep.undecided(rid, key, "the till_in test neither dominates nor follows the scope lookup")


# ====================================================================================================== R10.6
def first_in_rule(F, rep):
    """`for x in a return x in b`: the variable ends at the *first* `in` of the collected parts. A forward `position` / `find` answers with the first; a loop that keeps
    assigning the index without leaving takes the last."""
    rid = rep.rule("R10.6", "the name of an iteration variable ends at the first `in` among the collected parts (forward search, first hit)")
    n = 0
    for name, h in sorted(F.hir.items()):
        if not name.startswith("dmntk_feel_parser::lexer::") or "{closure" in name.split("::")[-1]:
            continue
        regions = [(h, None)] + [(F.hir[c.get("name")], par) for c, par in find_hir(h["body"], lambda x: x.get("k") == "Closure") if c.get("name") in F.hir]
        for hh, _ in regions[:1]:
            # comparisons with the literal "in"
            tests = [(x, par) for x, par in find_hir(hh["body"], lambda x: (x.get("k") == "Binary" and x.get("op") == "==" and any(strip(x[k]).get("k") == "Lit" and strip(x[k]).get("v") == "in" for k in ("a", "b"))))]
            for c, par in find_hir(hh["body"], lambda x: x.get("k") == "Closure"):
                ch = F.hir.get(c.get("name"))
                if ch:
                    tests += [(x, par + (c,)) for x, _ in find_hir(ch["body"], lambda x: x.get("k") == "Binary" and x.get("op") == "==" and any(strip(x[k]).get("k") == "Lit" and strip(x[k]).get("v") == "in" for k in ("a", "b")))]
            for x, par in tests:
                n += 1
                key = "first-in:%s" % name.split("::")[-1]
                where = "%s:%s" % (h["file"], x.get("l", h["line"]))
                clos = [p for p in par if p.get("k") == "Closure"]
                if clos:
                    # the closure is the predicate of a search: which one ?
                    mcs = [p for p in par if p.get("k") == "MethodCall" and any(contains(a, clos[-1]) for a in p.get("args", []))]
                    meth = mcs[-1].get("method") if mcs else None
                    if meth in ("position", "find", "find_map", "any", "take_while", "skip_while"):
                        names, root = chain_of(mcs[-1])
                        if "rev" in names:
                            rep.violation(rid, key, "%s searches the keyword `in` from the end of the collected parts: `for x in a return x in b` takes `x in a return x` for the variable" % name, where)
                        else:
                            rep.ok(rid, key, "forward `%s`" % meth)
                    elif meth in ("rposition", "rfind"):
                        rep.violation(rid, key, "%s searches the keyword `in` from the end of the collected parts (`%s`)" % (name, meth), where)
                    else:
                        rep.undecided(rid, key, "the comparison with `in` sits in a closure passed to `%s`" % meth)
                    continue
                loops = [p for p in par if p.get("k") == "Match" and p.get("src") == "ForLoopDesugar"]
                ifs = [p for p in par if p.get("k") == "If" and contains(p.get("c"), x)]
                if loops and ifs:
                    leaves = find_hir(ifs[-1].get("then"), lambda y: y.get("k") in ("Break", "Ret"))
                    it = strip(loops[-1]["e"])
                    it = strip(it["args"][0]) if it.get("k") == "Call" and it.get("args") else it
                    names, root = chain_of(it)
                    if not leaves and "rev" not in names:
                        rep.violation(rid, key, "%s keeps the index of the *last* `in` among the collected parts (the loop goes on after a hit): `for x in a return x in b` takes `x in a return x` "
                                      "for the variable" % name, where)
                    elif leaves and "rev" in names:
                        rep.violation(rid, key, "%s stops at the first `in` of a reversed walk, i.e. at the last one" % name, where)
                    else:
                        rep.ok(rid, key, "loop leaves at the first hit")
                else:
                    rep.undecided(rid, key, "the comparison with `in` is neither a search predicate nor the test of a loop")
    if not n:
        rep.undecided(rid, "first-in", "no comparison with the keyword `in` in the lexer")


def contains(tree, node):
    if tree is node:
        return True
    if isinstance(tree, dict):
        return any(contains(v, node) for v in tree.values() if isinstance(v, (dict, list)))
    if isinstance(tree, list):
        return any(contains(v, node) for v in tree)
    return False


# ====================================================================================================== R10.2
def binding_rule(F, rep):
    rid = rep.rule("R10.2", "every derivation of a binding production of feel.y (context entry, iteration / quantified variable, formal parameter) contains an action that writes a name into the parsing context of its construct")
    p = os.path.join(REPO, "feel-grammar", "src", "feel.y")
    if not os.path.exists(p):
        rep.missing_anchor(rid, p)
        return
    g = lalr.parse_y(open(p).read())
    G = callgraph.CallGraph(F)
    A = g3_scope.ScopeAnalysis(F, G)
    impl_prefix = "<dmntk_feel_parser::parser::Parser<'parser> as dmntk_feel_parser::lalr::ReduceActions>::action_"
    INF = 10 ** 6
    act = {}
    for r in g.rules:
        a = r["action"]
        if not a or a in act:
            continue
        n = impl_prefix + a
        if n not in F.bodies:
            continue        # reported by R13.3 / R06.4
        s = A.summary(n)
        d = sorted(s.deltas)[0] if s.deltas else 0
        act[a] = (d, 1 if s.writes0 else 0)
    writers = sorted(a for a, v in act.items() if v[1])
    rep.analysed["parser_actions_writing_names"] = writers
    rep.floor(rid, "parser actions that write a name into the parsing scope", len(writers), 5)
    by_lhs = {}
    for i, r in enumerate(g.rules):
        by_lhs.setdefault(r["lhs"], []).append(i)
    # (net depth change, minimal number of depth-0 name writes) per non-terminal: shortest-derivation fix-point
    eff = {}

    def rule_eff(r, pick=None):
        d, w = 0, 0
        for sym in r["rhs"]:
            if sym in g.termset:
                continue
            e = eff.get(sym)
            if e is None:
                return None
            if d == 0:
                w += e[1]
            d += e[0]
        if r["action"] and r["action"] in act:
            a = act[r["action"]]
            if d == 0:
                w += a[1]
            d += a[0]
        return d, w
    changed, rounds = True, 0
    while changed and rounds < 300:
        changed = False
        rounds += 1
        for nt, idxs in by_lhs.items():
            vals = [rule_eff(g.rules[i]) for i in idxs]
            vals = [v for v in vals if v is not None]
            if not vals:
                continue
            new = (vals[0][0], min(v[1] for v in vals))
            if eff.get(nt) != new:
                eff[nt] = new
                changed = True

    def witness(r):
        """the alternatives chosen for a derivation with the fewest name writes"""
        out = []
        for sym in r["rhs"]:
            if sym in g.termset or sym.startswith("$@"):
                continue
            alts = [(rule_eff(g.rules[i]), i) for i in by_lhs.get(sym, [])]
            alts = [(v, i) for v, i in alts if v is not None]
            if len(alts) > 1:
                v, i = min(alts, key=lambda x: x[0][1])
                out.append("%s -> %s" % (sym, " ".join(x for x in g.rules[i]["rhs"] if not x.startswith("$@")) or "(empty)"))
        return out
    # binding productions, found by their shape (token names of feel.y)
    T = g.termset
    need = {t for t in ("NAME", "IN", "COLON") if t not in T}
    if need:
        rep.missing_anchor(rid, "tokens %s in feel.y" % sorted(need))
        return

    def derives_only(sym, toks, depth=0):
        if sym in T:
            return sym in toks
        if depth > 3:
            return False
        return all(all(derives_only(x, toks, depth + 1) for x in g.rules[i]["rhs"] if not x.startswith("$@")) and any(not x.startswith("$@") for x in g.rules[i]["rhs"]) for i in by_lhs.get(sym, []))
    binders = []
    for i, r in enumerate(g.rules):
        rhs = [x for x in r["rhs"] if not x.startswith("$@")]
        if len(rhs) >= 3 and rhs[0] == "NAME" and rhs[1] == "IN":
            binders.append((i, "variable `NAME in ..`"))
        elif len(rhs) == 3 and rhs[1] == "COLON" and rhs[0] not in T and derives_only(rhs[0], {"NAME", "STRING"}) and rhs[2] not in T and not derives_only(rhs[2], set(T)):
            binders.append((i, "context entry `key : expression`"))
    # formal parameters: the non-terminals reachable from the production that follows FUNCTION LEFT_PAREN whose rules start with NAME
    fun_rules = [r for r in g.rules if [x for x in r["rhs"] if not x.startswith("$@")][:2] == ["FUNCTION", "LEFT_PAREN"]]
    reach = set()
    work = []
    for r in fun_rules:
        nts = [x for x in r["rhs"] if x not in T and not x.startswith("$@")]
        work += nts[:1]            # the parameter list; the non-terminals after it derive the body
    stop = set()
    while work:
        x = work.pop()
        if x in reach:
            continue
        reach.add(x)
        for i in by_lhs.get(x, []):
            rhs = [y for y in g.rules[i]["rhs"] if not y.startswith("$@")]
            if rhs[:1] == ["NAME"]:
                binders.append((i, "formal parameter"))
                stop.add(x)
        if x in stop:
            continue
        for i in by_lhs.get(x, []):
            rhs = [y for y in g.rules[i]["rhs"]]
            # do not descend into the function body (an expression) or types
            work += [y for y in rhs if y not in T and not derives_expression(g, by_lhs, y)]
    rep.floor(rid, "binding productions found in feel.y", len(binders), 5)
    for i, what in binders:
        r = g.rules[i]
        text = "%s: %s" % (r["lhs"], " ".join(x for x in r["rhs"] if not x.startswith("$@")))
        key = "binder:%s" % text
        e = rule_eff(r)
        if e is None:
            rep.undecided(rid, key, "the effect of the production could not be composed")
        elif e[1] < 1:
            rep.violation(rid, key, "%s `%s`: a derivation (%s) runs no action that writes a name into the parsing context - the bound name is unknown to the lexer in the expressions that follow"
                          % (what, text, "; ".join(witness(r)) or "no alternatives"), "feel-grammar/src/feel.y:%s" % r.get("line", "?"))
        else:
            rep.ok(rid, key, "%s: at least %d name write(s) on every derivation" % (what, e[1]))


def derives_expression(g, by_lhs, sym):
    """is `sym` the general expression non-terminal (or a type): recognised by having a rule `sym BETWEEN ..` / being the start of many operator rules"""
    n = 0
    for i in by_lhs.get(sym, []):
        rhs = g.rules[i]["rhs"]
        if rhs and rhs[0] == sym and len(rhs) >= 3:
            n += 1
    return n >= 5 or sym == "type"


# ====================================================================================================== R10.3
SELECTORS = {"first", "last", "get", "nth", "next", "take", "skip", "step_by", "take_while", "skip_while", "find", "position", "pop", "first_mut", "last_mut", "get_mut", "peek", "next_back", "split_first", "split_last"}
ALL_ITEMS = {"iter", "into_iter", "iter_mut", "as_vec", "as_slice", "as_ref", "borrow", "borrow_mut", "deref", "clone", "values", "keys", "flat_map", "map", "filter_map", "for_each", "flatten",
             "cloned", "copied", "collect", "to_vec", "unwrap_or_default", "to_owned", "rev", "chain", "extend", "fold", "inspect", "by_ref", "as_deref", "entries", "as_mut", "enumerate"}


def aliases_of(h):
    """{local: initialiser} of the simple `let x = <expr>;` statements of a function body (closures included)"""
    out = {}
    for st, _ in find_hir(h["body"] if "body" in h else h, lambda x: x.get("k") == "LetStmt" and "e" in x):
        p = st.get("p", {})
        while p.get("k") in ("Ref",):
            p = p.get("p", {})
        if p.get("k") == "Bind" and "sub" not in p:
            out[p["name"]] = None if p["name"] in out else st["e"]      # assigned twice: not an alias
    return {k: v for k, v in out.items() if v is not None}


def chain_of(e, aliases=None, depth=0):
    """method names of a receiver chain from the root outwards, and the root expression; a root that is a local bound by a simple `let` is followed into its initialiser"""
    names = []
    e = strip(e)
    while True:
        if e.get("k") == "MethodCall":
            names.append(e.get("method"))
            e = strip(e["recv"])
        elif e.get("k") == "Call" and e.get("args") and "Ctor" not in (e.get("dk") or ""):
            names.append((e.get("callee") or "?").split("::")[-1])
            e = strip(e["args"][0])
        elif e.get("k") == "Unary" and e.get("op") == "*":
            e = strip(e["a"])
        else:
            break
    names = list(reversed(names))
    if aliases and depth < 6 and e.get("k") == "Path" and e.get("res") == "local" and e.get("name") in aliases:
        n0, root = chain_of(aliases[e["name"]], aliases, depth + 1)
        return n0 + names, root
    return names, e


def key_coverage_rule(F, rep):
    rid = rep.rule("R10.3", "the flattened key set covers the scope: all contexts of the stack, every own key, nested contexts and every item of a list")
    # ---- Scope::flatten_keys
    h = F.hir.get(FLATTEN_SCOPE)
    if h is None:
        rep.missing_anchor(rid, FLATTEN_SCOPE)
    else:
        where = "%s:%s" % (h["file"], h["line"])
        recs = [x for x, _ in find_hir(h["body"], lambda x: x.get("k") in ("MethodCall", "Call") and (x.get("callee") or "") == FLATTEN_CTX)]
        closures = {c.get("name"): c for c, _ in find_hir(h["body"], lambda x: x.get("k") == "Closure")}
        if not recs:
            for cn in closures:
                ch = F.hir.get(cn)
                if ch:
                    recs += [x for x, _ in find_hir(ch["body"], lambda x: x.get("k") in ("MethodCall", "Call") and (x.get("callee") or "") == FLATTEN_CTX)]
        sels = selectors_on_field(h, "contexts")
        if sels:
            rep.violation(rid, "scope-stack", "Scope::flatten_keys takes the keys of `%s()` of the context stack only: names bound in the other contexts of the scope are unknown to the lexer" % sels[0], where)
        elif not recs:
            rep.undecided(rid, "scope-stack", "Scope::flatten_keys does not call FeelContext::flatten_keys")
        else:
            rep.ok(rid, "scope-stack", "every context of the stack contributes its keys")
    # ---- a key set kept in a field of the scope must be discarded by every method that changes the context stack
    if h is not None:
        cache_fields = sorted({strip(x).get("name") for hh in [h] + [F.hir[c.get("name")] for c, _ in find_hir(h["body"], lambda y: y.get("k") == "Closure") if c.get("name") in F.hir]
                               for x, _ in find_hir(hh["body"], lambda y: y.get("k") == "Field" and strip(y.get("e", {})).get("name") == "self") if strip(x).get("name") not in ("contexts", None)})
        if cache_fields:
            MUT = {"push", "pop", "insert", "remove", "clear", "truncate", "set_entry", "set_null", "last_mut", "iter_mut", "get_mut", "swap_remove", "drain", "retain", "append", "extend", "first_mut", "push_back", "pop_back"}
            stale = []
            for n2, h2 in sorted(F.hir.items()):
                if not n2.startswith("dmntk_feel::scope::Scope::") or "{closure" in n2 or n2 == FLATTEN_SCOPE:
                    continue
                al = aliases_of(h2)
                mutates = False
                for mc, _ in find_hir(h2["body"], lambda y: y.get("k") == "MethodCall" and y.get("method") in MUT):
                    names, root = chain_of(mc, al)
                    if root.get("k") == "Field" and root.get("name") == "contexts":
                        mutates = True
                touches = [x for x, _ in find_hir(h2["body"], lambda y: y.get("k") == "Field" and y.get("name") in cache_fields)]
                if mutates and not touches:
                    stale.append(n2.split("::")[-1])
            if stale:
                rep.violation(rid, "scope-cache", "Scope::flatten_keys answers from the field `%s`, but %s change(s) the context stack without touching it: the lexer keeps seeing names of contexts that "
                              "are no longer in scope (or misses new ones)" % (cache_fields[0], ", ".join("Scope::" + x for x in stale)), "%s:%s" % (h["file"], h["line"]))
            else:
                rep.ok(rid, "scope-cache", "the cached key set (%s) is touched by every method that changes the context stack" % cache_fields[0])
    # ---- FeelContext::flatten_keys (and the private helpers it calls)
    h = F.hir.get(FLATTEN_CTX)
    if h is None:
        rep.missing_anchor(rid, FLATTEN_CTX)
        return
    where = "%s:%s" % (h["file"], h["line"])
    bodies = [h]
    for x, _ in find_hir(h["body"], lambda x: x.get("k") in ("MethodCall", "Call") and (x.get("callee") or "").startswith("dmntk_feel::context::") and (x.get("callee") or "") != FLATTEN_CTX):
        hh = F.hir.get(x.get("callee"))
        if hh and hh not in bodies:
            bodies.append(hh)
    for hh in list(bodies):
        for c, _ in find_hir(hh["body"], lambda x: x.get("k") == "Closure"):
            ch = F.hir.get(c.get("name"))
            if ch and ch not in bodies:
                bodies.append(ch)
    arms = {"Context": [], "List": []}
    for hh in bodies:
        for x, _ in find_hir(hh["body"], lambda x: x.get("k") in ("If", "Match", "LetStmt")):
            for pat, body, scrut in pattern_sites(x):
                for variant in ("Context", "List"):
                    b = payload_binding(pat, "dmntk_feel::values::Value::" + variant)
                    if b:
                        arms[variant].append((b, body, scrut, hh))
    # own keys: an insert into the result set whose argument derives from the entry key, not nested in a pattern test on the value
    for variant, what in (("Context", "nested contexts"), ("List", "lists of contexts")):
        key = "recurse:%s" % variant
        if not arms[variant]:
            rep.violation(rid, key, "FeelContext::flatten_keys has no case for Value::%s: names inside %s are unknown to the lexer" % (variant, what), where)
            continue
        verdicts = []
        for bname, body, scrut, hh in arms[variant]:
            recs = [x for x, _ in find_hir(body, lambda x: x.get("k") in ("MethodCall", "Call") and (x.get("callee") or "") == FLATTEN_CTX)] if body else []
            for c, _ in (find_hir(body, lambda x: x.get("k") == "Closure") if body else []):
                ch = F.hir.get(c.get("name"))
                if ch:
                    recs += [x for x, _ in find_hir(ch["body"], lambda x: x.get("k") in ("MethodCall", "Call") and (x.get("callee") or "") == FLATTEN_CTX)]
            if not recs:
                verdicts.append(("none", None))
                continue
            if variant == "Context":
                verdicts.append(("ok", None))
                continue
            # List: how do the items reach the recursive call ?  selectors between the payload binding and the recursion are positive evidence
            sels = selectors_on_local(body, bname, F)
            brk = early_exit_in_item_loop(body, bname)
            if sels:
                verdicts.append(("selector", sels[0]))
            elif brk:
                verdicts.append(("break", brk))
            else:
                verdicts.append(("ok", None))
        if any(v[0] == "selector" for v in verdicts):
            s = [v for v in verdicts if v[0] == "selector"][0][1]
            rep.violation(rid, key, "FeelContext::flatten_keys looks at `%s()` of a list only: entry names that occur in other items are unknown to the lexer" % s, where)
        elif any(v[0] == "break" for v in verdicts):
            rep.violation(rid, key, "FeelContext::flatten_keys leaves the loop over the items of a list early (%s)" % [v for v in verdicts if v[0] == "break"][0][1], where)
        elif all(v[0] == "none" for v in verdicts):
            rep.violation(rid, key, "FeelContext::flatten_keys does not descend into Value::%s: names inside %s are unknown to the lexer" % (variant, what), where)
        else:
            rep.ok(rid, key, "recursion into %s" % what)
    # own keys
    own = own_key_insert(h)
    if own is True:
        rep.ok(rid, "own-keys", "every entry's key is inserted")
    elif own is False:
        rep.violation(rid, "own-keys", "FeelContext::flatten_keys inserts an entry's own key only under a condition on its value", where)
    else:
        rep.undecided(rid, "own-keys", "no unconditional insert of the entry key was recognised")


def pattern_sites(x):
    """(pattern, guarded body, scrutinee) of if-let / match arms / let-else"""
    k = x.get("k")
    if k == "If" and strip(x["c"]).get("k") == "Let":
        c = strip(x["c"])
        yield c["p"], x.get("then"), c.get("e")
    elif k == "Match" and x.get("src") in ("Normal", None):
        for arm in x.get("arms", []):
            yield arm["p"], arm.get("b"), x.get("e")


def payload_binding(p, path):
    """name bound to the first field of a TupleStruct pattern of the given path (searched through references / or-patterns / Some(..) wrappers)"""
    if not isinstance(p, dict):
        return None
    k = p.get("k")
    if k in ("TupleStruct", "Struct") and p.get("path") == path:
        subs = p.get("ps") or [f["p"] for f in p.get("fields", [])]
        if subs:
            q = subs[0]
            while q.get("k") in ("Ref", "Guard"):
                q = q["p"]
            if q.get("k") == "Bind":
                return q["name"]
            return "_"
        return "_"
    for v in (p.get("ps") or []) + ([p["p"]] if isinstance(p.get("p"), dict) else []) + ([p["sub"]] if isinstance(p.get("sub"), dict) else []):
        r = payload_binding(v, path)
        if r:
            return r
    return None


def pat_paths(p):
    out = []

    def rec(q):
        if isinstance(q, dict):
            if q.get("path") and q.get("k") in ("TupleStruct", "Struct", "Path"):
                out.append(q["path"])
            for v in q.values():
                rec(v)
        elif isinstance(q, list):
            for x in q:
                rec(x)
    rec(p)
    return out


def selectors_on_local(body, name, F):
    """selector methods applied (anywhere in a receiver chain) to the local `name` inside body"""
    out = []
    for x, _ in find_hir(body, lambda x: x.get("k") == "MethodCall"):
        names, root = chain_of(x)
        if root.get("k") == "Path" and root.get("res") == "local" and root.get("name") == name:
            out += [m for m in names if m in SELECTORS]
    for x, _ in find_hir(body, lambda x: x.get("k") == "Index"):
        names, root = chain_of(x.get("a", {}))
        if root.get("k") == "Path" and root.get("res") == "local" and root.get("name") == name:
            out.append("index")
    return out


def selectors_on_field(h, field):
    out = []
    al = aliases_of(h)
    for x, _ in find_hir(h["body"], lambda x: x.get("k") == "MethodCall"):
        names, root = chain_of(x, al)
        if root.get("k") == "Field" and root.get("name") == field:
            out += [m for m in names if m in SELECTORS]
    return out


def early_exit_in_item_loop(body, name):
    for lp, _ in find_hir(body, lambda x: x.get("k") == "Match" and x.get("src") == "ForLoopDesugar"):
        names, root = chain_of(strip(lp["e"]).get("args", [{}])[0] if strip(lp["e"]).get("k") == "Call" else lp["e"])
        if root.get("k") == "Path" and root.get("name") == name:
            ex = [x for x, _ in find_hir(lp["arms"], lambda x: x.get("k") in ("Break", "Ret"))]
            # the desugaring itself contains one `break` (None => break)
            real = [x for x in ex if x.get("src") != "ForLoopDesugar" and not x.get("m")]
            if len(ex) > 1 and len(real) > 1:
                return "break / return inside the loop"
    return None


def own_key_insert(h):
    """True when some `insert` into a set takes a value derived from the loop's key binding and is not nested inside a pattern test / condition within the loop body"""
    loops = [x for x, _ in find_hir(h["body"], lambda x: x.get("k") == "Match" and x.get("src") == "ForLoopDesugar")]
    verdict = None
    for lp in loops:
        inner = [x for x, _ in find_hir(lp["arms"], lambda x: x.get("k") == "Match" and x.get("src") == "ForLoopDesugar")]
        if not inner:
            continue
        body = None
        for arm in inner[0]["arms"]:
            if "Some" in str(arm["p"].get("path", "")):
                body = arm["b"]
        if body is None:
            continue
        blk = strip(body)
        stmts = blk.get("b", {}).get("stmts", []) if blk.get("k") == "Block" else []
        top = [strip(s.get("e", s)) if s.get("k") in ("Semi", "Expr") else strip(s) for s in stmts]
        for s in top:
            if s.get("k") == "MethodCall" and s.get("method") == "insert":
                return True
        if any(x for x, _ in find_hir(body, lambda x: x.get("k") == "MethodCall" and x.get("method") == "insert")):
            verdict = False if verdict is None else verdict
        break
    # iterator style: keys().map(..).collect / extend
    if verdict is None:
        for x, _ in find_hir(h["body"], lambda x: x.get("k") == "MethodCall" and x.get("method") in ("extend", "collect")):
            names, root = chain_of(x)
            if "keys" in names or "iter" in names:
                return True
    return verdict


# ====================================================================================================== R10.5
SYMBOLS = [".", "/", "-", "'", "+", "*"]


def normalisation_rule(F, rep, tier="quick"):
    """The lexer tests `flatten_name_parts(parts[..k])` for membership in the flattened scope keys; the keys are the texts of `Name`s, which are built from the same parts by
    Name::new. A bound name is found only if the two normalisations give the same text. Both functions are folded (abstract-string engine, loops over the concrete part list
    unrolled; nothing of the repository runs) on every sequence of up to 4 parts over one word representative and the six additional name symbols - the functions look at a part
    only through trim / is_empty / equality with those symbols and concatenation, so one word stands for all words."""
    import itertools
    import strfold
    from hireval import Evaluator, TooManyPaths
    rid = rep.rule("R10.5", "the name text the lexer looks up (flatten_name_parts) equals the text of the Name built from the same parts (Name::new), for every sequence of words and additional symbols")
    flat = [n for n in F.hir if n.startswith("dmntk_feel_parser::lexer::") and n.endswith("::flatten_name_parts")]
    new = "dmntk_feel::names::Name::new"
    if not flat:
        rep.undecided(rid, "normalisation", "no function flatten_name_parts in the lexer (the candidate text is built otherwise)")
        return
    if new not in F.hir:
        rep.missing_anchor(rid, new)
        return
    flat = flat[0]

    def fold(name, parts):
        ev = Evaluator(F, ints=True, max_paths=300)
        sf = strfold.StrFold(ev)

        def hook(callee, args, st):
            c = callee or ""
            if c.endswith("::trim") and args and strfold.as_str(args[0]) is not None and all(a[0] == "c" for a in strfold.as_str(args[0])[1]):
                return ("lit", "".join(a[1] for a in strfold.as_str(args[0])[1]).strip())
            return sf.hook(callee, args, st)
        ev.call_hook = hook
        ev.inline = {n for n in F.hir if (n.startswith("dmntk_feel::names::") or n.startswith("<dmntk_feel::names::Name as ") or n.startswith("dmntk_feel_parser::lexer::")) and "{closure" not in n and n != name}
        h = F.hir[name]
        try:
            outs = ev.run(h["params"], h["body"], [("array", [("lit", x) for x in parts])])
        except (TooManyPaths, ValueError, KeyError, RecursionError):
            return None
        vals = set()
        for _, v in outs:
            while isinstance(v, tuple) and v[0] == "v" and len(v[2]) == 1:
                v = v[2][0]          # Name(text)
            t = strfold.as_str(v)
            if t is None or not all(a[0] == "c" for a in t[1]):
                return None
            vals.add("".join(a[1] for a in t[1]))
        return vals.pop() if len(vals) == 1 else None
    alphabet = ["w"] + SYMBOLS
    maxlen = 4 if tier == "thorough" else 3
    n, und, diffs = 0, 0, []
    for k in range(1, maxlen + 1):
        for seq in itertools.product(alphabet, repeat=k):
            if seq[0] != "w":
                continue            # a name starts with a name start character
            n += 1
            a, b = fold(flat, list(seq)), fold(new, list(seq))
            if a is None or b is None:
                und += 1
            elif a != b and len(diffs) < 4:
                diffs.append((seq, a, b))
    h = F.hir[flat]
    rep.analysed["R10.5 part sequences folded"] = n
    if diffs:
        # key: the shortest disagreeing sequence
        seq, a, b = diffs[0]
        rep.violation(rid, "normalisation:%s" % " ".join(seq), "for the parts %s the lexer looks up `%s` but the Name built from them - the key in the scope - reads `%s`%s: such a bound name is never found"
                      % (list(seq), a, b, " (also: %s)" % "; ".join("%s -> `%s` / `%s`" % (" ".join(s_), x, y) for s_, x, y in diffs[1:]) if len(diffs) > 1 else ""), "%s:%s" % (h["file"], h["line"]))
    elif und:
        rep.undecided(rid, "normalisation", "%d of %d part sequences do not fold to a literal text" % (und, n))
    else:
        rep.ok(rid, "normalisation", "%d part sequences (up to %d parts over a word and the six symbols): identical texts" % (n, maxlen))


# ====================================================================================================== R10.7
NAME_START = [(0x3F, 0x3F), (0x41, 0x5A), (0x5F, 0x5F), (0x61, 0x7A), (0xC0, 0xD6), (0xD8, 0xF6), (0xF8, 0x2FF), (0x370, 0x37D), (0x37F, 0x1FFF), (0x200C, 0x200D),
              (0x2070, 0x218F), (0x2C00, 0x2FEF), (0x3001, 0xD7FF), (0xF900, 0xFDCF), (0xFDF0, 0xFFFD), (0x10000, 0xEFFFF)]
NAME_PART_EXTRA = [(0x30, 0x39), (0xB7, 0xB7), (0x300, 0x36F), (0x203F, 0x2040)]


def name_characters_rule(F, rep, tier="quick"):
    """FEEL grammar rules 28 / 29 (DMN 1.3, 10.3.1.2): which characters may start / continue a name. The lexer's two predicates are folded on every boundary of the specified
    ranges (lo-1, lo, hi, hi+1) and on samples inside them - among them characters that are no letters in Unicode's sense (the euro sign, the degree Celsius sign, ZWNJ, a
    Devanagari virama) - and must answer exactly as the grammar."""
    from hireval import Evaluator, TooManyPaths
    rid = rep.rule("R10.7", "the lexer's name-start / name-part character classes are exactly those of FEEL grammar rules 28 and 29 (folded on all range boundaries and samples)")

    def spec(cp, part):
        ok = any(lo <= cp <= hi for lo, hi in NAME_START)
        return ok or (part and any(lo <= cp <= hi for lo, hi in NAME_PART_EXTRA))
    reps = set()
    for lo, hi in NAME_START + NAME_PART_EXTRA:
        reps |= {lo - 1, lo, hi, hi + 1, (lo + hi) // 2}
    reps |= {0x20AC, 0x2103, 0x94D, 0xE48, 0xD7, 0xF7, 0x37E, 0x2000, 0x20, 0x2D, 0x2B, 0x2E, 0x2F, 0x27, 0x2A, 0x40, 0x5B, 0x60, 0x7B, 0x1F600, 0xE9, 0x4E2D, 0x3000}
    if tier == "thorough":
        reps |= set(range(0, 0x3000)) | {c for lo, hi in NAME_START + NAME_PART_EXTRA for c in range(max(0, lo - 3), lo + 4)} | {c for lo, hi in NAME_START + NAME_PART_EXTRA for c in range(hi - 3, hi + 4)}
    reps = sorted(c for c in reps if 0 <= c <= 0x10FFFF and not (0xD800 <= c <= 0xDFFF))
    for simple, part in (("is_name_start_char", False), ("is_name_part_char", True)):
        fns = [n for n in F.hir if n.startswith("dmntk_feel_parser::lexer::") and n.endswith("::" + simple)]
        if not fns:
            rep.undecided(rid, simple, "no function %s in the lexer" % simple)
            continue
        h = F.hir[fns[0]]
        probs, und = [], 0
        for cp in reps:
            ev = Evaluator(F, ints=True, max_paths=100, inline={n for n in F.hir if n.startswith("dmntk_feel_parser::lexer::") and "{closure" not in n and n != fns[0]})
            try:
                outs = ev.run(h["params"], h["body"], [("lit", chr(cp))])
            except (TooManyPaths, ValueError, KeyError, RecursionError):
                outs = None
            vals = {v[1] if isinstance(v, tuple) and v[0] == "bool" else None for _, v in (outs or [(None, None)])}
            if len(vals) != 1 or None in vals:
                und += 1
                continue
            got = vals.pop()
            if got != spec(cp, part) and len(probs) < 4:
                probs.append("U+%04X %s" % (cp, "is accepted but is not in the grammar's ranges" if got else "is rejected although the grammar allows it"))
        key = "chars:%s" % simple
        if probs:
            rep.violation(rid, key, "%s: %s - a name containing such a character %s" % (simple, "; ".join(probs), "is cut or is a syntax error"), "%s:%s" % (h["file"], h["line"]))
        elif und:
            rep.undecided(rid, key, "%d of %d representative characters do not fold" % (und, len(reps)))
        else:
            rep.ok(rid, key, "%d representative characters (all range boundaries of rule %s) classified as the grammar does" % (len(reps), "29" if part else "28"))


# ====================================================================================================== R10.4
def char_byte_rule(F, rep):
    """R10.8: names may contain any letters; the lexer's name collector counts in characters (positions in the `Vec<char>` input) while `String::len()` / `str::len()`
    count UTF-8 bytes.  A comparison, sum or difference of a byte length with a character count is right for ASCII names only: a bound name with non-ASCII letters is then
    cut short or not found.  Decided by a unit analysis over the MIR of the lexer's functions and their closures: byte lengths ('B': String::len, str::len, len_utf8),
    character counts ('C': chars().count(), possibly after filter / skip / take, the maximum of such counts); a Lt / Le / Gt / Ge / Eq / Ne / Add / Sub whose two
    operands carry different units is reported."""
    import mirutil
    rid = rep.rule("R10.8", "the lexer never compares or adds a UTF-8 byte length and a character count (names with non-ASCII letters must be found like ASCII ones)")
    BYTES = re.compile(r"(core::str::<impl str>::len|alloc::string::String::len|char::methods::<impl char>::len_utf8)$")
    bodies = {n: b for n, b in F.bodies.items() if n.startswith("dmntk_feel_parser::lexer::")}
    memo = {}

    def from_chars(Bd, op, depth=0):
        if op[0] not in ("C", "M") or depth > 8:
            return False
        defs = Bd.defs.get(op[1][0], [])
        if len(defs) != 1:
            return False
        bi, si, kind, st = defs[0]
        if kind == "call":
            p = st["f"].get("p") or ""
            if p.endswith("core::str::<impl str>::chars"):
                return True
            return bool(st["args"]) and from_chars(Bd, st["args"][0], depth + 1)
        rv = st[2]
        if rv[0] == "Use":
            return from_chars(Bd, rv[1], depth + 1)
        if rv[0] == "Ref":
            return from_chars(Bd, ["C", rv[2]], depth + 1)
        return False

    def closure_of_local(Bd, op):
        """name of the closure an operand holds (a closure aggregate assigned once)"""
        if op[0] not in ("C", "M"):
            return None
        defs = Bd.defs.get(op[1][0], [])
        if len(defs) == 1 and defs[0][2] == "assign" and defs[0][3][2][0] == "Agg" and isinstance(defs[0][3][2][1], list) and defs[0][3][2][1][0] == "closure":
            return defs[0][3][2][1][1]
        return None

    def unit(name, Bd, op, depth=0):
        if op[0] not in ("C", "M") or depth > 12:
            return None
        l = op[1][0]
        key = (name, l)
        if key in memo:
            return memo[key]
        memo[key] = None
        defs = Bd.defs.get(l, [])
        u = None
        us = []
        for bi, si, kind, st in defs:
            x = None
            if kind == "call":
                p = st["f"].get("p") or ""
                args = st.get("args", [])
                if BYTES.search(p):
                    x = "B"
                elif re.search(r"Iterator>?::count$", p):
                    x = "C" if args and from_chars(Bd, args[0]) else None
                elif re.search(r"(Iterator>?::(max|min|sum)|Option::<.*>::(unwrap_or|unwrap|unwrap_or_default)|cmp::(min|max)|Ord::(min|max)|checked_(add|sub)|saturating_(add|sub))$", p) and args:
                    parts = [unit(name, Bd, a, depth + 1) for a in args]
                    parts = [q for q in parts if q]
                    x = "X" if {"B", "C"} <= set(parts) else (parts[0] if parts else None)
                elif re.search(r"Iterator>?::map$", p) and len(args) == 2:
                    cn = closure_of_local(Bd, args[1])
                    if cn in F.bodies:
                        cb = F.bodies[cn]
                        x = unit(cn, mirutil.Body(F, cb), ["C", [0]], depth + 1)
            elif kind == "assign":
                rv = st[2]
                if rv[0] == "Use":
                    x = unit(name, Bd, rv[1], depth + 1)
                elif rv[0] == "Cast":
                    x = unit(name, Bd, rv[2], depth + 1)
                elif rv[0] == "Bin" and rv[1].replace("WithOverflow", "") in ("Add", "Sub"):
                    a, c = unit(name, Bd, rv[2], depth + 1), unit(name, Bd, rv[3], depth + 1)
                    x = "X" if {a, c} >= {"B", "C"} else (a or c)
                elif rv[0] == "Agg" and rv[1] == "tuple":
                    parts = [q for q in (unit(name, Bd, y, depth + 1) for y in rv[2]) if q]
                    x = "X" if {"B", "C"} <= set(parts) else (parts[0] if parts else None)
            if x:
                us.append(x)
        if us:
            u = "X" if "X" in us or {"B", "C"} <= set(us) else us[0]
        memo[key] = u
        return u
    nops = 0
    for name, b in sorted(bodies.items()):
        Bd = mirutil.Body(F, b)
        k = 0
        for bl in b["blocks"]:
            if bl.get("cleanup"):
                continue
            for st in bl["s"]:
                if st[0] == "A" and st[2][0] == "Bin" and st[2][1].replace("WithOverflow", "") in ("Add", "Sub", "Lt", "Le", "Gt", "Ge", "Eq", "Ne"):
                    a, c = unit(name, Bd, st[2][2]), unit(name, Bd, st[2][3])
                    if a or c:
                        nops += 1
                    if {a, c} >= {"B", "C"}:
                        short = name.split("::")[-1] if "{closure" not in name else name.split("lexer::")[-1]
                        rep.violation(rid, "units:%s#%d" % (short, k), "%s combines a UTF-8 byte length with a character count (%s, line %s): right for ASCII names only - a bound name with "
                                      "non-ASCII letters is cut short or not found" % (short, st[2][1], st[-1]), "%s:%s" % (b["file"], st[-1]))
                        k += 1
    if not any(v["rule"] == rid for v in rep.violations):
        rep.ok(rid, "units", "%d length-bearing comparisons / sums in the lexer, none mixes bytes and characters" % nops)
    rep.floor(rid, "lexer bodies analysed for length units", len(bodies), 20)
