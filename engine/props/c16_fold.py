"""C16, R16.8: FeelType::is_equivalent / is_conformant folded on every ordered pair of a universe of concrete types and compared with the relation the statement defines.

The two relations are evaluated by the folding engine on concrete FeelType values (simple types, list / range / context / function types to depth 2); the entry map of a
context type is modelled as a sequence of (name, type) pairs with `get`, `len`, `keys`, `contains_key` and iteration in name order (BTreeMap).  The reference relation is written
here from the property's statement: equivalence is structural identity; `s` conforms to `t` when they are equivalent, `s` is Null, `t` is Any, or both have the same
constructor and conform component-wise - covariantly in element, entry (every entry of `t` is present in `s`) and result types, contravariantly in parameter types, with equal
numbers of parameters.  Only a fold that ends in one definite boolean that differs is a violation."""
import itertools

from hireval import Evaluator, TooManyPaths, mk_bool

T = "dmntk_feel::types::FeelType"
SIMPLE = ("Any", "Null", "Number", "String", "Boolean", "Date")


def L(t):
    return ("List", t)


def R(t):
    return ("Range", t)


def C(**kw):
    return ("Context", tuple(sorted(kw.items())))


def Fn(ps, r):
    return ("Function", tuple(ps), r)


UNIVERSE = list(SIMPLE) + [L("Number"), L("Any"), L("Null"), L(L("Number")), L("String"), R("Number"), R("Date"), R("Any"), R("Null"),
                           C(), C(a="Number"), C(a="Any"), C(a="Null"), C(a="String"), C(b="Number"), C(a="Number", b="String"), C(a="Any", b="String"), C(a=L("Number")),
                           Fn([], "Number"), Fn([], "Any"), Fn(["Number"], "Number"), Fn(["Any"], "Number"), Fn(["Null"], "Number"), Fn(["Number"], "Any"), Fn(["Number"], "String"),
                           Fn(["Number", "Number"], "Number"), Fn(["String"], "Number"), L(C(a="Number")), L(Fn(["Number"], "Number"))]


def show(t):
    if isinstance(t, str):
        return t.lower()
    if t[0] in ("List", "Range"):
        return "%s<%s>" % (t[0].lower(), show(t[1]))
    if t[0] == "Context":
        return "context<%s>" % ", ".join("%s: %s" % (k, show(v)) for k, v in t[1])
    return "function<%s> -> %s" % (", ".join(show(p) for p in t[1]), show(t[2]))


def enc(t):
    if isinstance(t, str):
        return ("v", t, [])
    if t[0] in ("List", "Range"):
        return ("v", t[0], [enc(t[1])])
    if t[0] == "Context":
        return ("v", "Context", [("array", [("tuple", [("lit", k), enc(v)]) for k, v in t[1]])])
    return ("v", "Function", [("array", [enc(p) for p in t[1]]), enc(t[2])])


def equivalent(s, t):
    return s == t


def conforms(s, t):
    if s == t or s == "Null" or t == "Any":
        return True
    if isinstance(s, str) or isinstance(t, str) or s[0] != t[0]:
        return False
    if s[0] in ("List", "Range"):
        return conforms(s[1], t[1])
    if s[0] == "Context":
        have = dict(s[1])
        return all(k in have and conforms(have[k], v) for k, v in t[1])
    return len(s[1]) == len(t[1]) and conforms(s[2], t[2]) and all(conforms(pt, ps) for ps, pt in zip(s[1], t[1]))


def fold(F, fn, s, t):
    box = {}

    def hook(c, a, st):
        ev = box["ev"]
        c = c or ""
        seq = ev.as_seq(a[0]) if a else None
        if "BTreeMap" in c and seq is not None:
            m = c.split("::")[-1]
            if m == "get" and len(a) == 2:
                for kv in seq:
                    if kv[0] == "tuple" and kv[1][0] == a[1]:
                        return ("v", "Some", [kv[1][1]])
                return ("v", "None", []) if a[1][0] == "lit" else None
            if m == "contains_key" and len(a) == 2 and a[1][0] == "lit":
                return mk_bool(any(kv[1][0] == a[1] for kv in seq))
            if m == "len":
                return ("lit", len(seq))
            if m == "is_empty":
                return mk_bool(not seq)
            if m == "keys":
                return ("iterv", [kv[1][0] for kv in seq])
            if m == "values":
                return ("iterv", [kv[1][1] for kv in seq])
            if m in ("iter", "into_iter"):
                return ("iterv", list(seq))
        if c.endswith("names::Name as core::cmp::PartialEq>::eq") and len(a) == 2 and a[0][0] == a[1][0] == "lit":
            return mk_bool(a[0] == a[1])
        if c.endswith("mem::discriminant") and a and a[0][0] == "v":
            return ("lit", a[0][1])
        return None
    ev = Evaluator(F, call_hook=hook, ints=True, max_paths=400, inline={T + "::is_equivalent", T + "::is_conformant"})
    ev.vecs = True
    box["ev"] = ev
    try:
        outs = ev.run_fn(fn, [enc(s), enc(t)])
    except (TooManyPaths, ValueError, KeyError, TypeError, IndexError, RecursionError) as x:
        return None, "%s: %s" % (type(x).__name__, str(x)[:80])
    vals = set()
    for conds, v in outs:
        if conds:
            return None, "path condition left open: %s" % str(conds[0])[:80]
        if v[0] != "bool":
            return None, "not a boolean: %s" % str(v)[:80]
        vals.add(v[1])
    if len(vals) != 1:
        return None, "%d answers" % len(vals)
    return vals.pop(), ""


def run(F, rep, tier):
    rid = rep.rule("R16.8", "FeelType::is_equivalent and is_conformant, folded on every ordered pair of a universe of concrete types (simple, list, range, context, function; depth 2), "
                            "answer the relation the statement defines")
    universe = list(dict.fromkeys(UNIVERSE))
    if tier == "thorough":
        # the statement's universe to depth 1 over six simple types, plus the depth-2 types of the quick table: lists, ranges, contexts with 0..2 entries, functions with 0..2 parameters
        S = list(SIMPLE)
        gen = [L(t) for t in S] + [R(t) for t in S] + [C()] + [C(a=t) for t in S] + [C(b=t) for t in S[:3]] + [C(a=t, b=u) for t in S[:4] for u in S[:4]] + \
              [Fn([], r) for r in S] + [Fn([p], r) for p in S[:4] for r in S[:4]] + [Fn([p, q], r) for p in S[:3] for q in S[:3] for r in S[:2]]
        universe = list(dict.fromkeys(universe + gen))
    total = 0
    for fn, ref, word in ((T + "::is_equivalent", equivalent, "is equivalent to"), (T + "::is_conformant", conforms, "conforms to")):
        h = F.hir.get(fn)
        key = "relation:%s" % fn.split("::")[-1]
        if h is None:
            rep.missing_anchor(rid, fn)
            continue
        bad, unknown, ok = [], [], 0
        for s, t in itertools.product(universe, repeat=2):
            got, note = fold(F, fn, s, t)
            if got is None:
                unknown.append("%s / %s: %s" % (show(s), show(t), note))
            elif got != ref(s, t):
                bad.append("%s %s %s: answered %s" % (show(s), word, show(t), str(got).lower()))
            else:
                ok += 1
        total += ok + len(bad)
        where = "%s:%s" % (h["file"], h["line"])
        if bad:
            rep.violation(rid, key, "%s disagrees with the relation of the statement on %d of %d pairs, e.g. %s" % (fn.split("::")[-1], len(bad), ok + len(bad), "; ".join(bad[:3])), where)
        elif len(unknown) > (ok + len(unknown)) // 4:
            rep.undecided(rid, key, "%d of %d pairs do not fold: %s" % (len(unknown), ok + len(unknown), "; ".join(unknown[:2])))
        else:
            rep.ok(rid, key, "%d pairs fold to the answer of the statement%s" % (ok, (" (%d do not fold)" % len(unknown)) if unknown else ""))
    rep.floor(rid, "pairs of types folded to a definite answer", total, 2000 if tier != "thorough" else 20000)


# ====================================================================================================== R16.9: coerced
def V(x):
    """python -> abstract FEEL value: int = number, str = string, None = null, list = list"""
    if x is None:
        return ("v", "Null", [("v", "None", [])])
    if isinstance(x, bool):
        return ("v", "Boolean", [("lit", x)])
    if isinstance(x, int):
        return ("v", "Number", [("lit", x)])
    if isinstance(x, str):
        return ("v", "String", [("lit", x)])
    return ("v", "List", [("array", [V(i) for i in x])])


def unV(v):
    if not isinstance(v, tuple) or v[0] != "v":
        return UNK
    if v[1] == "Null":
        return None
    if v[1] in ("Number", "String", "Boolean") and len(v[2]) == 1 and v[2][0][0] in ("lit", "bool"):
        return v[2][0][1]
    if v[1] == "List" and len(v[2]) == 1 and v[2][0][0] in ("array", "iterv") and isinstance(v[2][0][1], list):
        items = [unV(i) for i in v[2][0][1]]
        return UNK if any(i is UNK for i in items) else items
    return UNK


class _Unk:
    def __repr__(self):
        return "?"


UNK = _Unk()


def type_of(x):
    """the type the library assigns to a value (Value::type_of; decided separately by R16.5): [] is list<Null>, mixed items give list<Any>"""
    if x is None:
        return "Null"
    if isinstance(x, bool):
        return "Boolean"
    if isinstance(x, int):
        return "Number"
    if isinstance(x, str):
        return "String"
    ts = [type_of(i) for i in x]
    if not ts:
        return L("Null")
    return L(ts[0]) if all(t == ts[0] for t in ts) else L("Any")


def coerced(target, x):
    """the statement: the value itself when its type conforms, a singleton wrap or unwrap when that conforms, null otherwise"""
    if conforms(type_of(x), target):
        return x
    if not isinstance(target, str) and target[0] == "List" and conforms(type_of(x), target[1]):
        return [x]
    if isinstance(x, list) and len(x) == 1 and conforms(type_of(x[0]), target):
        return x[0]
    return None


VALUES = [1, "s", True, None, [], [1], ["s"], [1, 2], [1, "s"], [[1]], [[1, 2]], [[]], [[[1]]], [[1], [2]]]
TARGETS = ["Number", "String", "Any", "Null", "Boolean", L("Number"), L("String"), L("Any"), L(L("Number")), L(L("Any")), R("Number"), C(a="Number"), Fn(["Number"], "Number")]


def fold_coerced(F, target, x):
    box = {}
    vals = "dmntk_feel::values::Values::"

    def hook(c, a, st):
        ev = box["ev"]
        c = c or ""
        seq = ev.as_seq(a[0]) if a else None
        if c == vals + "new":
            return ("array", list(seq)) if seq is not None else None
        if c == vals + "as_vec":
            return a[0]
        if c == vals + "len" and seq is not None:
            return ("lit", len(seq))
        if c == vals + "is_empty" and seq is not None:
            return mk_bool(not seq)
        return None
    ev = Evaluator(F, call_hook=hook, ints=True, max_paths=400, inline={T + "::is_equivalent", T + "::is_conformant", "dmntk_feel::values::Value::type_of"})
    ev.vecs = True
    box["ev"] = ev
    try:
        outs = ev.run_fn(T + "::coerced", [enc(target), V(x)])
    except (TooManyPaths, ValueError, KeyError, TypeError, IndexError, RecursionError) as e:
        return UNK, "%s: %s" % (type(e).__name__, str(e)[:80])
    res = []
    for conds, v in outs:
        if conds:
            return UNK, "path condition left open: %s" % str(conds[0])[:80]
        res.append(unV(v))
    if len(res) != 1 or res[0] is UNK:
        return UNK, "%d results" % len(res)
    return res[0], ""


def showv(x):
    if x is None:
        return "null"
    if isinstance(x, bool):
        return str(x).lower()
    if isinstance(x, str):
        return '"%s"' % x
    if isinstance(x, list):
        return "[" + ", ".join(showv(i) for i in x) + "]"
    return str(x)


def run_coerced(F, rep):
    rid = rep.rule("R16.9", "FeelType::coerced, folded on every pair of a table of target types and values, answers what the statement defines: the value itself when its type conforms, "
                            "a singleton wrap or unwrap when that conforms, null otherwise")
    h = F.hir.get(T + "::coerced")
    if h is None:
        rep.missing_anchor(rid, T + "::coerced")
        return
    bad, unknown, ok = [], [], 0
    for t in TARGETS:
        for x in VALUES:
            got, note = fold_coerced(F, t, x)
            want = coerced(t, x)
            call = "%s.coerced(%s)" % (show(t), showv(x))
            if got is UNK:
                unknown.append("%s: %s" % (call, note))
            elif got != want or type(got) is not type(want):
                bad.append((call, "%s = %s, the statement gives %s" % (call, showv(got), showv(want))))
            else:
                ok += 1
    where = "%s:%s" % (h["file"], h["line"])
    for call, text in bad:
        rep.violation(rid, "coerced:%s" % call, text, where)
    if unknown and len(unknown) > (ok + len(bad) + len(unknown)) // 4:
        rep.undecided(rid, "coerced:fold", "%d of %d cells do not fold: %s" % (len(unknown), ok + len(bad) + len(unknown), "; ".join(unknown[:2])))
    elif not bad:
        rep.ok(rid, "coerced:fold", "%d cells fold to the statement's answer%s" % (ok, (" (%d do not fold)" % len(unknown)) if unknown else ""))
    rep.floor(rid, "coercion cells folded to a definite answer", ok + len(bad), 120)
