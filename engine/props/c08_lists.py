"""C08, R08.12: the list built-ins, folded on small lists of symbolic items, answer what the specification defines (DMN 1.3, 10.3.4.4 list functions).

The positional wrappers (`bif_append(parameters)` ...) are evaluated by the folding engine (hireval, `ints` + `vecs`) on argument lists made of lists of *symbolic* items
(`a`, `b`, `c`: distinct symbols stand for distinct values, the same symbol for equal values), nested lists and literal positions.  `Values` (the newtype around `Vec<Value>`)
is modelled by its six methods, FEEL equality by identity of the symbolic item, the sign / magnitude / usize conversion of a position by the literal.  Expected answers are
computed here from the specification's definitions.  A fold that ends in one definite value that differs is a violation; anything the engine cannot follow is UNDECIDED.
Functions that hand a `&mut` local to another function of the workspace (flatten) are not folded: the engine does not model writes through a reference argument."""
from facts import find_hir, strip
from hireval import Evaluator, TooManyPaths, mk_bool, sym

CORE = "dmntk_feel_evaluator::bifs::core::"
POS = "dmntk_feel_evaluator::bifs::positional::"
VALUES = "dmntk_feel::values::Values::"
NUM = "dmntk_feel_number::number::FeelNumber::"


# ---------------------------------------------------------------------------------------------- values <-> python
class S(str):
    """a string value (plain str stands for a symbolic item)"""


def enc(x):
    """python -> abstract value: str = symbolic item, S = string, int = number literal, list = list, None = null, bool"""
    if isinstance(x, S):
        return ("v", "String", [("lit", str(x))])
    if isinstance(x, bool):
        return ("v", "Boolean", [("lit", x)])
    if isinstance(x, str):
        return ("v", "Number", [sym(x)])
    if isinstance(x, int):
        return ("v", "Number", [("lit", x)])
    if isinstance(x, list):
        return ("v", "List", [("array", [enc(i) for i in x])])
    raise ValueError(x)


def dec(v):
    """abstract value -> python (the token UNKNOWN when the value is not fully known)"""
    if not isinstance(v, tuple):
        return UNKNOWN
    if v[0] == "v" and v[1] == "List" and len(v[2]) == 1 and v[2][0][0] in ("array", "iterv") and len(v[2][0]) > 1 and isinstance(v[2][0][1], list):
        items = [dec(i) for i in v[2][0][1]]
        return UNKNOWN if any(i is UNKNOWN for i in items) else items
    if v[0] == "v" and v[1] == "String" and len(v[2]) == 1 and v[2][0][0] == "lit" and isinstance(v[2][0][1], str):
        return S(v[2][0][1])
    if v[0] == "v" and v[1] == "Number" and len(v[2]) == 1:
        p = v[2][0]
        if p[0] == "sym":
            return p[1]
        if p[0] == "lit" and isinstance(p[1], int) and not isinstance(p[1], bool):
            return p[1]
        return UNKNOWN
    if v[0] == "v" and v[1] == "Boolean" and len(v[2]) == 1 and v[2][0][0] in ("bool", "lit") and isinstance(v[2][0][1], bool):
        return v[2][0][1]
    if v[0] == "bool":
        return v[1]
    if v[0] == "v" and v[1] == "Null":
        return None
    return UNKNOWN


class _Unknown:
    def __repr__(self):
        return "?"


UNKNOWN = _Unknown()


# ---------------------------------------------------------------------------------------------- the specification
def spec_remove(l, p):
    n = len(l)
    if 1 <= p <= n:
        return l[:p - 1] + l[p:]
    if -n <= p <= -1:
        return l[:n + p] + l[n + p + 1:]
    return None


def spec_insert_before(l, p, x):
    n = len(l)
    if 1 <= p <= n:
        return l[:p - 1] + [x] + l[p - 1:]
    if -n <= p <= -1:
        return l[:n + p] + [x] + l[n + p:]
    return None


def spec_sublist(l, s, k=None):
    n = len(l)
    if 1 <= s <= n:
        first = s - 1
    elif -n <= s <= -1:
        first = n + s
    else:
        return None
    if k is None:
        return l[first:]
    if k < 0 or first + k > n:
        return None
    return l[first:first + k]


def uniq(xs):
    out = []
    for x in xs:
        if x not in out:
            out.append(x)
    return out


L3, L4 = ["a", "b", "c"], ["a", "b", "c", "d"]
CASES = [
    # (wrapper, arguments, expected)
    ("bif_list_contains", [["a", "b"], "a"], True), ("bif_list_contains", [["a", "b"], "c"], False), ("bif_list_contains", [[], "a"], False),
    ("bif_list_contains", [["a", ["b"]], ["b"]], True), ("bif_list_contains", [["a", ["b"]], "b"], False),
    ("bif_count", [L3], 3), ("bif_count", [[]], 0), ("bif_count", [["a", ["b", "c"]]], 2),
    ("bif_append", [["a"], "b", "c"], L3), ("bif_append", [["a"], ["b", "c"]], ["a", ["b", "c"]]), ("bif_append", [[], "a"], ["a"]), ("bif_append", [["a", "a"], "a"], ["a", "a", "a"]),
    ("bif_concatenate", [["a", "b"], [], ["c"]], L3), ("bif_concatenate", [["a"]], ["a"]), ("bif_concatenate", [["a", ["b"]], ["c"]], ["a", ["b"], "c"]),
    ("bif_concatenate", [["a"], ["a"]], ["a", "a"]),
    ("bif_reverse", [L3], ["c", "b", "a"]), ("bif_reverse", [[]], []), ("bif_reverse", [["a", ["b", "c"]]], [["b", "c"], "a"]),
    ("bif_index_of", [["a", "b", "a"], "a"], [1, 3]), ("bif_index_of", [["a", "b"], "c"], []), ("bif_index_of", [["a", "b", "c"], "c"], [3]),
    ("bif_union", [["a", "b", "a"], ["b", "c"]], L3), ("bif_union", [["a", "a"]], ["a"]), ("bif_union", [[], ["a"]], ["a"]), ("bif_union", [["a", "a", "b"], []], ["a", "b"]),
    ("bif_union", [["b", "b"], ["a", "b"], ["c", "a"]], ["b", "a", "c"]),
    ("bif_distinct_values", [["a", "b", "a", "c", "b"]], L3), ("bif_distinct_values", [[]], []), ("bif_distinct_values", [["a", "a"]], ["a"]),
] + [("bif_remove", [L3, p], spec_remove(L3, p)) for p in (1, 2, 3, -1, -2, -3, 0, 4, -4)] \
  + [("bif_insert_before", [L3, p, "x"], spec_insert_before(L3, p, "x")) for p in (1, 2, 3, -1, -2, -3, 0, 4, -4)] \
  + [("bif_sublist", [L4, s], spec_sublist(L4, s)) for s in (1, 2, 4, -1, -2, -4, 0, 5, -5)] \
  + [("bif_sublist", [L4, s, k], spec_sublist(L4, s, k)) for s, k in ((1, 4), (2, 2), (4, 1), (-3, 2), (-1, 1), (2, 4), (1, 5), (-2, 3), (0, 1), (5, 1), (1, 1))]


def spec_substring(t, start, k=None):
    n = len(t)
    if 1 <= start <= n:
        first = start - 1
    elif -n <= start <= -1:
        first = n + start
    else:
        return None
    if k is None:
        return S(t[first:])
    if k < 1 or first + k > n:
        return None          # (a length reaching past the end: this implementation answers null; such cases are not in the table)
    return S(t[first:first + k])


FOO, ZOLW = S("foobar"), S("\u017c\u00f3\u0142w")
STRING_CASES = [
    ("bif_string_length", [FOO], 6), ("bif_string_length", [S("")], 0), ("bif_string_length", [ZOLW], 4),
    ("bif_starts_with", [FOO, S("fo")], True), ("bif_starts_with", [FOO, S("foobarx")], False), ("bif_starts_with", [FOO, S("")], True), ("bif_starts_with", [FOO, S("oo")], False),
    ("bif_starts_with", [S("fo"), FOO], False),
    ("bif_ends_with", [FOO, S("bar")], True), ("bif_ends_with", [FOO, S("xfoobar")], False), ("bif_ends_with", [FOO, S("ba")], False), ("bif_ends_with", [S("ar"), FOO], False),
    ("bif_contains", [FOO, S("ob")], True), ("bif_contains", [FOO, S("of")], False), ("bif_contains", [S("ob"), FOO], False),
    ("bif_substring_before", [FOO, S("bar")], S("foo")), ("bif_substring_before", [FOO, S("xyz")], S("")), ("bif_substring_before", [FOO, S("o")], S("f")),
    ("bif_substring_before", [ZOLW, S("w")], S("\u017c\u00f3\u0142")),
    ("bif_substring_after", [FOO, S("ob")], S("ar")), ("bif_substring_after", [FOO, S("xyz")], S("")), ("bif_substring_after", [FOO, S("o")], S("obar")),
    ("bif_substring_after", [ZOLW, S("\u00f3")], S("\u0142w")),
] + [("bif_substring", [FOO, st], spec_substring(FOO, st)) for st in (1, 3, 6, -1, -2, -6, 0, 7, -7)] \
  + [("bif_substring", [FOO, st, k], spec_substring(FOO, st, k)) for st, k in ((1, 6), (3, 3), (6, 1), (-2, 1), (-6, 6), (-3, 3), (1, 1), (0, 1), (7, 1), (3, 0))] \
  + [("bif_substring", [ZOLW, 2, 2], S("\u00f3\u0142")), ("bif_substring", [ZOLW, -1], S("w"))]


def show(x):
    if x is None:
        return "null"
    if isinstance(x, S):
        return '"%s"' % x
    if isinstance(x, list):
        return "[" + ", ".join(show(i) for i in x) + "]"
    if isinstance(x, bool):
        return str(x).lower()
    return str(x)


def fold(F, fn, args):
    """(list of decoded results, note)"""
    box = {}

    def hook(c, a, s):
        ev = box["ev"]
        c = c or ""
        if c.endswith("::evaluate_equals") and len(a) == 2:
            x, y = dec(a[0]), dec(a[1])
            if x is UNKNOWN or y is UNKNOWN:
                return None
            return mk_bool(x == y)
        seq = ev.as_seq(a[0]) if a else None
        if c == VALUES + "new":
            return ("array", list(seq)) if seq is not None else None
        if c == VALUES + "as_vec":
            return a[0]
        if c == VALUES + "len" and seq is not None:
            return ("lit", len(seq))
        if c == VALUES + "is_empty" and seq is not None:
            return mk_bool(not seq)
        if c.startswith(VALUES) and c[len(VALUES):] in ("add", "reverse", "insert", "remove"):
            m = c[len(VALUES):]
            if seq is None or not getattr(ev, "recv_local", None):
                return ("unknown", "Values::%s on an unknown receiver" % m)
            q = list(seq)
            if m == "add":
                q.append(a[1])
            elif m == "reverse":
                q.reverse()
            elif a[1][0] != "lit" or not isinstance(a[1][1], int):
                return ("unknown", "Values::%s at an unknown index" % m)
            elif m == "insert":
                if not 0 <= a[1][1] <= len(q):
                    return ("unknown", "panic: insert index out of bounds")
                q.insert(a[1][1], a[2])
            else:
                if not 0 <= a[1][1] < len(q):
                    return ("unknown", "panic: removal index out of bounds")
                del q[a[1][1]]
            return {"env": {ev.recv_local: ("array", q)}, "val": ("unit",)}
        if c.startswith(NUM) and a and a[0][0] == "lit" and isinstance(a[0][1], int) and not isinstance(a[0][1], bool):
            m, n = c[len(NUM):], a[0][1]
            if m == "is_positive":
                return mk_bool(n > 0)
            if m == "is_negative":
                return mk_bool(n < 0)
            if m == "abs":
                return ("lit", abs(n))
            if m in ("to_usize", "to_u64"):
                return ("v", "Some", [("lit", n)]) if n >= 0 else ("v", "None", [])
            if m in ("to_isize", "to_i64"):
                return ("v", "Some", [("lit", n)])
            if m in ("trunc", "floor", "ceiling", "clone"):
                return ("lit", n)
        if c in (NUM + "one", NUM + "zero") and not a:
            return ("lit", 1 if c.endswith("one") else 0)
        return None
    ev = Evaluator(F, call_hook=hook, ints=True, max_paths=300, inline={n for n in F.hir if n.startswith(CORE) and "{closure" not in n})
    ev.vecs = True
    box["ev"] = ev
    try:
        outs = ev.run_fn(POS + fn, [("array", [enc(x) for x in args])])
    except (TooManyPaths, ValueError, KeyError, TypeError, IndexError, RecursionError) as x:
        return None, "%s: %s" % (type(x).__name__, x)
    res = []
    for conds, v in outs:
        if conds:
            return None, "path condition left open: %s" % str(conds[0])[:60]
        res.append(dec(v))
    return res, ""


def mut_ref(a):
    while isinstance(a, dict) and a.get("k") in ("DropTemps", "Paren"):
        a = a.get("e")
    return isinstance(a, dict) and a.get("k") == "AddrOf" and bool(a.get("mut"))


def passes_mut_ref(F, fn, seen=None):
    """does the wrapper (or a core function it calls) hand `&mut local` to a function of the workspace ?  (writes through the reference are not modelled)"""
    seen = seen if seen is not None else set()
    if fn in seen or fn not in F.hir:
        return False
    seen.add(fn)
    h = F.hir[fn]
    for c, _ in find_hir(h["body"], lambda x: x.get("k") == "Call" and isinstance(x.get("callee"), str)):
        callee = c["callee"]
        if callee.startswith("dmntk_") and any(mut_ref(a) for a in c.get("args", [])):
            return True
        if callee.startswith(CORE) and passes_mut_ref(F, callee, seen):
            return True
    return False


def run(F, rep):
    judge(F, rep, "R08.12", "the list built-ins (list contains, count, append, concatenate, reverse, index of, union, distinct values, remove, insert before, sublist), folded through "
                            "their positional wrappers on small lists of symbolic items and literal positions, answer what the specification defines", CASES, "lists", 70)
    run_named(F, rep)
    judge(F, rep, "R08.13", "the string built-ins (string length, substring, substring before / after, starts with, ends with, contains), folded through their positional wrappers on "
                            "literal texts (ASCII and non-ASCII) and literal positions, answer what the specification defines", STRING_CASES, "strings", 40)


def judge(F, rep, rule, text, table, family, floor):
    rid = rep.rule(rule, text)
    by_fn = {}
    for fn, args, want in table:
        by_fn.setdefault(fn, []).append((args, want))
    decided = 0
    for fn, cases in sorted(by_fn.items()):
        key = "%s:%s" % (family, fn[4:])
        h = F.hir.get(POS + fn)
        if h is None:
            rep.missing_anchor(rid, POS + fn)
            continue
        where = "%s:%s" % (h["file"], h["line"])
        if passes_mut_ref(F, POS + fn):
            rep.undecided(rid, key, "%s hands a `&mut` local to another function: writes through the reference are not folded" % fn)
            continue
        bad, unknown, ok = [], [], 0
        for args, want in cases:
            res, note = fold(F, fn, args)
            call = "%s(%s)" % (fn[4:].replace("_", " "), ", ".join(show(a) for a in args))
            if res is None or len(res) != 1 or res[0] is UNKNOWN:
                unknown.append("%s: %s" % (call, note or ("%d results" % len(res) if res is not None else "?")))
            elif res[0] != want:
                bad.append("%s = %s, specified: %s" % (call, show(res[0]), show(want)))
            else:
                ok += 1
        decided += ok + len(bad)
        if bad:
            rep.violation(rid, key, "%s does not answer what the specification defines: %s" % (fn, "; ".join(bad[:3])), where)
        elif unknown:
            rep.undecided(rid, key, "%d of %d cases fold to the specified answer, %d do not fold: %s" % (ok, len(cases), len(unknown), "; ".join(unknown[:2])))
        else:
            rep.ok(rid, key, "%d cases fold to the specified answer" % ok)
    rep.floor(rid, "%s: built-in cases folded to a definite answer" % family, decided, floor)


# ====================================================================================================== R08.14: named = positional
NAMED = "dmntk_feel_evaluator::bifs::named::"


def static_text(F, path):
    """the text of a lazy_static Name (the string literals of its initialiser, joined by a space)"""
    for n, h in F.hir.items():
        if n.startswith("<" + path + " as ") and n.endswith("__static_ref_initialize"):
            return " ".join(x["v"] for x, _ in find_hir(h["body"], lambda q: q.get("k") == "Lit" and q.get("lit") == "str"))
    return None


def fold_named(F, fn, named_args):
    """fold the named wrapper on the parameter map {name text: value}; names reach get_param / the map as lazy_static references"""
    box = {}
    base = {}

    def lookup(key):
        if isinstance(key, tuple) and key and key[0] == "def":
            t = static_text(F, key[1])
            if t is None:
                return ("unknown", "name of %s" % key[1])
            for i, (nm, val) in enumerate(named_args):
                if nm == t:
                    return ("v", "Some", [("tuple", [enc(val), ("lit", i + 1)])])
            return ("v", "None", [])
        return None

    def hook(c, a, st):
        c = c or ""
        if c.endswith("::get_param") and len(a) == 2:
            return lookup(a[1])
        if "BTreeMap" in c and c.split("::")[-1] == "get" and len(a) == 2:
            return lookup(a[1])
        return base["hook"](c, a, st)
    # reuse the positional hook set (Values, FeelNumber, equality)
    res, note = None, ""
    import hireval

    class _Ev(Evaluator):
        pass
    # build an evaluator the same way fold() does, but entered at the named wrapper
    saved = {}

    def make():
        def inner_hook(c, a, st):
            return None
        return inner_hook
    ev_box = {}

    def pos_hook(c, a, st):
        ev = ev_box["ev"]
        c = c or ""
        if c.endswith("::evaluate_equals") and len(a) == 2:
            x, y = dec(a[0]), dec(a[1])
            return None if (x is UNKNOWN or y is UNKNOWN) else mk_bool(x == y)
        seq = ev.as_seq(a[0]) if a else None
        if c == VALUES + "new":
            return ("array", list(seq)) if seq is not None else None
        if c == VALUES + "as_vec":
            return a[0]
        if c == VALUES + "len" and seq is not None:
            return ("lit", len(seq))
        if c == VALUES + "is_empty" and seq is not None:
            return mk_bool(not seq)
        if c.startswith(VALUES) and c[len(VALUES):] in ("add", "reverse", "insert", "remove") and seq is not None:
            m = c[len(VALUES):]
            q = list(seq)
            if m == "add":
                q.append(a[1])
            elif m == "reverse":
                q.reverse()
            elif a[1][0] != "lit" or not isinstance(a[1][1], int):
                return ("unknown", "index")
            elif m == "insert":
                if not 0 <= a[1][1] <= len(q):
                    return ("unknown", "panic")
                q.insert(a[1][1], a[2])
            else:
                if not 0 <= a[1][1] < len(q):
                    return ("unknown", "panic")
                del q[a[1][1]]
            return {"put": ("array", q), "val": ("unit",)}
        if c.startswith(NUM) and a and a[0][0] == "lit" and isinstance(a[0][1], int) and not isinstance(a[0][1], bool):
            m, n = c[len(NUM):], a[0][1]
            if m == "is_positive":
                return mk_bool(n > 0)
            if m == "is_negative":
                return mk_bool(n < 0)
            if m == "abs":
                return ("lit", abs(n))
            if m in ("to_usize", "to_u64"):
                return ("v", "Some", [("lit", n)]) if n >= 0 else ("v", "None", [])
            if m in ("to_isize", "to_i64"):
                return ("v", "Some", [("lit", n)])
            if m in ("trunc", "floor", "ceiling", "clone"):
                return ("lit", n)
        if c in (NUM + "one", NUM + "zero") and not a:
            return ("lit", 1 if c.endswith("one") else 0)
        return None
    base["hook"] = pos_hook
    ev = Evaluator(F, call_hook=hook, ints=True, max_paths=300, inline={n for n in F.hir if (n.startswith(CORE) or n.startswith(NAMED)) and "{closure" not in n and not n.endswith("::get_param")})
    ev.vecs = True
    ev_box["ev"] = ev
    try:
        outs = ev.run_fn(NAMED + fn, [("v", "NamedParameters", [("sym", "the parameter map")])])
    except (TooManyPaths, ValueError, KeyError, TypeError, IndexError, RecursionError) as x:
        return None, "%s: %s" % (type(x).__name__, x)
    out = []
    for conds, v in outs:
        if conds:
            return None, "path condition left open: %s" % str(conds[0])[:60]
        out.append(dec(v))
    return out, ""


def run_named(F, rep):
    """R08.14: a named invocation answers what the positional invocation with the same arguments answers.  The named wrapper is folded with the parameter map answering each
    requested name (the text of the lazy_static Name the wrapper asks for) with the value the specification's parameter of that name receives; the result must be the
    specified answer of the positional case (R08.12 / R08.13 decide that the positional wrapper gives it)."""
    import json
    import os
    rid = rep.rule("R08.14", "the named wrappers of the list and string built-ins, folded with every parameter answered by name, give the specified answer of the positional invocation with the same arguments")
    sig = json.load(open(os.path.join(os.path.dirname(os.path.dirname(os.path.dirname(os.path.abspath(__file__)))), "tables", "bif_signatures.json")))
    pinned = sig.get("repo_pinned", {})
    decided = 0
    by_fn = {}
    for fn, args, want in CASES + STRING_CASES:
        by_fn.setdefault(fn, []).append((args, want))
    for fn, cases in sorted(by_fn.items()):
        feel_name = fn[4:].replace("_", " ")
        sigs = sig["signatures"].get(feel_name)
        h = F.hir.get(NAMED + fn)
        key = "named:%s" % fn[4:]
        if not sigs or feel_name in sig.get("variadic_no_named_form", []):
            continue
        if h is None:
            rep.undecided(rid, key, "no named wrapper %s" % fn)
            continue
        if passes_mut_ref(F, NAMED + fn):
            rep.undecided(rid, key, "%s hands a `&mut` local to another function" % fn)
            continue
        names = [pinned.get(feel_name, {}).get(nm, nm) if False else nm for nm in sigs[0]]
        repl = {v: k for k, v in pinned.get(feel_name, {}).items() if not k.startswith("_")}
        bad, unknown, ok = [], [], 0
        for args, want in cases[:12]:
            nm_args = []
            for i, val in enumerate(args):
                nm = names[i]
                nm_args.append((nm, val))
            tried = [nm_args]
            if repl:
                tried.append([(repl.get(nm, nm), val) for nm, val in nm_args])          # the name the repository's tests pin instead of the specification's
            verdict = None
            for cand in tried:
                res, note = fold_named(F, fn, cand)
                if res is not None and len(res) == 1 and res[0] is not UNKNOWN and res[0] == want:
                    verdict = "ok"
                    break
                if res is not None and len(res) == 1 and res[0] is not UNKNOWN:
                    verdict = ("bad", res[0], cand)
                elif verdict is None:
                    verdict = ("unknown", note)
            call = "%s(%s)" % (feel_name, ", ".join("%s: %s" % (names[i], show(a)) for i, a in enumerate(args)))
            if verdict == "ok":
                ok += 1
            elif verdict[0] == "bad":
                bad.append("%s = %s, the positional invocation is specified as %s" % (call, show(verdict[1]), show(want)))
            else:
                unknown.append("%s: %s" % (call, verdict[1]))
        decided += ok + len(bad)
        if bad:
            rep.violation(rid, key, "the named invocation does not answer like the positional one: %s" % "; ".join(bad[:3]), "%s:%s" % (h["file"], h["line"]))
        elif unknown:
            rep.undecided(rid, key, "%d of %d cases fold to the positional answer, %d do not fold: %s" % (ok, ok + len(unknown), len(unknown), "; ".join(unknown[:2])))
        else:
            rep.ok(rid, key, "%d cases fold to the positional answer" % ok)
    rep.floor(rid, "named invocations folded to a definite answer", decided, 60)
