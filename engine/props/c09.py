"""C09: three-valued logic, equality and ordering - finite tables extracted from the HIR (DESIGN §3 C09)."""
import json
import os
import re

import hirflow
from facts import find_hir, pat_paths

from hireval import Evaluator, closure_of, mk_bool, sym, value

LEVEL = "other"
CRATES_QUICK = ["dmntk_feel_evaluator", "dmntk_feel", "dmntk_feel_number"]
CRATES_THOROUGH = None
B = "dmntk_feel_evaluator::builders::"
VALUE_ADT = "dmntk_feel::values::Value"
ORDERED7 = ["Number", "String", "Date", "Time", "DateTime", "YearsAndMonthsDuration", "DaysAndTimeDuration"]
# temporal primitives: method name -> relation between receiver and argument (linking table, see DESIGN C09)
TEMPORAL_REL = {"before": "<", "before_or_equal": "<=", "after": ">", "after_or_equal": ">="}


def variants(F):
    adt = F.adts[VALUE_ADT]
    return [(v["name"], len(v["fields"])) for v in adt["variants"]]


def mk(variant, nfields, tag):
    return value(variant, *[sym("%s%d" % (tag, i)) for i in range(nfields)])


def subst(x, m):
    if isinstance(x, tuple):
        if x[0] == "sym" and x[1] in m:
            return ("sym", m[x[1]])
        if x[0] == "cmp":
            from hireval import canon_cmp
            return canon_cmp(x[1], subst(x[2], m), subst(x[3], m))
        return tuple(subst(y, m) for y in x)
    if isinstance(x, list):
        return [subst(y, m) for y in x]
    return x


def swapLR(x, nf=4):
    m = {}
    for i in range(nf):
        m["L%d" % i] = "R%d" % i
        m["R%d" % i] = "L%d" % i
    return subst(x, m)


def eval_closure(F, fn, operands):
    """evaluate the evaluator closure built by `fn` with the captured sub-evaluators returning `operands` (dict local name -> abstract value)"""
    h = F.hir_fn(fn)
    c = closure_of(h)
    if c is None:
        raise KeyError("no closure in " + fn)

    def hook(callee, args, st):
        if callee and callee.startswith("local:") and callee[6:] in operands:
            return operands[callee[6:]]
        return None
    ev = Evaluator(F, call_hook=hook)
    outs = ev.run(c["params"], c["body"], [sym("scope")])
    return outs, ev


def norm_outs(outs):
    """set of (frozenset conds that matter, value) -> canonical hashable form"""
    return sorted(set((tuple(c for c in conds), repr(v)) for conds, v in outs))


def classify_eq(outs):
    vals = [v for _, v in outs]
    if len(vals) == 1:
        v = vals[0]
        if v == value("None"):
            return "None"
        if v[0] == "v" and v[1] == "Some" and v[2] and v[2][0][0] == "bool":
            return "Some(%s)" % str(v[2][0][1]).lower()
        if v[0] == "v" and v[1] == "Some" and v[2] and v[2][0][0] == "cmp" and v[2][0][1] == "==":
            return "Some(L==R)"
        if v[0] == "call":
            return "prim:%s" % (v[1] or "?").split("::")[-1]
        return "other:%r" % (v,)
    consts = sorted(set(classify_eq([((), v)]) for v in vals))
    return "structural{%s}" % ",".join(consts)


def run(F, rep, tier):
    rep.explanation = ("The comparison and logic operators reach their operands only through `match` on Value variants, i.e. through finitely many kind "
                       "combinations. A symbolic partial evaluator folds the type-checked HIR of eval_ternary_equality and of the closures built by "
                       "build_eq/nq/lt/gt/le/ge/and/or/between and eval_in_range / eval_in_unary_* over every combination of operand kinds (payloads symbolic) "
                       "and compares the resulting tables with their transpose, their mirror sibling, the Kleene truth tables and each other. "
                       "Primitive comparisons on payloads (FeelNumber::partial_cmp, date comparison) are not decided.")
    rep.assumptions += ["PartialOrd/PartialEq on payload types are consistent relations (a<b iff b>a etc.); their values are not analysed",
                        "temporal primitives before/after/before_or_equal/after_or_equal denote < > <= >= (linking table in props/c09.py)"]
    vs = variants(F)
    rep.analysed["value_variants"] = len(vs)
    r1 = rep.rule("R09.1", "ternary equality table equals its transpose for every ordered pair of Value kinds")
    r2 = rep.rule("R09.2", "`!=` is exactly the negation of `=` with the same null handling")
    r3 = rep.rule("R09.3", "`<`/`>` and `<=`/`>=` are mirror images on every pair of kinds; `<=` is `<` or equal at the primitive level")
    r4 = rep.rule("R09.4", "and/or follow the Kleene truth tables, every non-boolean operand counting as null")
    r5 = rep.rule("R09.5", "between, in-range and unary tests: same ordered kinds, closed <-> non-strict, open <-> strict, between = closed range")
    rep.floor(r1, "Value variants", len(vs), 20)

    # ---------------- R09.1
    table = {}
    for a, na in vs:
        for b, nb in vs:
            ev = Evaluator(F)
            try:
                outs = ev.run_fn(B + "eval_ternary_equality", [mk(a, na, "L"), mk(b, nb, "R")])
                table[(a, b)] = classify_eq(outs)
            except Exception as e:  # fail closed
                table[(a, b)] = "error:%s" % e
    for a, _ in vs:
        for b, _ in vs:
            if a > b:
                continue
            x, y = table[(a, b)], table[(b, a)]
            key = "%s|%s" % (a, b)
            if x.startswith("error") or y.startswith("error") or x.startswith("other") or y.startswith("other"):
                rep.violation(r1, key, "cannot classify equality cell (%s, %s): %s / %s" % (a, b, x, y), "feel-evaluator/src/builders.rs eval_ternary_equality")
            elif x == y:
                rep.ok(r1, key, x)
            else:
                rep.violation(r1, key, "equality is not symmetric on kinds (%s, %s): `%s = %s` gives %s but `%s = %s` gives %s" % (a, b, a, b, x, b, a, y),
                              "feel-evaluator/src/builders.rs eval_ternary_equality")
    # diagonal: a kind compared with itself must not be unconditionally false/None when it is comparable with null
    for a, _ in vs:
        if table[(a, a)] in ("Some(false)",):
            rep.violation(r1, "diag:%s" % a, "`x = x` is constantly false for kind %s" % a, "feel-evaluator/src/builders.rs eval_ternary_equality")

    # ---------------- R09.2
    def teq_hook(callee, args, st):
        if callee and callee.endswith("::eval_ternary_equality"):
            return [(("teq", "Some"), value("Some", sym("r"))), (("teq", "None"), value("None"))]
        return None
    res = {}
    for fn in ("build_eq", "build_nq"):
        h = F.hir_fn(B + fn)
        c = closure_of(h)
        ev = Evaluator(F, call_hook=teq_hook)
        outs = ev.run(c["params"], c["body"], [sym("scope")])
        d = {}
        for conds, v in outs:
            k = [c0[1] for c0 in conds if c0 and c0[0] == "teq"]
            kk = k[0] if k else "?"
            if kk in d and d[kk] != v:
                # several different results for one outcome of the ternary equality: the operator does more than negate / wrap it
                d[kk] = ("multi", d[kk], v)
            else:
                d[kk] = v
        res[fn] = d
    want_eq = {"Some": value("Boolean", sym("r")), "None": value("Null")}
    want_nq = {"Some": value("Boolean", ("not", sym("r"))), "None": value("Null")}
    for fn, want in (("build_eq", want_eq), ("build_nq", want_nq)):
        for case in sorted(set(res[fn]) - {"Some", "None"}):
            rep.violation(r2, "%s:%s" % (fn, case), "%s produces %r on a path that does not consult the ternary equality at all: `!=`/`=` must be decided by eval_ternary_equality alone"
                          % (fn, res[fn][case]), "feel-evaluator/src/builders.rs %s" % fn)
        for case in ("Some", "None"):
            got = res[fn].get(case)
            if got == want[case]:
                rep.ok(r2, "%s:%s" % (fn, case), repr(got))
            else:
                rep.violation(r2, "%s:%s" % (fn, case), "%s: when the ternary equality is %s the operator yields %r, expected %r" % (fn, case, got, want[case]),
                              "feel-evaluator/src/builders.rs %s" % fn)

    # ---------------- R09.3
    tabs = {}
    for fn in ("build_lt", "build_gt", "build_le", "build_ge"):
        t = {}
        for a, na in vs:
            for b, nb in vs:
                try:
                    outs, _ = eval_closure(F, B + fn, {"lhe": mk(a, na, "L"), "rhe": mk(b, nb, "R")})
                    t[(a, b)] = outs[0][1] if len(outs) == 1 else ("multi", norm_outs(outs))
                except Exception as e:
                    t[(a, b)] = ("error", str(e))
        tabs[fn] = t
    nonnull = 0
    for lo, hi, strict in (("build_lt", "build_gt", True), ("build_le", "build_ge", False)):
        for a, _ in vs:
            for b, _ in vs:
                x = tabs[lo][(a, b)]
                y = swapLR(tabs[hi][(b, a)])
                key = "%s/%s:%s|%s" % (lo[6:], hi[6:], a, b)
                if x[0] in ("error", "multi") or y[0] in ("error", "multi"):
                    rep.violation(r3, key, "cannot normalise ordering cell: %r / %r" % (x, y), "feel-evaluator/src/builders.rs")
                    continue
                if x == y:
                    if x != value("Null"):
                        nonnull += 1
                    rep.ok(r3, key, repr(x))
                else:
                    rep.violation(r3, key, "`a %s b` on kinds (%s, %s) computes %r but the mirror `b %s a` computes %r"
                                  % ("<" if strict else "<=", a, b, x, ">" if strict else ">=", y), "feel-evaluator/src/builders.rs %s/%s" % (lo, hi))
    for a, _ in vs:
        for b, _ in vs:
            x = tabs["build_lt"][(a, b)]
            y = tabs["build_le"][(a, b)]
            key = "lt-le:%s|%s" % (a, b)
            if x == value("Null") and y == value("Null"):
                rep.ok(r3, key, "null in both")
                continue
            ok = False
            if x[0] == "v" and y[0] == "v" and x[1] == y[1] == "Boolean" and x[2] and y[2]:
                cx, cy = x[2][0], y[2][0]
                if cx[0] == "cmp" and cy[0] == "cmp" and cx[1] == "<" and cy[1] == "<=" and cx[2:] == cy[2:]:
                    ok = True
            if ok:
                rep.ok(r3, key, "%r / %r" % (x, y))
            else:
                rep.violation(r3, key, "on kinds (%s, %s) `<` computes %r and `<=` computes %r: not the strict/non-strict pair on the same operands" % (a, b, x, y),
                              "feel-evaluator/src/builders.rs build_lt/build_le")
    rep.floor(r3, "non-null ordering cells", nonnull, 6)

    # ---------------- R09.4
    alphabet = [("true", value("Boolean", mk_bool(True))), ("false", value("Boolean", mk_bool(False))),
                ("null", value("Null")), ("number", value("Number", sym("n"))), ("string", value("String", sym("s")))]

    def kleene(op, a, b):
        ta = {"true": True, "false": False}.get(a)
        tb = {"true": True, "false": False}.get(b)
        if op == "and":
            if ta is False or tb is False:
                return False
            if ta is True and tb is True:
                return True
            return None
        if ta is True or tb is True:
            return True
        if ta is False and tb is False:
            return False
        return None
    for fn, op in (("build_and", "and"), ("build_or", "or")):
        for an, av in alphabet:
            for bn, bv in alphabet:
                key = "%s:%s,%s" % (op, an, bn)
                try:
                    outs, _ = eval_closure(F, B + fn, {"lhe": av, "rhe": bv})
                except Exception as e:
                    rep.violation(r4, key, "cannot evaluate: %s" % e, "feel-evaluator/src/builders.rs %s" % fn)
                    continue
                want = kleene(op, an, bn)
                wantv = value("Null") if want is None else value("Boolean", mk_bool(want))
                if len(outs) == 1 and outs[0][1] == wantv:
                    rep.ok(r4, key, repr(wantv))
                else:
                    rep.violation(r4, key, "`%s %s %s` evaluates to %r, the three-valued table says %r" % (an, op, bn, [v for _, v in outs], wantv),
                                  "feel-evaluator/src/builders.rs %s" % fn)

    # ---------------- R09.5
    r5_intervals(F, rep, r5, vs)
    # ---------------- R09.6
    temporal_order_rule(F, rep)
    # ---------------- R09.7
    collection_equality_rule(F, rep)
    context_key_rule(F, rep)
    # ---------------- R09.8
    number_order_rule(F, rep)
    # ---------------- R09.9
    mirror_rule(F, rep)
    unary_dispatch_rule(F, rep)
    list_polarity_rule(F, rep)
    from props import c09_fold
    c09_fold.run(F, rep)


def between_form(F, rep, rid, k):
    """normal form of `x between lo and hi` for kind k: ('prim', and(le(lo,x), le(x,hi))) or ('deleg', callee, args)"""
    outs, _ = eval_closure(F, B + "build_between", {"lhe": value(k, sym("x")), "mhe": value(k, sym("lo")), "rhe": value(k, sym("hi"))})
    return outs


def r5_intervals(F, rep, rid, vs):
    from hireval import canon_cmp
    names = [v for v, _ in vs]

    def expect_prim(lc, rc):
        return ("and", canon_cmp(">=" if lc else ">", sym("x"), sym("lo")), canon_cmp("<=" if rc else "<", sym("x"), sym("hi")))

    kinds_between = set()
    kinds_range = set()
    for k in names:
        nf = dict(vs)[k]
        if nf != 1:
            continue
        # ---- between
        try:
            bouts = between_form(F, rep, rid, k)
        except Exception as e:
            rep.violation(rid, "between:%s" % k, "cannot evaluate build_between for kind %s: %s" % (k, e), "feel-evaluator/src/builders.rs build_between")
            continue
        bvals = [v for _, v in bouts]
        b_null = all(v == value("Null") for v in bvals)
        if not b_null:
            kinds_between.add(k)
        # ---- in range, all four flag combinations
        rforms = {}
        for lc in (True, False):
            for rc in (True, False):
                ev = Evaluator(F, inline=local_helpers(F))
                try:
                    outs = ev.run_fn(B + "eval_in_range", [value(k, sym("x")), value("Range", value(k, sym("lo")), mk_bool(lc), value(k, sym("hi")), mk_bool(rc))])
                except Exception as e:
                    outs = [((), ("error", str(e)))]
                rforms[(lc, rc)] = outs
        r_null = all(v == value("Null") for o in rforms.values() for _, v in o)
        if not r_null:
            kinds_range.add(k)
        if b_null and r_null:
            continue
        # classify
        for (lc, rc), outs in rforms.items():
            key = "range:%s:%s%s" % (k, "[" if lc else "(", "]" if rc else ")")
            vals = [v for _, v in outs]
            if len(vals) == 1 and vals[0] == value("Boolean", expect_prim(lc, rc)):
                rep.ok(rid, key, "primitive: %r" % (vals[0],))
                continue
            # delegation: Boolean(payload of call between(x, lo, hi, lc, rc)) on success, null otherwise
            calls = set()
            ok = True
            for conds, v in outs:
                if v == value("Null"):
                    continue
                if v[0] == "v" and v[1] == "Boolean" and v[2] and v[2][0][0] == "payload":
                    inner = v[2][0][2]
                    if inner[0] == "as":
                        inner = inner[2]
                    if inner[0] == "call" and inner[1].endswith("::between") and inner[2] == [sym("x"), sym("lo"), sym("hi"), mk_bool(lc), mk_bool(rc)]:
                        calls.add(inner[1])
                        continue
                ok = False
            if ok and len(calls) == 1:
                rep.ok(rid, key, "delegates to %s(x, lo, hi, %s, %s)" % (list(calls)[0], lc, rc))
            else:
                rep.violation(rid, key, "`x in %slo..hi%s` for kind %s computes %r: neither the %s/%s primitive pair nor a delegation between(x, lo, hi, %s, %s)"
                              % ("[" if lc else "(", "]" if rc else ")", k, vals, ">=" if lc else ">", "<=" if rc else "<", lc, rc),
                              "feel-evaluator/src/builders.rs eval_in_range")
        # between == closed range
        key = "between=closed-range:%s" % k

        def strip_conds(outs):
            return sorted(set(repr(v) for _, v in outs))
        if strip_conds(bouts) == strip_conds(rforms[(True, True)]):
            rep.ok(rid, key, "between and [lo..hi] have the same normal form")
        else:
            rep.violation(rid, key, "for kind %s `x between lo and hi` computes %s but `x in [lo..hi]` computes %s"
                          % (k, strip_conds(bouts), strip_conds(rforms[(True, True)])), "feel-evaluator/src/builders.rs build_between / eval_in_range")
    # unary tests
    kinds_unary = {}
    for fn, rel in (("eval_in_unary_less", "<"), ("eval_in_unary_less_or_equal", "<="), ("eval_in_unary_greater", ">"), ("eval_in_unary_greater_or_equal", ">=")):
        ks = set()
        for k in names:
            if dict(vs)[k] != 1:
                continue
            ev = Evaluator(F, inline=local_helpers(F))
            try:
                outs = ev.run_fn(B + fn, [value(k, sym("l")), value(k, sym("r"))])
            except Exception as e:
                rep.violation(rid, "%s:%s" % (fn, k), "cannot evaluate: %s" % e, "feel-evaluator/src/builders.rs %s" % fn)
                continue
            vals = [v for _, v in outs]
            if all(v == value("Null") for v in vals):
                continue
            ks.add(k)
            key = "%s:%s" % (fn[8:], k)
            want = value("Boolean", canon_cmp(rel, sym("l"), sym("r")))
            if len(vals) == 1 and vals[0] == want:
                rep.ok(rid, key, repr(want))
                continue
            ok = True
            meth = set()
            for v in vals:
                if v == value("Null"):
                    continue
                if v[0] == "v" and v[1] == "Boolean" and v[2] and v[2][0][0] == "payload":
                    inner = v[2][0][2]
                    if inner[0] == "as":
                        inner = inner[2]
                    if inner[0] == "call" and inner[2] == [sym("l"), sym("r")]:
                        meth.add(inner[1].split("::")[-1])
                        continue
                ok = False
            if ok and len(meth) == 1 and TEMPORAL_REL.get(list(meth)[0]) == rel:
                rep.ok(rid, key, "delegates to l.%s(r)" % list(meth)[0])
            else:
                rep.violation(rid, key, "unary test `%s r` applied to l of kind %s computes %r; expected the primitive `l %s r` (or its temporal method)" % (rel, k, vals, rel),
                              "feel-evaluator/src/builders.rs %s" % fn)
        kinds_unary[fn] = ks
    sets = {"between": kinds_between, "in range": kinds_range}
    sets.update({fn[8:]: ks for fn, ks in kinds_unary.items()})
    ref = set(ORDERED7)
    for nm, ks in sets.items():
        if ks == ref:
            rep.ok(rid, "kinds:%s" % nm, sorted(ks))
        else:
            rep.violation(rid, "kinds:%s" % nm, "%s handles kinds %s; the seven ordered kinds are %s (missing %s, extra %s)" % (nm, sorted(ks), sorted(ref), sorted(ref - ks), sorted(ks - ref)),
                          "feel-evaluator/src/builders.rs")


# ======================================================================================================
# R09.6: the temporal comparison helpers over the finite set of orderings
TEMPORAL = "dmntk_feel::temporal::"
ORD_SPEC = {           # helper -> set of orderings of compare(v1, v2) for which it answers true
    "equal": {"Equal"}, "before": {"Less"}, "before_or_equal": {"Less", "Equal"}, "after": {"Greater"}, "after_or_equal": {"Greater", "Equal"},
}


def local_helpers(F):
    """private helper functions of feel-evaluator's builders module (extracted blocks such as `is_in_range`, `eval_in_range_temporal`): folded at their call sites.
    The functions the rules evaluate as entry points and the evaluator builders themselves are not helpers."""
    out = set()
    for n, h in F.hir.items():
        if not n.startswith(B) or "{closure" in n or h.get("kind") != "fn":
            continue
        short = n[len(B):]
        if F.fns.get(n, {}).get("vis") == "pub" or short.startswith("build_") or short in ("eval_ternary_equality", "eval_in_range", "eval_in_list") or short.startswith("eval_in_unary"):
            continue
        out.add(n)
    return out


def temporal_fn(F, simple):
    """the free function of that simple name somewhere below dmntk_feel::temporal (the helpers may be moved between the module's files); None when absent or ambiguous"""
    c = [n for n, h in F.hir.items() if n.startswith(TEMPORAL) and n.split("::")[-1] == simple and "{closure" not in n and "body" in h
         and not re.search(r"::[A-Z]\w*::%s$" % re.escape(simple), n) and not n.startswith("<")]
    if TEMPORAL + simple in c:
        return TEMPORAL + simple
    return c[0] if len(c) == 1 else None


def temporal_order_rule(F, rep):
    """Dates, times and date-times are compared through one function compare(a, b) -> Option<Ordering>; equal / before / after / between only look at its
    answer. The answer ranges over a finite set {Less, Equal, Greater, None}, so each helper is decided exhaustively: the body is evaluated symbolically
    for every combination of orderings (and of the two closed/open flags) and compared with the specification. Nothing is executed."""
    rid = rep.rule("R09.6", "temporal equal/before/after/between answer exactly as the ordering of compare() prescribes, for every combination of orderings and interval flags; the public wrappers pass their operands in order")
    helpers = {n: temporal_fn(F, n) for n in list(ORD_SPEC) + ["between", "compare"]}
    for n, full in helpers.items():
        if full is None:
            rep.missing_anchor(rid, "temporal helper `%s`" % n)
            return
    OUT = ("Less", "Equal", "Greater", None)

    def make_hook(assign):
        def hook(callee, args, st):
            if callee == helpers["compare"]:
                o = assign.get((repr(args[0]), repr(args[1])), "?")
                if o == "?":
                    return ("unknown", "compare on unexpected operands %r" % (args,))
                return value("None") if o is None else value("Some", value(o))
            return None
        return hook
    inl = set(helpers.values()) - {helpers["compare"]}

    def run(fn, args, assign):
        ev = Evaluator(F, call_hook=make_hook(assign), inline=inl, ints=True)
        outs = ev.run_fn(fn, args)
        vals = {repr(v) for _, v in outs}
        return outs[0][1] if len(vals) == 1 else ("multi", sorted(vals))

    def opt_bool(x):
        return value("None") if x is None else value("Some", mk_bool(x))
    n = 0
    for h, trues in ORD_SPEC.items():
        bad = []
        for o in OUT:
            got = run(helpers[h], [sym("a"), sym("b")], {(repr(sym("a")), repr(sym("b"))): o})
            want = opt_bool(None if o is None else (o in trues))
            n += 1
            if got != want:
                bad.append("compare = %s: answers %s, expected %s" % (o, show(got), show(want)))
        if bad:
            rep.violation(rid, "helper:%s" % h, "temporal %s(v1, v2): %s" % (h, "; ".join(bad)), "feel/src/temporal/mod.rs")
        else:
            rep.ok(rid, "helper:%s" % h, "true exactly for %s, None when not comparable" % sorted(trues))
    for lc in (True, False):
        for rc in (True, False):
            bad = []
            for o1 in OUT:
                for o2 in OUT:
                    assign = {(repr(sym("x")), repr(sym("lo"))): o1, (repr(sym("x")), repr(sym("hi"))): o2}
                    got = run(helpers["between"], [sym("x"), sym("lo"), sym("hi"), mk_bool(lc), mk_bool(rc)], assign)
                    if o1 is None or o2 is None:
                        want = opt_bool(None)
                    else:
                        want = opt_bool((o1 == "Greater" or (lc and o1 == "Equal")) and (o2 == "Less" or (rc and o2 == "Equal")))
                    n += 1
                    if got != want:
                        bad.append("x vs lo = %s, x vs hi = %s: answers %s, expected %s" % (o1, o2, show(got), show(want)))
            key = "between:%s%s" % ("[" if lc else "(", "]" if rc else ")")
            if bad:
                rep.violation(rid, key, "temporal between(x, lo, hi, %s, %s) i.e. x in %slo..hi%s: %s" % (lc, rc, "[" if lc else "(", "]" if rc else ")", "; ".join(bad[:4])), "feel/src/temporal/mod.rs")
            else:
                rep.ok(rid, key, "16 ordering combinations agree with %s x, x %s hi" % ("lo <=" if lc else "lo <", "<=" if rc else "<"))
    # the std comparison traits of the temporal types (used by `<`, `<=`, ... and by `=` on these kinds) must agree with compare() as well
    wrappers = {n for n in F.hir if re.match(r"^dmntk_feel::temporal::((?:\w+::)*(?:FeelDate|FeelTime|FeelDateTime))::(equal|before|before_or_equal|after|after_or_equal)$", n)}
    # private methods of the three types (shared delegation helpers such as `relation(&self, other, helper)`, `at_midnight_utc`) are expanded as well
    wrappers |= {n for n, hh in F.hir.items() if re.match(r"^dmntk_feel::temporal::((?:\w+::)*(?:FeelDate|FeelTime|FeelDateTime))::\w+$", n) and hh.get("kind") in ("method", "fn", "assoc_fn")
                 and hh.get("vis") != "pub" and F.fns.get(n, {}).get("vis") != "pub"}

    def make_hook2(o):
        flip = {"Less": "Greater", "Greater": "Less", "Equal": "Equal", None: None}

        def hook(callee, args, st):
            if callee == helpers["compare"] and len(args) == 2:
                ra, rb = repr(args[0]), repr(args[1])
                a_first = "'a'" in ra and "'b'" in rb and "'b'" not in ra and "'a'" not in rb
                b_first = "'b'" in ra and "'a'" in rb and "'a'" not in ra and "'b'" not in rb
                if not (a_first or b_first):
                    return ("unknown", "compare on unexpected operands")
                oo = o if a_first else flip[o]
                return value("None") if oo is None else value("Some", value(oo))
            if callee and len(args) == 2 and (callee.endswith("::FeelDate as core::cmp::PartialEq>::eq") or callee == "core::cmp::impls::<impl core::cmp::PartialEq<&B> for &A>::eq") \
                    and {repr(args[0]), repr(args[1])} == {repr(sym("a")), repr(sym("b"))}:
                return mk_bool(o == "Equal")      # field-wise equality of two dates (`self == other`) coincides with compare() == Equal
            return None
        return hook
    by_components = component_order_types(F, rep, rid)
    # dates are one of the ordered kinds of the statement ("exactly one of a < b, a = b, a > b"): the order of two valid dates must not be partial
    for name, h in sorted(F.hir.items()):
        if re.match(r"^<dmntk_feel::temporal::((?:\w+::)*FeelDate) as core::cmp::PartialOrd>::partial_cmp$", name) and "FeelDate" not in by_components:
            fl = hirflow.Flow(h)
            nones = [line for d, cond, line in fl.returns if d is not None and d[0] == "ctor" and str(d[1]).endswith("Option::None")]
            if nones:
                rep.violation(rid, "total:FeelDate::partial_cmp", "FeelDate::partial_cmp can answer None (line %s) and does not order dates by their components: dates are valid with up to nine digits "
                              "of the year, the calendar library the comparison goes through ends at the years -262144 / 262143, so for later dates none of <, =, > holds "
                              "(date(\"262143-12-31\") < date(\"262144-01-01\") is false)" % nones[0], "%s:%s" % (h["file"], nones[0]))
            else:
                rep.ok(rid, "total:FeelDate::partial_cmp", "never answers None")
    for name, h in sorted(F.hir.items()):
        m = re.match(r"^<dmntk_feel::temporal::((?:\w+::)*(?:FeelDate|FeelTime|FeelDateTime)) as core::cmp::(PartialOrd|PartialEq)>::(partial_cmp|eq)$", name)
        if not m or (m.group(3) == "eq" and m.group(1).endswith("FeelDate")):
            continue
        if m.group(1).split("::")[-1] in by_components:
            n += 4
            continue
        bad = []
        for o in OUT:
            ev = Evaluator(F, call_hook=make_hook2(o), inline=inl | wrappers, ints=True)
            try:
                outs = ev.run_fn(name, [sym("a"), sym("b")])
                vals = {repr(v) for _, v in outs}
                got = outs[0][1] if len(vals) == 1 else ("multi", sorted(vals))
            except Exception as e:
                got = ("error", str(e))
            if m.group(3) == "eq":
                want = mk_bool(o == "Equal")
            else:
                want = value("None") if o is None else value("Some", value(o))
            n += 1
            if got != want:
                bad.append("compare = %s: answers %s, expected %s" % (o, str(got)[:100], str(want)[:60]))
        key = "trait:%s::%s" % (m.group(1).split("::")[-1], m.group(3))
        if bad:
            rep.violation(rid, key, "%s does not follow the temporal comparison compare(): %s" % (name, "; ".join(bad[:3])), "%s:%s" % (h["file"], h["line"]))
        else:
            rep.ok(rid, key, "agrees with compare() for all four outcomes")
    # the public wrappers (FeelDate / FeelTime / FeelDateTime) delegate to the helper of the same name with (self, other[, ...]) in order
    nw = 0
    for name, h in sorted(F.hir.items()):
        m = re.match(r"^dmntk_feel::temporal::((?:\w+::)*(?:FeelDate|FeelTime|FeelDateTime))::(equal|before|before_or_equal|after|after_or_equal|between)$", name)
        if not m:
            continue
        nw += 1
        meth = m.group(2)
        owner = name.rsplit("::", 1)[0]
        if m.group(1).split("::")[-1] in by_components:
            continue          # judged by component_order_types (folded on concrete dates)

        def private_method(callee, owner=owner, name=name):
            """private methods of the same type are expanded at their call sites (a shared `relation(&self, other, helper)` that applies the helper it is given)"""
            hh = F.hir.get(callee)
            if hh is None or callee == name or not callee.startswith(owner + "::") or F.fns.get(callee, {}).get("vis") == "pub" or hh.get("vis") == "pub":
                return None
            return hh
        fl = hirflow.Flow(h, inline=private_method)
        calls = [(c, a) for c, a, _, _, _ in fl.calls if c in helpers.values()]
        key = "wrapper:%s::%s" % (m.group(1).split("::")[-1], meth)
        if not calls:
            rep.undecided(rid, key, "%s: no call of a temporal comparison helper was found (the delegation has a form the rule does not follow)" % name)
            continue
        if len(calls) != 1 or calls[0][0] != helpers[meth]:
            rep.violation(rid, key, "%s does not delegate to the temporal helper `%s` exactly once (calls: %s)" % (name, meth, [c for c, _ in calls]), "%s:%s" % (h["file"], h["line"]))
            continue
        order = []
        for a in calls[0][1]:
            idx = sorted(set(int(x) for x in re.findall(r"\('arg', (\d+)\)", repr(a))))
            order.append(idx)
        want = [[i] for i in range(len(calls[0][1]))]
        if order == want:
            rep.ok(rid, key, "%s(%s)" % (meth, ", ".join("arg%d" % i for i in range(len(want)))))
        else:
            rep.violation(rid, key, "%s passes its operands to %s as %s, expected %s (self, other%s in order)" % (name, meth, order, want, ", flags" if meth == "between" else ""),
                          "%s:%s" % (h["file"], h["line"]))
    rep.floor(rid, "ordering combinations evaluated", n, 84)
    rep.floor(rid, "temporal comparison wrappers", nw, 18)


def show(v):
    if v == value("None"):
        return "None"
    if isinstance(v, tuple) and v and v[0] == "v" and v[1] == "Some" and v[2] and v[2][0][0] == "bool":
        return "Some(%s)" % str(v[2][0][1]).lower()
    return str(v)[:120]


def collection_equality_rule(F, rep):
    """R09.7: `a = b` on lists and contexts is decided element by element from the left operand; it is symmetric only if the two sizes are compared first
    (otherwise {a:1} = {a:1,b:2} is true and its mirror false). Every path of eval_ternary_equality that answers Some(true) for two lists / two contexts
    must pass a test that the sizes of the two operands are equal."""
    rid = rep.rule("R09.7", "equality of two lists / two contexts answers true only on a path that compared the sizes of both operands")
    name = B + "eval_ternary_equality"
    h = F.hir.get(name)
    if h is None:
        rep.missing_anchor(rid, name)
        return
    # private helpers of the same module (the list / context branches extracted into functions) are expanded at their call sites
    fl = hirflow.Flow(h, inline=lambda callee: F.hir.get(callee) if (callee or "").startswith(B) and callee != name and "{closure" not in callee else None)
    seen = set()
    for d, cond, line in list(fl.returns) + [(d2, c2, l2) for d2, c2, l2, _ in fl.helper_returns]:
        if d != ("ctor", "core::option::Option::Some", [("lit", True)]):
            continue
        kinds = [c for cd in cond for c in cd[1] if isinstance(c, str) and c.startswith("dmntk_feel::values::Value::") and cd[2] is True]
        kind = None
        for k in ("List", "Context"):
            if sum(1 for c in kinds if c.endswith("::" + k)) >= 2:
                kind = k
        if kind is None:
            continue
        seen.add(kind)
        ok = False
        for cd in cond:
            t = cd[0]
            if isinstance(t, tuple) and t and t[0] == "bin" and t[1] in ("==", "!=") and cd[2] == (t[1] == "=="):
                a, b = repr(t[2]), repr(t[3])
                if "len" in a and "len" in b and (("('arg', 0)" in a and "('arg', 1)" in b) or ("('arg', 1)" in a and "('arg', 0)" in b)):
                    ok = True
        key = "size-test:%s" % kind
        if ok:
            rep.ok(rid, key, "Some(true) at line %s is reached only after len(lhs) == len(rhs)" % line)
        else:
            rep.violation(rid, key, "eval_ternary_equality answers Some(true) for two %ss at line %s on a path that never compared their sizes: a %s that is a strict part of the other "
                          "compares equal in one direction only (a = b is not b = a)" % (kind.lower(), line, kind.lower()), "%s:%s" % (h["file"], line))
    for k in ("List", "Context"):
        if k not in seen:
            rep.violation(rid, "size-test:%s" % k, "no path answering Some(true) for two %ss was found in eval_ternary_equality (shape not recognised)" % k.lower(), "%s:%s" % (h["file"], h["line"]))


def context_key_rule(F, rep):
    """R09.10: two contexts are equal when they have the same keys with equal values: the value taken from the right operand must be the one stored under the
    left entry's *key* (a lookup with that key, or a walk of both entry lists that also compares the keys). Pairing the values by position only makes
    {a:1,b:2} = {a:1,c:2} true."""
    from facts import find_hir, strip
    from props import c10
    rid = rep.rule("R09.10", "equality of two contexts relates the entries by key: the right operand's value is looked up with the left entry's key (or the keys of a pairwise walk are compared)")
    name = B + "eval_ternary_equality"
    hs = [F.hir.get(name)] + [h for n, h in F.hir.items() if n.startswith(B) and n != name and "{closure" not in n and
                              find_hir(h["body"], lambda x: x.get("k") == "Call" and x.get("callee") == name) and "context" in n.split("::")[-1].lower()]
    if hs[0] is None:
        rep.missing_anchor(rid, name)
        return
    found = 0
    seen_loops = set()
    for h in hs:
        al = c10.aliases_of(h)
        for m, _ in find_hir(h["body"], lambda x: x.get("k") in ("Match", "If")):
            for pat, body, scrut in c10.pattern_sites(m):
                if not body or c10.payload_binding(pat, "dmntk_feel::values::Value::Context") is None:
                    continue
                inner = [pb for x, _ in find_hir(body, lambda x: x.get("k") in ("Match", "If")) for pb in c10.pattern_sites(x) if pb[1] and c10.payload_binding(pb[0], "dmntk_feel::values::Value::Context")]
                for ipat, ibody, _ in inner:
                    loops = [lp for lp, _ in find_hir(ibody, lambda x: x.get("k") == "Match" and x.get("src") == "ForLoopDesugar") if
                             find_hir(lp, lambda y: y.get("k") == "Call" and y.get("callee") == name)]
                    chains = [mc for mc, _ in find_hir(ibody, lambda x: x.get("k") == "MethodCall" and x.get("method") in ("all", "try_fold", "map", "find_map", "any")) if
                              any(find_hir(F.hir.get(c.get("name"), {"body": {}})["body"], lambda y: y.get("k") == "Call" and y.get("callee") == name)
                                  for c, _ in find_hir(mc.get("args", []), lambda y: y.get("k") == "Closure"))]
                    for lp in loops + chains:
                        if id(lp) in seen_loops:
                            continue
                        seen_loops.add(id(lp))
                        found += 1
                        key = "by-key:%s:%d" % (h["name"].split("::")[-1] if "name" in h else "eval_ternary_equality", found)
                        region = [lp] + [F.hir[c.get("name")]["body"] for c, _ in find_hir(lp, lambda y: y.get("k") == "Closure") if c.get("name") in F.hir]
                        lookups = [x for r_ in region for x, _ in find_hir(r_, lambda x: x.get("k") == "MethodCall" and x.get("method") in ("get_entry", "get", "contains_key", "get_key_value", "remove", "contains_entry"))]
                        keycmp = [x for r_ in region for x, _ in find_hir(r_, lambda x: (x.get("k") == "Binary" and x.get("op") in ("==", "!=") and "key" in (str(strip(x["a"]).get("name", "")) + str(strip(x["b"]).get("name", ""))).lower())
                                                                           or (x.get("k") == "MethodCall" and x.get("method") in ("eq", "ne", "cmp") and "Name" in str(x.get("callee", ""))))]
                        it = strip(lp["e"]) if lp.get("src") == "ForLoopDesugar" else lp
                        it = strip(it["args"][0]) if it.get("k") == "Call" and it.get("args") else it
                        names, root = c10.chain_of(it, al)
                        positional = "zip" in names
                        if lookups or keycmp:
                            rep.ok(rid, key, "entries related by %s" % ("a lookup with the left key" if lookups else "a comparison of the keys"))
                        elif positional:
                            rep.violation(rid, key, "eval_ternary_equality compares the values of two contexts pairwise by position (zip) and never looks at the keys: contexts with different "
                                          "keys and equal values compare equal", "%s:%s" % (h["file"], lp.get("l", h["line"])))
                        else:
                            rep.undecided(rid, key, "no lookup by key and no key comparison recognised in the entry loop of the context arm")
    if not found:
        rep.undecided(rid, "by-key", "no entry loop found in the Context / Context arm of eval_ternary_equality")


def number_order_rule(F, rep):
    """R09.8: exactly one of a < b, a = b, a > b on numbers requires that `=` and the ordering operators consult the same numeric comparison:
    both PartialEq::eq and PartialOrd::partial_cmp of FeelNumber must be hand-written over decQuadCompare(self, rhs) (a derived, representation-wise
    equality makes 1.0 and 1.00 neither less, equal nor greater)."""
    from props import c02
    rid = rep.rule("R09.8", "number equality and number ordering use the same numeric comparison (decQuadCompare on both operands in order)")
    W = c02.WrapperSem(F, c02.rust_const_values(F))
    for op in ("<%s as core::cmp::PartialEq>::eq", "<%s as core::cmp::PartialOrd>::partial_cmp"):
        n = op % c02.NUM
        cands = [k for k in F.hir if k == n or re.sub(r"<dmntk_feel_number::number::FeelNumber>", "", k) == n]
        key = "number:%s" % op.split("::")[-1]
        if not cands:
            rep.violation(rid, key, "%s is not implemented by hand (derived or missing): equality would compare representations, not values" % n, "feel-number/src/number.rs")
            continue
        h = F.hir[cands[0]]
        vs = c02.method_value(F, W, h)
        ps = [p for p in c02.prims_in(vs) if p[1] == "decQuadCompare"]
        got = [sorted(c02.leaf_names(x)) for x in ps[0][2]] if ps else None
        # an answer computed some other way (a native-integer "fast path", a textual comparison) makes `<`, `=`, `>` disagree for the values it mishandles
        other = sorted({str(v) for v in vs if v[0] == "expr" or (v[0] == "prim" and v[1] != "decQuadCompare")})
        if got == [["self"], ["rhs"]] and other:
            rep.violation(rid, key, "%s also answers from a computation that is not decQuadCompare(self, rhs): %s" % (cands[0], other[:3]), "%s:%s" % (h["file"], h["line"]))
        elif got == [["self"], ["rhs"]]:
            rep.ok(rid, key, "decQuadCompare(self, rhs)")
        else:
            rep.violation(rid, key, "%s does not compare through decQuadCompare(self, rhs) (found %s)" % (cands[0], got), "%s:%s" % (h["file"], h["line"]))


def mirror_rule(F, rep):
    """R09.9: a = b and b = a (a < b and b > a) agree on date-times only if compare(me, other) derives everything it needs from `other` exactly the way it
    derives it from `me`. The intermediate values of compare() (and of its twin subtract()) are put into a canonical form over the two parameters; a value
    that has the shape of one of the single-operand computations but mixes both operands is a crossed copy (`get_zone_offset(zone_of_other, date_of_me)`)."""
    rid = rep.rule("R09.9", "temporal compare()/subtract() derive the same intermediate values from both operands: no intermediate value of single-operand shape mixes `me` and `other`")
    import copy
    n = 0
    for fn in ("compare", "subtract"):
        h = F.hir.get(temporal_fn(F, fn) or "")
        if h is None:
            rep.missing_anchor(rid, "temporal function `%s`" % fn)
            continue
        params = [p.get("name") for p in h.get("params", [])]
        if len(params) != 2:
            continue
        lets = {}
        order = []

        def canon(e, bound):
            """name-independent canonical form; parameters -> P0/P1, let-bound locals inlined, pattern-bound locals numbered by first appearance"""
            if isinstance(e, list):
                return [canon(x, bound) for x in e]
            if not isinstance(e, dict):
                return e
            if e.get("k") == "Path" and e.get("res") == "local":
                nm = e.get("name")
                if nm in params:
                    return "P%d" % params.index(nm)
                if nm in lets:
                    return lets[nm]
                if nm not in bound:
                    bound[nm] = "b%d" % len(bound)
                return bound[nm]
            if e.get("k") == "Bind":
                nm = e.get("name")
                if nm not in bound:
                    bound[nm] = "b%d" % len(bound)
                return {"k": "Bind", "n": bound[nm], "sub": canon(e.get("sub"), bound) if "sub" in e else None}
            out = {}
            for k2, v in e.items():
                if k2 in ("l", "t", "adj_t", "text", "m", "self_ty", "self_ty_s", "name") and not (k2 == "name" and e.get("k") == "Field"):
                    continue
                out[k2] = canon(v, bound)
            return out
        roots = []
        for st in h["body"]["b"].get("stmts", []):
            if st.get("k") == "LetStmt" and "e" in st and st["p"].get("k") == "Bind":
                c = canon(st["e"], {})
                lets[st["p"]["name"]] = c
                order.append((st["p"]["name"], c, st.get("l")))
            elif st.get("k") == "LetStmt" and "e" in st:
                roots.append((canon(st["e"], {}), st.get("l")))
            else:
                roots.append((canon(st, {}), st.get("l")))
        if h["body"]["b"].get("e") is not None:
            roots.append((canon(h["body"]["b"]["e"], {}), h["body"]["b"]["e"].get("l")))

        def mentions(c):
            txt = json.dumps(c, sort_keys=True)
            return ('"P0"' in txt, '"P1"' in txt)

        def maximal(c, line, out):
            """maximal sub-expressions that mention exactly one of the two operands (helper calls on one operand, per-operand tuples ...)"""
            if isinstance(c, list):
                for x in c:
                    maximal(x, line, out)
                return
            if not isinstance(c, dict):
                return
            m0, m1 = mentions(c)
            if m0 and m1:
                for v in c.values():
                    maximal(v, line, out)
            elif (m0 or m1) and "k" in c and c.get("k") not in ("Path",):
                txt = json.dumps(c, sort_keys=True)
                ren = {}
                for b_ in re.findall(r'"b\d+"', txt):
                    ren.setdefault(b_, '"v%d"' % len(ren))
                txt = re.sub(r'"b\d+"', lambda m_: ren[m_.group(0)], txt)     # pattern-bound locals numbered within the expression
                out[0 if m0 else 1].append(("expr", txt, line))
        pure = {0: [], 1: []}
        mixed = []
        for nm, c, line in order:
            txt = json.dumps(c, sort_keys=True)
            has0, has1 = '"P0"' in txt, '"P1"' in txt
            if has0 and has1:
                mixed.append((nm, txt, line))
                maximal(c, line, pure)
            elif has0:
                pure[0].append((nm, txt, line))
            elif has1:
                pure[1].append((nm, txt, line))
        for c, line in roots:
            maximal(c, line, pure)
        # a let-bound per-operand value that is inlined into a later one is part of that later value; compare the distinct computations
        for k_ in (0, 1):
            seen_t = set()
            uniq = []
            for nm, t, line in pure[k_]:
                if t not in seen_t:
                    seen_t.add(t)
                    uniq.append((nm, t, line))
            pure[k_] = uniq
        erase = lambda t: t.replace('"P0"', '"P"').replace('"P1"', '"P"')
        shapes = {erase(t) for _, t, _ in pure[0] + pure[1]}
        key = "mirror:%s" % fn
        n += len(pure[0]) + len(pure[1])
        bad = [(nm, line) for nm, t, line in mixed if erase(t) in shapes]
        swapped = sorted(t.replace('"P0"', '"P1"') for _, t, _ in pure[0])
        if bad:
            rep.violation(rid, key, "in %s the value `%s` (line %s) is computed like the per-operand values but from both operands at once: a crossed copy, the result depends on the operand order"
                          % (fn, bad[0][0], bad[0][1]), "%s:%s" % (h["file"], bad[0][1]))
        elif swapped != sorted(t for _, t, _ in pure[1]):
            rep.violation(rid, key, "%s derives %d value(s) from its first operand and %d from its second, and they are not the same computations with the operands exchanged"
                          % (fn, len(pure[0]), len(pure[1])), "%s:%s" % (h["file"], h["line"]))
        elif not pure[0]:
            rep.undecided(rid, key, "%s computes nothing from one operand alone (everything is delegated with both operands)" % fn)
        else:
            rep.ok(rid, key, "%d intermediate values per operand, identical up to exchanging the operands" % len(pure[0]))
    rep.floor(rid, "per-operand intermediate values in compare/subtract", n, 2)


# ======================================================================================================
# R09.11: a unary-test item is tested with the comparison of its own operator
UNARY_VARIANTS = {"UnaryLess": "<", "UnaryLessOrEqual": "<=", "UnaryGreater": ">", "UnaryGreaterOrEqual": ">="}


def unary_dispatch_rule(F, rep):
    """`x in (<= c)`, `x in not(<= c)`, decision-table input entries: wherever the evaluator matches on an item of kind Value::UnaryLess / UnaryLessOrEqual / UnaryGreater /
    UnaryGreaterOrEqual, the arm of a variant applies the comparison function of *that* operator.  The operator of a comparison function is read off its body (the one
    order operator all its kind arms apply - the functions R09.5 judges), the operator of a variant is its meaning in the FEEL grammar (unary tests `< e`, `<= e`, ...).
    An arm of `<=` that calls the `<` function is positive evidence (copy-paste slip; the boundary value is then tested wrongly)."""
    rid = rep.rule("R09.11", "every arm for a unary-test item (< <= > >=) applies the comparison function of its own operator (positive and negated lists, wherever such items are matched)")
    fns = {n: h for n, h in F.hir.items() if n.startswith("dmntk_feel_evaluator::") and h.get("kind") in ("fn", "method") and "{closure" not in n}
    op_of = {}
    for n, h in fns.items():
        if len(h.get("params", [])) != 2:
            continue
        ops = {x["op"] for x, _ in find_hir(h["body"], lambda x: x.get("k") == "Binary" and x.get("op") in ("<", "<=", ">", ">="))}
        if len(ops) == 1 and find_hir(h["body"], lambda x: x.get("k") == "Match"):
            op_of[n] = next(iter(ops))
    rep.floor(rid, "comparison functions with one order operator", len(op_of), 4)
    arms = 0
    for n, h in sorted(fns.items()):
        if n in op_of:
            continue
        for m, _ in find_hir(h["body"], lambda x: x.get("k") == "Match" and x.get("src") == "Normal"):
            for arm in m["arms"]:
                vs = {c.split("::")[-1] for c in pat_paths(arm["p"]) if c.startswith("dmntk_feel::values::Value::Unary")}
                vs &= set(UNARY_VARIANTS)
                if len(vs) != 1:
                    continue
                v = next(iter(vs))
                called = [c.get("callee") for c, _ in find_hir(arm["b"], lambda x: x.get("k") in ("Call", "MethodCall") and x.get("callee") in op_of)]
                if not called:
                    continue
                arms += 1
                key = "%s:%s" % (n.split("::")[-1], v)
                wrong = [c for c in called if op_of[c] != UNARY_VARIANTS[v]]
                if wrong:
                    rep.violation(rid, key, "in %s the arm for Value::%s (unary test `%s e`) applies %s, which compares with `%s`: the boundary value is tested with the wrong operator"
                                  % (n.split("::")[-1], v, UNARY_VARIANTS[v], wrong[0].split("::")[-1], op_of[wrong[0]]), "%s:%s" % (h["file"], arm.get("l")))
                else:
                    rep.ok(rid, key, "applies %s (`%s`)" % (called[0].split("::")[-1], UNARY_VARIANTS[v]))
    rep.floor(rid, "arms for unary-test items", arms, 8)


# ======================================================================================================
# R09.12: a list of tests is a disjunction, a negated list the negation of that disjunction
LIST_KINDS = {"ExpressionList": True, "NegatedCommaList": False}


def list_polarity_rule(F, rep):
    """`x in (t1, t2, ...)` holds iff some test holds, `x in not(t1, t2, ...)` iff none does (decision-table input entries `a, b` and `not(a, b)`).  The functions the `in`
    evaluator applies to the items of Value::ExpressionList / Value::NegatedCommaList are folded on item lists of length 0..3 with every assignment of true / false to the
    per-item tests (the item tests themselves are R09.5 / R09.11; here they answer the assigned truth value): the result must be the boolean any(tests) respectively
    not any(tests).  Only a fold that ends in a definite, different boolean is a violation."""
    import itertools
    from hireval import Evaluator, TooManyPaths, sym
    rid = rep.rule("R09.12", "the function applied to the items of a test list answers any(item tests), the one applied to a negated list not any(item tests): folded on lists of 0..3 items under every truth assignment")
    fns = {n: h for n, h in F.hir.items() if n.startswith("dmntk_feel_evaluator::") and h.get("kind") in ("fn", "method")}
    found = {}
    for n, h in sorted(fns.items()):
        for m, _ in find_hir(h["body"], lambda x: x.get("k") == "Match" and x.get("src") == "Normal"):
            for arm in m["arms"]:
                vs = {c.split("::")[-1] for c in pat_paths(arm["p"]) if c.startswith("dmntk_feel::values::Value::")}
                if len(vs) != 1 or next(iter(vs)) not in LIST_KINDS:
                    continue
                for c, _ in find_hir(arm["b"], lambda x: x.get("k") == "Call" and x.get("callee") in fns and len(x.get("args", [])) == 2 and "{closure" not in x["callee"]):
                    hh = fns[c["callee"]]
                    if find_hir(hh["body"], lambda x: x.get("k") == "Match" and x.get("src") == "ForLoopDesugar") or \
                            find_hir(hh["body"], lambda x: x.get("k") == "MethodCall" and x.get("method") in ("any", "all", "find", "position", "fold", "try_fold")):
                        found.setdefault((c["callee"], LIST_KINDS[next(iter(vs))]), "%s:%s" % (hh["file"], hh["line"]))
    n = 0
    for (fn, positive), where in sorted(found.items()):
        short = fn.split("::")[-1]
        key = "list:%s" % short
        n += 1
        bad, unknown, cells = [], [], 0
        for item_kind in ("UnaryLess", "Number"):
            for k in range(0, 4):
                for asg in itertools.product((False, True), repeat=k):
                    cnt = [0]

                    def hook(c, a, st, asg=asg, cnt=cnt):
                        if c in fns and c != fn and len(a) == 2 and "{closure" not in c:
                            i = cnt[0]
                            cnt[0] += 1
                            return ("v", "Boolean", [("lit", asg[i])]) if i < len(asg) else None
                        return None
                    items = ("array", [("v", item_kind, [sym("c%d" % i)]) for i in range(k)])
                    ev = Evaluator(F, call_hook=hook, ints=True, inline={x for x in F.hir if x.startswith("dmntk_feel::values::Value::is_")})
                    ev.vecs = True
                    try:
                        outs = ev.run_fn(fn, [sym("left"), items])
                    except (TooManyPaths, ValueError, KeyError, TypeError, IndexError, RecursionError) as x:
                        unknown.append("%s %s: %s" % (item_kind, list(asg), x))
                        continue
                    want = any(asg) if positive else not any(asg)
                    for conds, v in outs:
                        cells += 1
                        b = v[2][0] if v[0] == "v" and v[1] == "Boolean" and len(v[2]) == 1 else None
                        if cnt[0] > len(asg) or b is None or b[0] not in ("bool", "lit") or not isinstance(b[1], bool) or conds:
                            unknown.append("%s items, tests %s: %s" % (item_kind, list(asg), str(v)[:60]))
                        elif b[1] != want:
                            bad.append("tests %s -> %s" % (list(asg), str(b[1]).lower()))
        what = "any(tests)" if positive else "not any(tests)"
        if bad:
            rep.violation(rid, key, "%s, applied to the items of a %s list, does not answer %s: %s" % (short, "test" if positive else "negated test", what, "; ".join(sorted(set(bad))[:4])), where)
        elif unknown:
            rep.undecided(rid, key, "%s does not fold to a boolean on every cell: %s" % (short, "; ".join(unknown[:2])))
        else:
            rep.ok(rid, key, "%d folds, every one answers %s" % (cells, what))
    rep.floor(rid, "functions over test lists (positive, negated)", n, 2)


DATES = [(2020, 1, 1), (2020, 1, 2), (2020, 2, 1), (2021, 1, 1), (262143, 12, 31), (262144, 1, 1), (999999999, 12, 31), (-5, 12, 31), (-262145, 1, 1)]


def component_order_types(F, rep, rid):
    """A temporal type may order its values by their components instead of through compare() (dates: year, month, day - the only order that also covers the years beyond the
    calendar library's range).  Such a type is judged by folding: partial_cmp on every ordered pair of a table of concrete dates must answer Some(the lexicographic order of the
    components), and equal / before / before_or_equal / after / after_or_equal / between must answer Some(the corresponding relation of that order) - in this operand order.
    Returns the simple names of the types judged this way."""
    out = set()
    for ty in ("FeelDate",):
        pc = [n for n in F.hir if re.match(r"^<dmntk_feel::temporal::((?:\w+::)*%s) as core::cmp::PartialOrd>::partial_cmp$" % ty, n)]
        if len(pc) != 1:
            continue
        pc = pc[0]

        def enc(d):
            return ("tuple", [("lit", d[0]), ("lit", d[1]), ("lit", d[2])])

        def sign(a, b):
            return "Less" if a < b else "Greater" if a > b else "Equal"
        def opaque_text(callee, method, recv, st):
            """the text of a date is not the date: `to_string` is not folded through (text order is not the order of the components)"""
            return ("unknown", "text of a value") if method in ("to_string", "to_owned", "into") and recv[0] == "tuple" else None
        ev0 = Evaluator(F, ints=True)
        ev0.transparent_hook = opaque_text
        ok_pc = True
        for a in DATES:
            for b in DATES:
                try:
                    outs = ev0.run_fn(pc, [enc(a), enc(b)])
                except Exception:
                    outs = []
                vals = {repr(v) for _, v in outs}
                if vals != {repr(value("Some", value(sign(a, b))))}:
                    ok_pc = False
                    break
            if not ok_pc:
                break
        if not ok_pc:
            continue          # not of this form (or wrong): left to the compare()-based judgement, which reports it
        out.add(ty)
        rep.ok(rid, "trait:%s::partial_cmp" % ty, "orders by components: Some(lexicographic order of year, month, day) on %d pairs of dates, also beyond the calendar library's range" % (len(DATES) ** 2))
        rel = {"lt": lambda a, b: a < b, "le": lambda a, b: a <= b, "gt": lambda a, b: a > b, "ge": lambda a, b: a >= b, "eq": lambda a, b: a == b, "ne": lambda a, b: a != b}

        def hook(callee, args, st):
            c = callee or ""
            mm = re.search(r"(?:PartialOrd(?:<.*>)?>?|PartialEq(?:<.*>)?>?)::(lt|le|gt|ge|eq|ne)$", c)
            if mm and len(args) == 2 and all(x[0] == "tuple" and len(x[1]) == 3 and all(q[0] == "lit" for q in x[1]) for x in args):
                a, b = tuple(q[1] for q in args[0][1]), tuple(q[1] for q in args[1][1])
                return mk_bool(rel[mm.group(1)](a, b))          # the operators of the type are its partial_cmp (judged above) and its field-wise eq
            return None
        spec = {"equal": rel["eq"], "before": rel["lt"], "before_or_equal": rel["le"], "after": rel["gt"], "after_or_equal": rel["ge"]}
        for meth, f in sorted(spec.items()):
            fn = [n for n in F.hir if re.match(r"^dmntk_feel::temporal::((?:\w+::)*%s)::%s$" % (ty, meth), n)]
            key = "wrapper:%s::%s" % (ty, meth)
            if len(fn) != 1:
                rep.missing_anchor(rid, "%s::%s" % (ty, meth))
                continue
            bad = []
            for a in DATES[:6]:
                for b in DATES[:6]:
                    ev = Evaluator(F, call_hook=hook, ints=True)
                    ev.transparent_hook = opaque_text
                    try:
                        outs = ev.run_fn(fn[0], [enc(a), enc(b)])
                    except Exception as e:
                        outs = [((), ("error", str(e)))]
                    vals = {repr(v) for _, v in outs}
                    if vals != {repr(value("Some", mk_bool(f(a, b))))}:
                        bad.append("%s.%s(%s): %s" % (a, meth, b, sorted(vals)[0][:60]))
            h = F.hir[fn[0]]
            if bad:
                rep.violation(rid, key, "%s::%s does not answer Some(the relation of the component order): %s" % (ty, meth, "; ".join(bad[:2])), "%s:%s" % (h["file"], h["line"]))
            else:
                rep.ok(rid, key, "Some(%s of the component order) on 36 pairs" % meth)
        fn = [n for n in F.hir if re.match(r"^dmntk_feel::temporal::((?:\w+::)*%s)::between$" % ty, n)]
        if len(fn) == 1:
            bad = []
            for lc in (True, False):
                for rc in (True, False):
                    for x in DATES[:4]:
                        for lo in DATES[:4]:
                            for hi in DATES[:4]:
                                ev = Evaluator(F, call_hook=hook, ints=True)
                                ev.transparent_hook = opaque_text
                                try:
                                    outs = ev.run_fn(fn[0], [enc(x), enc(lo), enc(hi), mk_bool(lc), mk_bool(rc)])
                                except Exception as e:
                                    outs = [((), ("error", str(e)))]
                                want = (lo <= x if lc else lo < x) and (x <= hi if rc else x < hi)
                                vals = {repr(v) for _, v in outs}
                                if vals != {repr(value("Some", mk_bool(want)))}:
                                    bad.append("%s between %s%s..%s%s: %s" % (x, "[" if lc else "(", lo, hi, "]" if rc else ")", sorted(vals)[0][:50]))
            h = F.hir[fn[0]]
            if bad:
                rep.violation(rid, "wrapper:%s::between" % ty, "%s::between does not answer Some(lo <(=) x and x <(=) hi): %s" % (ty, "; ".join(bad[:2])), "%s:%s" % (h["file"], h["line"]))
            else:
                rep.ok(rid, "wrapper:%s::between" % ty, "Some(lo <(=) x and x <(=) hi) on 256 combinations of dates and interval flags")
    return out
