"""C03, R03.10: the hit-policy evaluators, folded on small evaluated decision tables, return what the statement prescribes.

An evaluated decision table (which rules match, their output values, the priority list of output values, the default outputs, the component names) is given as a record
of concrete / symbolic values; every `evaluate_hit_policy_*` method of EvaluatedDecisionTable is evaluated by the folding engine on a set of such tables (0..3 matching
rules, equal and different outputs, with and without a default output, one and two output components).  The expected result is computed here from the statement:
UNIQUE / ANY / FIRST / PRIORITY one rule's output (null for UNIQUE with several matches and ANY with differing outputs), RULE ORDER / COLLECT the outputs in rule order,
OUTPUT ORDER in priority order, COUNT the number of matching rules, SUM / MIN / MAX the aggregate of the outputs (the aggregate itself is the built-in's business: the
call is kept symbolic), the default output when no rule matches, contexts keyed by the component names for several output clauses."""
from hireval import Evaluator, TooManyPaths, sym

EDT = "dmntk_model_evaluator::builders::decision_table::EvaluatedDecisionTable::"
CTX = "dmntk_feel::context::FeelContext"


def N(x):
    return ("v", "Number", [sym(x)])


def name(x):
    return ("lit", x)


def table(rules, priority=(), default=None, components=("out",)):
    """rules: [(matches, [outputs])]"""
    return ("rec", {
        "component_names": ("array", [name(c) for c in components]),
        "output_values": ("array", [N(p) for p in priority]),
        "default_output_values": ("array", [N(d) for d in (default or [])]),
        "evaluated_rules": ("array", [("rec", {"matches": ("bool", m), "output_entry_values": ("array", [N(o) for o in outs])}) for m, outs in rules]),
    })


def dec(v):
    if not isinstance(v, tuple):
        return "?"
    if v[0] == "v" and v[1] == "Null":
        return None
    if v[0] == "v" and v[1] == "Number" and len(v[2]) == 1 and v[2][0][0] == "sym":
        return v[2][0][1]
    if v[0] == "v" and v[1] == "Number" and len(v[2]) == 1 and v[2][0][0] == "lit":
        return v[2][0][1]
    if v[0] == "v" and v[1] == "List" and len(v[2]) == 1 and v[2][0][0] in ("array", "iterv") and len(v[2][0]) > 1:
        items = [dec(i) for i in v[2][0][1]]
        return "?" if "?" in [i for i in items if isinstance(i, str)] and any(i == "?" for i in items) else items
    if v[0] == "v" and v[1] == "Context" and len(v[2]) == 1 and v[2][0][0] == "array":
        out = {}
        for kv in v[2][0][1]:
            if kv[0] != "tuple" or kv[1][0][0] != "lit":
                return "?"
            out[kv[1][0][1]] = dec(kv[1][1])
        return out
    if v[0] == "agg":
        return (v[1], tuple(dec(i) for i in v[2]))
    return "?"


def expected(policy, rules, priority, default, components):
    hits = [outs for m, outs in rules if m]

    def res(outs):
        return outs[0] if len(components) == 1 else dict(zip(components, outs))
    if policy in ("collect_sum", "collect_min", "collect_max") and len(components) > 1:
        return None          # an aggregate over several output clauses is not defined: null, whether or not a rule matches
    if not hits:
        if default and len(components) > 1:
            # several output clauses: the default output is the context of the clauses' default entries (when only some clauses define one the statement does not settle the result)
            return dict(zip(components, default)) if len(default) == len(components) else "?"
        return (default[0] if default and len(default) == 1 else None)

    def prio(outs):
        return [priority.index(o) if o in priority else len(priority) for o in outs]
    if policy == "unique":
        return res(hits[0]) if len(hits) == 1 else None
    if policy == "any":
        return res(hits[0]) if all(h == hits[0] for h in hits) else None
    if policy == "first":
        return res(hits[0])
    if policy == "priority":
        return res(sorted(hits, key=prio)[0])
    if policy in ("rule_order", "collect_list"):
        return [res(h) for h in hits]
    if policy == "output_order":
        return [res(h) for h in sorted(hits, key=prio)]
    if policy == "collect_count":
        return len(hits)
    if policy in ("collect_sum", "collect_min", "collect_max"):
        if len(components) > 1:
            return None
        return (policy.split("_")[1], tuple(h[0] for h in hits))
    return "?"


SINGLE = [
    ([(False, ["a"]), (False, ["b"])], ["a", "b"], None),
    ([(False, ["a"]), (False, ["b"])], ["a", "b"], ["d"]),
    ([(True, ["a"]), (False, ["b"])], ["a", "b"], ["d"]),
    ([(False, ["a"]), (True, ["b"])], ["b", "a"], None),
    ([(True, ["a"]), (True, ["b"])], ["b", "a"], None),
    ([(True, ["a"]), (True, ["b"])], ["a", "b"], None),
    ([(True, ["a"]), (True, ["a"])], ["a", "b"], None),
    ([(True, ["a"]), (False, ["c"]), (True, ["a"])], ["a", "c"], None),
    ([(True, ["b"]), (True, ["c"]), (True, ["a"])], ["a", "b", "c"], None),
    ([(True, ["c"]), (False, ["a"]), (True, ["b"])], ["a", "b", "c"], ["d"]),
    ([(True, ["a"]), (True, ["b"]), (True, ["a"])], ["b", "a"], None),
]
DOUBLE = [
    ([(True, ["a", "x"]), (False, ["b", "y"])], [], None),
    ([(True, ["a", "x"]), (True, ["b", "y"])], [], None),
    ([(False, ["a", "x"]), (False, ["b", "y"])], [], None),
    ([(True, ["a", "x"]), (True, ["a", "x"])], [], None),
    ([(False, ["a", "x"]), (False, ["b", "y"])], [], ["d", "e"]),
    ([(True, ["a", "x"]), (False, ["b", "y"])], [], ["d", "e"]),
]
POLICIES = ("unique", "any", "priority", "first", "rule_order", "output_order", "collect_list", "collect_count", "collect_sum", "collect_min", "collect_max")


def fold(F, policy, rules, priority, default, components):
    box = {}

    def hook(c, a, st):
        ev = box["ev"]
        c = c or ""
        if c.endswith("::evaluate_sum") or c.endswith("::evaluate_min") or c.endswith("::evaluate_max"):
            seq = ev.as_seq(a[0]) if a else None
            return ("agg", c.split("evaluate_")[-1], list(seq)) if seq is not None else None
        if c == "dmntk_feel::values::Values::new":
            seq = ev.as_seq(a[0]) if a else None
            return ("array", list(seq)) if seq is not None else None
        if CTX in c and c.endswith("::default") and not a:
            return ("array", [])
        if c == CTX + "::set_entry" and len(a) == 3 and ev.as_seq(a[0]) is not None and getattr(ev, "recv_local", None) and a[1][0] == "lit":
            q = [kv for kv in ev.as_seq(a[0]) if kv[1][0] != a[1]] + [("tuple", [a[1], a[2]])]
            q.sort(key=lambda kv: kv[1][0][1])
            return {"env": {ev.recv_local: ("array", q)}, "val": ("unit",)}
        return None
    ev = Evaluator(F, call_hook=hook, ints=True, max_paths=400, inline={n for n in F.hir if n.startswith(EDT)})
    ev.vecs = True
    box["ev"] = ev
    try:
        outs = ev.run_fn(EDT + "evaluate_hit_policy_" + policy, [table(rules, priority, default, components)])
    except (TooManyPaths, ValueError, KeyError, TypeError, IndexError, RecursionError) as x:
        return "?", "%s: %s" % (type(x).__name__, str(x)[:80])
    res = []
    for conds, v in outs:
        if conds:
            return "?", "path condition left open: %s" % str(conds[0])[:80]
        res.append(dec(v))
    if len(res) != 1:
        return "?", "%d results" % len(res)
    return res[0], ""


def has_unknown(x):
    if x == "?":
        return True
    if isinstance(x, (list, tuple)):
        return any(has_unknown(i) for i in x)
    if isinstance(x, dict):
        return any(has_unknown(i) for i in x.values())
    return False


def show(x):
    if x is None:
        return "null"
    if isinstance(x, list):
        return "[" + ", ".join(show(i) for i in x) + "]"
    if isinstance(x, dict):
        return "{" + ", ".join("%s: %s" % (k, show(v)) for k, v in sorted(x.items())) + "}"
    if isinstance(x, tuple):
        return "%s(%s)" % (x[0], ", ".join(show(i) for i in x[1]))
    return str(x)


def generated_tables():
    """every table of 1..3 rules over two output values, every pattern of matches, both priority orders, with and without a default output"""
    import itertools
    out = []
    for n in (1, 2, 3):
        for ms in itertools.product((True, False), repeat=n):
            for os_ in itertools.product(("a", "b"), repeat=n):
                for pr in (["a", "b"], ["b", "a"]):
                    out.append(([(m, [o]) for m, o in zip(ms, os_)], pr, None))
                out.append(([(m, [o]) for m, o in zip(ms, os_)], ["a", "b"], ["d"]))
    return out


def run(F, rep, tier="quick"):
    rid = rep.rule("R03.10", "every hit-policy evaluator, folded on small evaluated tables (0..3 matching rules, equal / different outputs, priorities, default output, one and two "
                             "output components), returns what the statement prescribes for that policy")
    total = 0
    for policy in POLICIES:
        fn = EDT + "evaluate_hit_policy_" + policy
        key = "policy:%s" % policy
        h = F.hir.get(fn)
        if h is None:
            rep.missing_anchor(rid, fn)
            continue
        bad, unknown, ok = [], [], 0
        for rules, priority, default in (SINGLE + generated_tables() if tier == "thorough" else SINGLE):
            cases = [(rules, priority, default, ("out",))]
            for rules_, priority_, default_, comps in cases:
                got, note = fold(F, policy, rules_, priority_, default_, comps)
                want = expected(policy, rules_, priority_, default_, comps)
                label = "rules %s, priorities %s%s" % ([("+" if m else "-") + "/".join(o) for m, o in rules_], priority_, (", default %s" % default_[0]) if default_ else "")
                if has_unknown(got):
                    unknown.append("%s: %s" % (label, note or show(got)))
                elif got != want:
                    bad.append("%s -> %s, prescribed: %s" % (label, show(got), show(want)))
                else:
                    ok += 1
        for rules, priority, default in DOUBLE:
            got, note = fold(F, policy, rules, priority, default, ("p", "q"))
            want = expected(policy, rules, priority, default, ("p", "q"))
            label = "two outputs, rules %s%s" % ([("+" if m else "-") + "/".join(o) for m, o in rules], (", defaults %s" % default) if default else "")
            if want == "?":
                continue
            if has_unknown(got):
                unknown.append("%s: %s" % (label, note or show(got)))
            elif got != want:
                bad.append("%s -> %s, prescribed: %s" % (label, show(got), show(want)))
            else:
                ok += 1
        total += ok + len(bad)
        where = "%s:%s" % (h["file"], h["line"])
        if bad:
            rep.violation(rid, key, "evaluate_hit_policy_%s does not return what its hit policy prescribes: %s" % (policy, "; ".join(bad[:3])), where)
        elif unknown:
            rep.undecided(rid, key, "%d of %d tables fold to the prescribed result, %d do not fold: %s" % (ok, ok + len(unknown), len(unknown), "; ".join(unknown[:2])))
        else:
            rep.ok(rid, key, "%d tables fold to the prescribed result" % ok)
    rep.floor(rid, "hit-policy results folded to a definite answer", total, 100)


# ====================================================================================================== R03.11: which rules match, what is collected
PDT = "dmntk_model_evaluator::builders::decision_table::evaluate_parsed_decision_table"


def evalr(v):
    return ("evalr", v)


def B(x):
    return ("v", "Boolean", [("lit", x)]) if x is not None else ("v", "Null", [("v", "None", [])])


def parsed_table(rules, priorities, defaults, components=("out",)):
    """rules: [([entry truth values: True / False / None], [output symbols])]; priorities / defaults: per output clause a list of symbols or None"""
    def exprlist(xs):
        return ("v", "Some", [evalr(("v", "ExpressionList", [("array", [N(x) for x in xs])]))]) if xs is not None else ("v", "None", [])
    return ("rec", {
        "component_names": ("array", [name(c) for c in components]),
        "output_values_evaluators": ("array", [exprlist(p) for p in priorities]),
        "default_output_values_evaluators": ("array", [exprlist(d) for d in defaults]),
        "rules": ("array", [("rec", {"input_entries_evaluators": ("array", [evalr(B(t)) for t in ins]), "output_entries_evaluators": ("array", [evalr(N(o)) for o in outs])}) for ins, outs in rules]),
    })


def fold_table(F, table):
    box = {}

    def hook(c, a, st):
        ev = box["ev"]
        c = c or ""
        if c.startswith("local:") and isinstance(st.env.get(c[6:]), tuple) and st.env[c[6:]][0] == "evalr":
            return st.env[c[6:]][1]
        if c.endswith("Fn::call") or c.endswith("Fn<Args>>::call"):
            if a and isinstance(a[0], tuple) and a[0][0] == "evalr":
                return a[0][1]
        if c in ("dmntk_feel::values::Values::as_vec",):
            return a[0]
        if c == "dmntk_feel::values::Values::new":
            seq = ev.as_seq(a[0]) if a else None
            return ("array", list(seq)) if seq is not None else None
        if c == "dmntk_feel::values::Value::is_true" and a and a[0][0] == "v":
            # (Value::is_true is `matches!(self, Value::Boolean(true))`; the crate that defines it need not be part of this check's fact base)
            from hireval import mk_bool
            return mk_bool(a[0][1] == "Boolean" and len(a[0][2]) == 1 and a[0][2][0] in (("lit", True), ("bool", True)))
        return None
    ev = Evaluator(F, call_hook=hook, ints=True, max_paths=400, inline={n for n in F.hir if n.startswith("dmntk_feel::values::Value::is_") or
                                                                        (n.startswith("dmntk_model_evaluator::builders::decision_table::") and "{closure" not in n and n != PDT)})
    ev.vecs = True
    box["ev"] = ev
    try:
        outs = ev.run_fn(PDT, [sym("scope"), table])
    except (TooManyPaths, ValueError, KeyError, TypeError, IndexError, RecursionError) as x:
        return None, "%s: %s" % (type(x).__name__, str(x)[:80])
    if len(outs) != 1 or outs[0][0]:
        return None, "%d paths%s" % (len(outs), (": " + str(outs[0][0][0])[:70]) if outs and outs[0][0] else "")
    return outs[0][1], ""


def run_matching(F, rep, tier="quick"):
    import itertools
    rid = rep.rule("R03.11", "evaluate_parsed_decision_table, folded on parsed tables whose entry evaluators answer assigned truth values, marks a rule as matching exactly when every "
                             "input entry is true, and collects the output entries, the output values and the default outputs in order")
    if F.hir.get(PDT) is None:
        rep.missing_anchor(rid, PDT)
        return
    h = F.hir[PDT]
    where = "%s:%s" % (h["file"], h["line"])
    truth = (True, False, None)
    bad, unknown, ok = [], [], 0
    tables = []
    for k in (0, 1, 2, 3):
        for ins in itertools.product(truth, repeat=k):
            tables.append(([(list(ins), ["a"])], [["p", "q"]], [None]))
    tables += [([([True, True], ["a", "x"]), ([True, False], ["b", "y"]), ([], ["c", "z"])], [["p"], None], [["d"], ["e"]]),
               ([([None], ["a"]), ([True], ["b"])], [None], [None]),
               ([([False, True], ["a"]), ([True, True], ["b"]), ([True, None], ["c"])], [["q", "p"]], [["d"]])]
    for rules, prios, dflts in tables:
        comps = ("out",) if len(rules[0][1]) == 1 else ("p", "q")
        v, note = fold_table(F, parsed_table(rules, prios, dflts, comps))
        label = "rules %s" % [("/".join({True: "T", False: "F", None: "N"}[t] for t in ins) or "-") + ">" + "/".join(outs) for ins, outs in rules]
        if v is None or v[0] != "rec":
            unknown.append("%s: %s" % (label, note or str(v)[:60]))
            continue
        try:
            got_rules = [(r[1]["matches"], [dec(o) for o in r[1]["output_entry_values"][1]]) for r in v[1]["evaluated_rules"][1]]
            got_prio = [dec(o) for o in v[1]["output_values"][1]]
            got_dflt = [dec(o) for o in v[1]["default_output_values"][1]]
            got_names = [c[1] for c in v[1]["component_names"][1]]
        except (KeyError, IndexError, TypeError):
            unknown.append("%s: result not concrete" % label)
            continue
        want_rules = [(("bool", all(t is True for t in ins)), list(outs)) for ins, outs in rules]
        want_prio = [x for p in prios if p is not None for x in p]
        want_dflt = [x for d in dflts if d is not None for x in d]
        if has_unknown(got_prio) or has_unknown(got_dflt) or any(has_unknown(o) for _, o in got_rules):
            unknown.append("%s: part of the evaluated table does not fold" % label)
        elif any(m[0] not in ("bool", "lit") or not isinstance(m[1], bool) for m, _ in got_rules):
            unknown.append("%s: the match flag does not fold (%s)" % (label, str(got_rules[0][0])[:60]))
        elif [(("bool", m[1]), o) for m, o in got_rules] != want_rules:
            bad.append("%s: matching / outputs %s, prescribed %s" % (label, [(m[1], o) for m, o in got_rules], [(m[1], o) for m, o in want_rules]))
        elif got_prio != want_prio or got_dflt != want_dflt or got_names != list(comps):
            bad.append("%s: output values %s / defaults %s / names %s, prescribed %s / %s / %s" % (label, got_prio, got_dflt, got_names, want_prio, want_dflt, list(comps)))
        else:
            ok += 1
    if bad:
        rep.violation(rid, "matching:evaluate_parsed_decision_table", "the evaluated table is not what the parsed table and the entry values prescribe: %s" % "; ".join(bad[:3]), where)
    elif unknown:
        rep.undecided(rid, "matching:evaluate_parsed_decision_table", "%d of %d tables fold, %d do not: %s" % (ok, ok + len(unknown), len(unknown), "; ".join(unknown[:2])))
    else:
        rep.ok(rid, "matching:evaluate_parsed_decision_table", "%d tables: a rule matches exactly when all its input entries are true (null and false do not match, no entries match)" % ok)
    rep.floor(rid, "parsed tables folded", ok + len(bad), 30)
