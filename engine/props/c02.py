"""C02: decimal128 arithmetic - configuration and plumbing clauses (DESIGN §3 C02)."""
import re

import hirflow
import mirutil
from facts import find_hir, strip

LEVEL = "other"
CRATES_QUICK = None   # R02.5 needs the cross-crate call graph
CRATES_THOROUGH = None
DEC = "dmntk_feel_number::dec::"
NUM = "dmntk_feel_number::number::FeelNumber"
# IEEE 754-2008 decimal128 parameters / General Decimal Arithmetic context for it (specification facts)
DECIMAL128 = {"digits": 34, "emax": 6144, "emin": -6143, "round": "DEC_ROUND_HALF_EVEN", "traps": 0, "clamp": 1}
# Rust constant -> C name where the spelling differs
C_NAME = {"DEC_QUAD_STRING": "DECQUAD_String"}
CONVERSIONS = {"decimal128ToNumber", "decimal128FromNumber"}
# operation -> decNumber primitive the General Decimal Arithmetic specification names for it, with operand order and rounding mode
# (rounding constants by their C names); `allowed` = primitives that may additionally appear (normalisation only)
OPS = {
    "<%s as core::ops::arith::Add>::add": ("decQuadAdd", ["self", "rhs"], None),
    "<%s as core::ops::arith::Sub>::sub": ("decQuadSubtract", ["self", "rhs"], None),
    "<%s as core::ops::arith::Mul>::mul": ("decQuadMultiply", ["self", "rhs"], None),
    "<%s as core::ops::arith::Div>::div": ("decQuadDivide", ["self", "rhs"], None),
    "<%s as core::ops::arith::AddAssign>::add_assign": ("decQuadAdd", ["self", "rhs"], None),
    "<%s as core::ops::arith::SubAssign>::sub_assign": ("decQuadSubtract", ["self", "rhs"], None),
    "<%s as core::ops::arith::MulAssign>::mul_assign": ("decQuadMultiply", ["self", "rhs"], None),
    "<%s as core::ops::arith::DivAssign>::div_assign": ("decQuadDivide", ["self", "rhs"], None),
    "<%s as core::ops::arith::Neg>::neg": ("decQuadMinus", ["self"], None),
    "%s::abs": ("decQuadAbs", ["self"], None),
    "%s::floor": ("decQuadToIntegralValue", ["self"], "DEC_ROUND_FLOOR"),
    "%s::ceiling": ("decQuadToIntegralValue", ["self"], "DEC_ROUND_CEILING"),
    "%s::trunc": ("decQuadToIntegralValue", ["self"], "DEC_ROUND_DOWN"),
    "%s::sqrt": ("decNumberSquareRoot", ["self"], None),
    "%s::exp": ("decNumberExp", ["self"], None),
    "%s::ln": ("decNumberLn", ["self"], None),
    "%s::pow": ("decNumberPower", ["self", "rhs"], None),
    "%s::even": ("decQuadRemainder", ["self", "static"], None),
    "%s::odd": ("decQuadRemainder", ["self", "static"], None),
    "<%s as core::cmp::PartialEq>::eq": ("decQuadCompare", ["self", "rhs"], None),
    "<%s as core::cmp::PartialOrd>::partial_cmp": ("decQuadCompare", ["self", "rhs"], None),
}
NORMALISERS = {"decNumberReduce", "decQuadZero", "decQuadIsZero", "decQuadIsNegative", "decQuadIsPositive", "decQuadIsFinite"}
# primitives whose result can be infinite or NaN although all operands are finite
NON_FINITE_SOURCES = {"decQuadAdd", "decQuadSubtract", "decQuadMultiply", "decQuadDivide", "decQuadRemainder", "decQuadFromString",
                      "decNumberExp", "decNumberLn", "decNumberPower", "decNumberSquareRoot", "decNumberRescale", "decNumberScaleB"}


def rust_const_values(F):
    out = {}
    for n, h in F.hir.items():
        if h["kind"] == "const" and n.startswith(DEC):
            b = strip(h["body"])
            if b.get("k") == "Lit" and isinstance(b.get("v"), int):
                out[n[len(DEC):]] = b["v"]
            elif b.get("k") == "Unary" and b.get("op") == "-" and strip(b["a"]).get("k") == "Lit":
                out[n[len(DEC):]] = -strip(b["a"])["v"]
    return out


def norm_rust_ty(t):
    t = t.replace("dmntk_feel_number::dec::", "")
    return t


def c_equiv(rust_ty, c_canon, c_type):
    """does the Rust FFI type denote the same ABI type as the C parameter type?"""
    r = norm_rust_ty(rust_ty)
    c = c_canon.replace("struct ", "").strip()
    m = re.fullmatch(r"\*(mut|const) (\w+)", r)
    if m:
        is_const = m.group(1) == "const"
        pointee = m.group(2)
        cm = re.fullmatch(r"(const )?([\w ]+?) ?\*", c)
        if not cm:
            return False
        if bool(cm.group(1)) != is_const:
            return False
        cp = cm.group(2).strip()
        prim = {"i8": {"char"}, "u8": {"unsigned char", "uint8_t", "uByte"}, "i32": {"int", "int32_t"}, "u32": {"unsigned int", "uint32_t"}}
        if pointee in prim:
            return cp in prim[pointee]
        # decimal128 (16 raw bytes) and decQuad (a 16-byte union over the same bytes) are the same interchange format
        same = {"decimal128": "decquad"}
        return same.get(cp.lower(), cp.lower()) == pointee.lower()
    prim = {"i32": {"int", "int32_t", "Int"}, "u32": {"unsigned int", "uint32_t", "uInt", "enum rounding"}, "u8": {"unsigned char", "uint8_t"}, "i8": {"char"}}
    if r in prim:
        return c in prim[r] or c_type in prim[r]
    return False


class WrapperSem:
    """symbolic meaning of a dec_* wrapper: the decNumber primitives applied to its parameters"""

    def __init__(self, F, consts):
        self.F = F
        self.consts = consts
        self.cache = {}

    def sem(self, name, fnargs=None):
        """fnargs: {parameter index: foreign function path} for parameters that receive a library function (a generic helper applying `op`)"""
        ck = (name, tuple(sorted((fnargs or {}).items())))
        if ck in self.cache:
            return self.cache[ck]
        h = self.F.hir.get(name)
        if h is None:
            return None
        self.cache[ck] = {"result": set(), "prims": []}      # recursion guard
        env = {}
        for i, p in enumerate(h["params"]):
            if p.get("k") == "Bind":
                env[p["name"]] = {("fn", fnargs[i])} if fnargs and i in fnargs else {("param", i)}
        prims = []

        def foreign_of(e):
            """the library function a callee expression denotes: a foreign fn item, or a parameter bound to one"""
            e = strip(e)
            if e.get("k") == "Path" and e.get("res") == "def" and e.get("path") in self.F.foreign:
                return e["path"]
            if e.get("k") == "Path" and e.get("res") == "local":
                v = env.get(e["name"], set())
                if len(v) == 1 and list(v)[0][0] == "fn":
                    return list(v)[0][1]
            return None

        def val(e):
            e = strip(e)
            if e.get("k") == "Path":
                if e.get("res") == "local":
                    return env.get(e["name"], {("fresh", e["name"])})
                p = e.get("path", "")
                nm = p.split("::")[-1]
                if nm in self.consts:
                    return {("const", nm)}
                return {("static", nm)}
            if e.get("k") == "Lit":
                return {("lit", e.get("v"))}
            if e.get("k") == "MethodCall":
                if e.get("method") in ("clone", "as_ptr", "as_mut_ptr", "deref"):
                    return val(e["recv"])
                return {("expr", e.get("method"))}
            if e.get("k") == "Call" and (e.get("callee") or "").startswith(DEC) and e.get("callee") in self.F.hir and e["callee"] != name:
                fa = {i: foreign_of(a) for i, a in enumerate(e.get("args", [])) if foreign_of(a)}
                w = self.sem(e["callee"], fa)
                argv = [val(a) for a in e.get("args", [])]
                if w:
                    for pn in w["prims"]:
                        for x in subst_wrapper({"result": {pn}}, argv):
                            if x not in prims:
                                prims.append(x)
                return subst_wrapper(w, argv) if w else {("unknown", e["callee"])}
            return {("expr", e.get("k"))}

        def visit(n, parents):
            if n.get("k") == "LetStmt" and n["p"].get("k") == "Bind" and "e" in n:
                init = strip(n["e"])
                if init.get("k") in ("Call", "MethodCall") and ("default" in (init.get("callee") or "").lower() or (init.get("callee") or "").endswith("::new")):
                    env[n["p"]["name"]] = {("fresh", n["p"]["name"])}
                elif init.get("k") == "Path" and init.get("res") == "def":
                    env[n["p"]["name"]] = {("fresh", n["p"]["name"])}
                elif init.get("k") == "Block" and init.get("unsafe"):
                    # let flag = unsafe { decQuadIsZero(q) };
                    for c, _ in find_hir(init, lambda x: x.get("k") == "Call" and x.get("callee") in self.F.foreign):
                        env[n["p"]["name"]] = {self.apply(c, val, env, prims)}
                    return False
                else:
                    env[n["p"]["name"]] = val(n["e"])
                return True
            if n.get("k") == "Call" and n.get("callee") in self.F.foreign:
                self.apply(n, val, env, prims)
                return False
            if n.get("k") == "Call" and n.get("callee") is None and "f" in n and foreign_of(n["f"]):
                self.apply(dict(n, callee=foreign_of(n["f"])), val, env, prims)      # `op(&mut r, a, b, ctx)` with op bound to a library function
                return False
            if n.get("k") == "Ret" and "e" in n:
                early.update(val(n["e"]))            # an early `return other_wrapper(..)`: one more way the result is computed (a "fast path")
                return False
            if n.get("k") in ("Assign",) and strip(n["a"]).get("k") == "Path" and strip(n["a"]).get("res") == "local":
                env[strip(n["a"])["name"]] = env.get(strip(n["a"])["name"], set()) | val(n["b"])
                return False
            return True
        early = set()
        from facts import walk_hir
        walk_hir(h["body"], visit)
        # result: tail expression
        res = set()
        tail = h["body"]
        while tail.get("k") == "Block":
            if tail["b"].get("e") is None:
                break
            tail = tail["b"]["e"]
        t = strip(tail)
        if t.get("k") == "Path" and t.get("res") == "local":
            res = env.get(t["name"], set())
        elif t.get("k") == "Binary":
            a = strip(t["a"])
            if a.get("k") == "Path" and a.get("res") == "local":
                res = {("test", t["op"], tuple(sorted(env.get(a["name"], set()), key=repr)))}
        elif t.get("k") == "Block":
            for c, _ in find_hir(t, lambda x: x.get("k") == "Call" and x.get("callee") in self.F.foreign):
                res = {self.apply(c, val, env, prims)}
        elif t.get("k") == "Call":
            res = val(t)                   # a wrapper that only delegates: `quad_binary(decQuadAdd, q1, q2)`
        res = set(res) | early
        out = {"result": res, "prims": prims}
        self.cache[ck] = out
        return out

    def apply(self, call, val, env, prims):
        ff = self.F.foreign[call["callee"]]
        sym = ff["sym"]
        args = call.get("args", [])
        inputs = ff.get("inputs", [])
        ret_ptr = ff.get("output", "").startswith("*mut")
        out_local = None
        ins = []
        scalars = []
        for i, (a, ty) in enumerate(zip(args, inputs)):
            a0 = strip(a)
            if i == 0 and ty.startswith("*mut") and ret_ptr and "DecContext" not in ty:
                if a0.get("k") == "Path" and a0.get("res") == "local":
                    out_local = a0["name"]
                continue
            if "DecContext" in ty:
                continue
            if ty.startswith("*const") or ty.startswith("*mut"):
                if sym == "decimal128ToNumber" and i == 1:
                    if a0.get("k") == "Path" and a0.get("res") == "local":
                        out_local = a0["name"]
                    continue
                ins.append(frozenset(val(a)))
            else:
                scalars.append(frozenset(val(a)))
        if sym in CONVERSIONS:
            v = ins[0] if ins else frozenset()
            if out_local:
                env[out_local] = set(v)
            return ("conv", sym)
        node = ("prim", sym, tuple(ins), tuple(scalars))
        prims.append(node)
        if out_local:
            # may-assign: keep earlier values when the call sits under a condition (join)
            env[out_local] = (env.get(out_local, set()) - {x for x in env.get(out_local, set()) if x[0] == "fresh"}) | {node} \
                if any(x[0] == "prim" for x in env.get(out_local, set())) else {node}
        return node


def subst_wrapper(w, argv):
    """instantiate a wrapper's result with actual argument value-sets"""
    def sub(v):
        if v[0] == "param":
            return set(argv[v[1]]) if v[1] < len(argv) else {("unknown", "arg")}
        if v[0] == "prim":
            ins = tuple(frozenset(x for y in s for x in sub(y)) for s in v[2])
            return {("prim", v[1], ins, v[3])}
        if v[0] == "test":
            return {("test", v[1], tuple(x for y in v[2] for x in sub(y)))}
        return {v}
    out = set()
    for v in w["result"]:
        out |= sub(v)
    return out


def prims_in(vs, acc=None):
    """all (primitive, operand value-sets, scalars) nodes in a value-set"""
    if acc is None:
        acc = []
    for v in vs:
        if v[0] == "prim":
            acc.append(v)
            for s in v[2]:
                prims_in(s, acc)
        elif v[0] == "test":
            prims_in(v[2], acc)
    return acc


def leaf_names(vs):
    out = set()
    for v in vs:
        if v[0] in ("self", "rhs"):
            out.add(v[0])
        elif v[0] == "prim":
            # through normalisers / unary wrappers the operand identity is preserved
            for s in v[2]:
                out |= leaf_names(s)
    return out


def run(F, rep, tier):
    rep.explanation = ("The numerical content of decimal128 arithmetic lives in the bundled C library and is not decided. Decided: the context the library is "
                       "configured with (clang AST of decContextDefault vs IEEE 754-2008 decimal128), agreement of the Rust FFI declarations, constants and #[repr(C)] "
                       "layouts with the C headers under build.rs's defines, that every FFI call gets a private, pristine copy of that context, that each operator "
                       "reaches the decNumber primitive the General Decimal Arithmetic specification names (operand order, rounding constant), and a must-pass-through "
                       "rule: a possibly non-finite primitive result must pass dec_is_finite before it becomes a FeelNumber.")
    rep.assumptions += ["correct rounding inside decNumber's C code", "values of any operation"]
    r1 = rep.rule("R02.1", "decContextDefault(DEC_INIT_DECQUAD) configures IEEE 754-2008 decimal128: 34 digits, emax 6144, emin -6143, half-even, no traps, clamp")
    r2 = rep.rule("R02.2", "Rust constants, extern declarations and #[repr(C)] layouts agree with the C headers")
    r3 = rep.rule("R02.3", "every FFI call gets a private copy of the default context; the default context is never modified from Rust")
    r4 = rep.rule("R02.4", "each operator / numeric method reaches the decNumber primitive the specification names, with operands in order and the named rounding mode")
    r5 = rep.rule("R02.5", "a primitive result that may be infinite or NaN passes dec_is_finite before it is returned as a FeelNumber")
    C = F.c
    if C is None:
        rep.missing_anchor(r1, "c_facts.json")
        return
    for e in C.get("errors", []):
        rep.violation(r1, "clang", "clang failed: %s" % e, None)
    rc = rust_const_values(F)
    rep.floor(r2, "Rust FFI constants", len(rc), 6)

    # ---------------- R02.1
    init = rc.get("DEC_INIT_DECQUAD")
    cd = C.get("context_default", {})
    case = cd.get("cases", {}).get(str(init))
    if case is None:
        rep.violation(r1, "case", "decContextDefault has no case for the kind %s that Rust passes (DEC_INIT_DECQUAD)" % init, "feel-number/decnumber/decContext.c")
    else:
        eff = dict(cd.get("pre", {}))
        eff.update(case)
        for fld, want in DECIMAL128.items():
            got = eff.get(fld)
            if isinstance(got, dict) and "ref" in got:
                gname = got["ref"]
                ok = gname == want
                gtxt = "%s (=%s)" % (gname, C["consts"].get(gname))
            else:
                ok = got == want
                gtxt = str(got)
            if ok:
                rep.ok(r1, "context.%s" % fld, gtxt)
            else:
                rep.violation(r1, "context.%s" % fld, "decimal128 context: %s is %s, IEEE 754-2008 decimal128 requires %s" % (fld, gtxt, want), "feel-number/decnumber/decContext.c decContextDefault")
        # the enum constant itself
        if C["consts"].get("DEC_ROUND_HALF_EVEN") is None:
            rep.missing_anchor(r1, "DEC_ROUND_HALF_EVEN")
    for nm, want in (("DECQUAD_Pmax", 34), ("DECQUAD_Emax", 6144), ("DECQUAD_Emin", -6143), ("DECQUAD_Bias", 6176), ("DECQUAD_Bytes", 16), ("DECDPUN", 3)):
        got = C["consts"].get(nm)
        if got == want:
            rep.ok(r1, "c:%s" % nm, str(got))
        else:
            rep.violation(r1, "c:%s" % nm, "%s = %s in the C headers, decimal128 requires %s" % (nm, got, want), "feel-number/decnumber")

    # ---------------- R02.2 constants
    for nm, v in sorted(rc.items()):
        cn = C_NAME.get(nm, nm)
        if cn not in C["consts"]:
            if nm.endswith("_BUFFER"):
                continue
            rep.violation(r2, "const:%s" % nm, "Rust constant %s has no counterpart %s in the C headers" % (nm, cn), "feel-number/src/dec.rs")
            continue
        if C["consts"][cn] == v:
            rep.ok(r2, "const:%s" % nm, "%s = %s" % (cn, v))
        else:
            rep.violation(r2, "const:%s" % nm, "Rust %s = %s but C %s = %s" % (nm, v, cn, C["consts"][cn]), "feel-number/src/dec.rs")
    # prototypes
    nproto = 0
    for n, ff in sorted(F.foreign.items()):
        if "inputs" not in ff or not ff["_crate"].startswith("dmntk_feel_number"):
            continue
        nproto += 1
        sym = ff["sym"]
        cp = C["prototypes"].get(sym)
        key = "proto:%s" % sym
        if cp is None:
            rep.violation(r2, key, "extern fn %s is not declared by the decNumber headers" % sym, "%s:%s" % (ff["file"], ff["line"]))
            continue
        if sym not in C["functions"]:
            rep.violation(r2, key, "extern fn %s is declared but not defined in any compiled C file" % sym, "%s:%s" % (ff["file"], ff["line"]))
            continue
        if len(cp["params"]) != len(ff["inputs"]) or cp.get("variadic") != ff.get("variadic", False):
            rep.violation(r2, key, "%s: Rust declares %d parameters, C has %d" % (sym, len(ff["inputs"]), len(cp["params"])), "%s:%s" % (ff["file"], ff["line"]))
            continue
        bad = [(i, rt, p["type"]) for i, (rt, p) in enumerate(zip(ff["inputs"], cp["params"])) if not c_equiv(rt, p["canon"], p["type"])]
        ctype = cp["type"].split("(")[0].strip()
        ret_ok = c_equiv(ff["output"], C.get("typedefs", {}).get(ctype, ctype), ctype) or c_equiv(ff["output"], ctype, ctype)
        if bad or not ret_ok:
            rep.violation(r2, key, "%s: Rust signature %s -> %s disagrees with C `%s` at %s" % (sym, [norm_rust_ty(t) for t in ff["inputs"]], norm_rust_ty(ff["output"]), cp["type"],
                                                                                               bad or "return type"), "%s:%s" % (ff["file"], ff["line"]))
        else:
            rep.ok(r2, key, cp["type"])
    rep.floor(r2, "extern \"C\" declarations", nproto, 32)
    # layouts
    for rname, cname in (("DecContext", "decContext"), ("DecNumber", "decNumber"), ("DecQuad", "decQuad")):
        a = F.adts.get(DEC + rname)
        cl = C["layouts"].get(cname)
        if a is None or cl is None or "size" not in a:
            rep.missing_anchor(r2, "layout of %s / %s" % (rname, cname))
            continue
        key = "layout:%s" % rname
        probs = []
        if not a.get("repr_c") and len(a["variants"][0]["fields"]) > 1:
            probs.append("not #[repr(C)]")
        if a["size"] != cl["size"]:
            probs.append("size %d vs C %d" % (a["size"], cl["size"]))
        if cl.get("tag") == "struct":
            rf = a["variants"][0]["fields"]
            cf = cl["fields"]
            if len(rf) != len(cf):
                probs.append("%d fields vs C %d" % (len(rf), len(cf)))
            else:
                for i, (x, y) in enumerate(zip(rf, cf)):
                    off = a["offsets"][i] if i < len(a.get("offsets", [])) else None
                    if off != y.get("offset"):
                        probs.append("field %s at offset %s vs C %s at %s" % (x["name"], off, y["name"], y.get("offset")))
                    if x["name"] != y["name"]:
                        probs.append("field %d named %s vs C %s" % (i, x["name"], y["name"]))
        if a["align"] < cl["align"]:
            rep.note("%s has alignment %d, the C type %s has %d (recorded, not judged: no observable effect on this target)" % (rname, a["align"], cname, cl["align"]))
        if probs:
            rep.violation(r2, key, "%s does not match C %s: %s" % (rname, cname, "; ".join(probs)), "%s:%s" % (a["file"], a["line"]))
        else:
            rep.ok(r2, key, "size %d, %d field(s) at the C offsets" % (a["size"], len(a["variants"][0]["fields"])))
    # the decNumber buffer must hold the context's 34 digits
    dn = F.adts.get(DEC + "DecNumber")
    if dn is not None:
        lsu = [F.ty(dn, f["ty"]) for f in dn["variants"][0]["fields"] if f["name"] == "lsu"]
        m = re.fullmatch(r"\[u16; (\d+)\]", lsu[0]) if lsu else None
        units = int(m.group(1)) if m else 0
        need = -(-DECIMAL128["digits"] // (C["consts"].get("DECDPUN") or 3))
        if units >= need and units == C["consts"].get("DECNUMUNITS"):
            rep.ok(r2, "layout:DecNumber.lsu", "%d units of %s digits hold 34 digits" % (units, C["consts"].get("DECDPUN")))
        else:
            rep.violation(r2, "layout:DecNumber.lsu", "DecNumber.lsu has %d units; 34 digits at DECDPUN=%s need %d (C: DECNUMUNITS=%s)" % (units, C["consts"].get("DECDPUN"), need, C["consts"].get("DECNUMUNITS")),
                          "feel-number/src/dec.rs")

    # ---------------- R02.3
    context_privacy_rule(F, rep, r3)

    # ---------------- R02.4 / R02.5
    W = WrapperSem(F, rc)
    nops = 0
    sinks = {}
    for n, h in F.hir.items():
        if not (n.startswith(NUM + "::") or (n.startswith("<" + NUM + " as ") or " for " in n and NUM in n)):
            if not (n.startswith("<") and NUM in n.split(" as ")[0]):
                continue
        if h["kind"] not in ("fn", "method"):
            continue
        sinks[n] = h
    nalts = [0]

    def shortcuts(h, name, prim):
        """no shortcut past the primitive: every value the operation can return (operand of a `return`, tail of the body, split over
        if / match) is computed by the named primitive - an early `return *self` for 'easy' operands skips the rounding the primitive performs"""
        if name.rsplit("::", 1)[-1] in ("even", "odd", "eq", "partial_cmp"):
            return    # predicates and orderings: the returned truth value is a test on the primitive's result, judged by the operand rule above
        for line, alt in method_value(F, W, h, returns=True):
            if alt == {("static", "None")}:
                continue    # the domain error of sqrt / ln / pow (no number is returned)
            nalts[0] += 1
            k2 = "return:%s" % name.replace(NUM, "FeelNumber")
            if any(p[1] == prim for p in prims_in(alt)):
                rep.ok(r4, k2, "a returned value is computed by %s" % prim)
            else:
                rep.violation(r4, k2, "%s returns a value that does not pass through %s (line %s: %s) - a shortcut past the specified primitive" % (
                    name, prim, line, sorted(map(str, alt))[:2] or "constant"), "%s:%s" % (h["file"], line))

    for pat, (prim, operands, rounding) in OPS.items():
        n = pat % NUM
        cands = [k for k in sinks if k == n or (k.startswith(n.split(">::")[0]) and k.endswith(n.split(">::")[-1]) and "<" + NUM + " as" in k and ("<" + NUM + ">") in k)]
        cands = [k for k in sinks if k == n] or [k for k in sinks if re.sub(r"<dmntk_feel_number::number::FeelNumber>", "", k) == n]
        if not cands:
            rep.violation(r4, "op:%s" % pat.replace("%s", "FeelNumber"), "operation %s not found" % n, "feel-number/src/number.rs")
            continue
        nops += 1
        h = sinks[cands[0]]
        vs = method_value(F, W, h)
        ps = prims_in(vs)
        key = "op:%s" % cands[0].replace(NUM, "FeelNumber")
        main = [p for p in ps if p[1] == prim]
        others = {p[1] for p in ps if p[1] != prim and p[1] not in NORMALISERS}
        if not main:
            rep.violation(r4, key, "%s reaches decNumber primitive(s) %s, the specification names %s" % (cands[0], sorted({p[1] for p in ps}) or "none", prim), "%s:%s" % (h["file"], h["line"]))
            continue
        if others:
            rep.violation(r4, key, "%s additionally applies %s to the result" % (cands[0], sorted(others)), "%s:%s" % (h["file"], h["line"]))
            continue
        p = main[0]
        got = [sorted(leaf_names(s)) for s in p[2]]
        want = [[o] if o in ("self", "rhs") else [] for o in operands]    # "static": a constant operand (DEC_TWO), no self / rhs leaf
        if got != want:
            rep.violation(r4, key, "%s passes operands %s to %s, expected %s in this order" % (cands[0], got, prim, want), "%s:%s" % (h["file"], h["line"]))
            continue
        if rounding is not None:
            rs = [sorted(x[1] for x in s if x[0] == "const") for s in p[3]]
            if rs != [[rounding]]:
                rep.violation(r4, key, "%s uses rounding %s with %s, expected %s" % (cands[0], rs, prim, rounding), "%s:%s" % (h["file"], h["line"]))
                continue
        rep.ok(r4, key, "%s(%s%s)" % (prim, ", ".join(operands), (", " + rounding) if rounding else ""))
        shortcuts(h, cands[0], prim)
    # round(): rescale with the negated scale
    rnd = F.hir.get(NUM + "::round")
    if rnd is None:
        rep.missing_anchor(r4, NUM + "::round")
    else:
        vs = method_value(F, W, rnd)
        ps = [p for p in prims_in(vs) if p[1] == "decNumberRescale"]
        ok = False
        if ps:
            a, b2 = ps[0][2]
            neg = [x for x in b2 if x[0] == "prim" and x[1] == "decQuadMinus"]
            ok = sorted(leaf_names(a)) == ["self"] and bool(neg) and sorted(leaf_names(b2)) == ["rhs"]
        if ok:
            rep.ok(r4, "op:FeelNumber::round", "decNumberRescale(self, decQuadMinus(scale))")
            shortcuts(rnd, NUM + "::round", "decNumberRescale")
        else:
            rep.violation(r4, "op:FeelNumber::round", "round() is not decNumberRescale(self, -scale): %s" % sorted(map(str, vs))[:2], "%s:%s" % (rnd["file"], rnd["line"]))
    rep.floor(r4, "operations judged", nops, 19)
    rep.floor(r4, "returned values judged", nalts[0], 14)

    # R02.5: every function of number.rs returning a FeelNumber (or Option/Result of it) built from a non-finite source,
    # restricted to those reachable from the evaluation entry points (a constructor nobody can reach with run-time operands proves nothing)
    import callgraph
    G = callgraph.CallGraph(F)
    roots = [n for n in F.bodies if n.startswith("dmntk_model_evaluator::model_evaluator::ModelEvaluator::evaluate")]
    roots += [n for n, b in F.bodies.items() if n.startswith("dmntk_feel_evaluator::evaluators::") and b.get("vis") == "pub"]
    seen, pred = G.reach(roots)
    rep.floor(r5, "evaluation-reachable bodies", len(seen), 800)
    nsink = 0
    npred = [0]
    for n, h in sorted(sinks.items()):
        if n not in seen:
            continue
        # private helpers of number.rs (a shared "finite -> Some(reduced)" function) are expanded at their call sites
        def helper(callee):
            f2 = F.fns.get(callee or "")
            if f2 is None or not callee.startswith("dmntk_feel_number::number::") or f2.get("vis") == "pub" or callee == n:
                return None
            return F.hir.get(callee)
        fl = hirflow.Flow(h, inline=helper)
        vs = method_value(F, W, h, inline=False)
        srcs = sorted({p[1] for p in prims_in(vs) if p[1] in NON_FINITE_SOURCES})
        if not srcs:
            # a function that only delegates to another FeelNumber operation inherits that operation's verdict (judged on its own)
            via = sorted({p[1] for p in prims_in(method_value(F, W, h)) if p[1] in NON_FINITE_SOURCES})
            f = F.fns.get(n)
            out_ty = F.ty(f, f["output"]) if f else ""
            if via and ("FeelNumber" in out_ty or "Self" in out_ty or "Assign" in n):
                nsink += 1
                rep.ok(r5, short(n), "delegates to another FeelNumber operation (reaching %s), which is judged under its own key" % via)
            continue
        # does the function return a number at all? (predicates such as even()/odd()/eq() return bool/Ordering)
        f = F.fns.get(n)
        out_ty = F.ty(f, f["output"]) if f else ""
        assigns_self = "Assign" in n
        if "FeelNumber" not in out_ty and "Self" not in out_ty and not assigns_self:
            if "bool" in out_ty and "decQuadRemainder" in srcs:
                # a predicate on a remainder (even / odd): decQuadRemainder answers 'division impossible' (NaN) when the integer quotient needs more than 34 digits, and a
                # zero test on NaN is false.  The remainder is used under a finite test, or the operand is known to have exponent 0 (decQuadIsInteger: the quotient then fits)
                allp = []
                method_value(F, W, h, inline=False, tests=allp)
                fin = any(q[1] == "decQuadIsFinite" and any(r[1] == "decQuadRemainder" for s in q[2] for r in prims_in(s)) for q in allp)
                integ = any(q[1] == "decQuadIsInteger" and any(("self",) in s for s in q[2]) for q in allp)
                npred[0] += 1
                if fin or integ:
                    rep.ok(r5, short(n), "the remainder is used %s" % ("under dec_is_finite" if fin else "for an operand tested by decQuadIsInteger (exponent 0: the quotient fits 34 digits)"))
                else:
                    rep.violation(r5, short(n), "%s tests the result of decQuadRemainder without a finite check: for an integer of more than 34 digits the remainder is not-a-number "
                                  "('division impossible') and the predicate answers as if it were non-zero" % short(n), "%s:%s" % (h["file"], h["line"]))
            continue
        nsink += 1
        checked = any((c or "").endswith("dec::dec_is_finite") for c, _, _, _, _ in fl.calls)
        guarded = False
        if checked:
            # the finite test must dominate the construction: it appears as a taken condition of a returned value
            for c, args, cond, line, node in fl.calls:
                if "Ctor" in (node.get("dk") or "") and (c or "").endswith("FeelNumber") or (node.get("dk") == "SelfCtor"):
                    if any(cd[2] is True and "dec_is_finite" in repr(cd[0]) for cd in cond):
                        guarded = True
            if not guarded:
                for d, cond, line in fl.returns:
                    if any(cd[2] is True and "dec_is_finite" in repr(cd[0]) for cd in cond):
                        guarded = True
        key = short(n)
        if not guarded and srcs == ["decQuadFromString"] and from_string_of_integer(F, h):
            rep.ok(r5, key, "decQuadFromString of text formatted from an integer value: always a finite number")
            continue
        if not guarded and n == NUM + "::fract":
            rep.ok(r5, key, "x - trunc(x) of a finite x has magnitude < 1 and cannot overflow (arithmetic fact, audited)", how="audited")
            continue
        if guarded:
            rep.ok(r5, key, "%s checked by dec_is_finite before the number is built" % srcs)
        else:
            rep.violation(r5, key, "%s wraps the result of %s into a FeelNumber without a finite check: an overflowing or undefined operation yields Infinity/NaN instead of null"
                          % (key, srcs), "%s:%s" % (h["file"], h["line"]))
    rep.floor(r5, "number constructors fed by possibly non-finite primitives", nsink, 12)
    rep.floor(r5, "predicates on a remainder", npred[0], 1)
    division_rule(F, rep, seen)
    formula_rule(F, rep)


# divisions whose divisor is non-zero for a reason the rule cannot derive from a dominating test: key -> reason
AUDITED_DIVISORS = {
    "dmntk_feel_evaluator::bifs::core::stddev:div#0": "n = numbers.len() and one number is pushed per element of `values`, whose length is tested to be >= 2 on entry",
    "dmntk_feel_evaluator::bifs::core::stddev:div#1": "n - 1 with n >= 2 (length test on entry)",
}
NONZERO_CONSTANTS = ("::one", "::two", "::nano")


def division_rule(F, rep, seen):
    """R02.6: x / 0 is 'undefined' and must yield null: every evaluation-reachable division of FeelNumbers has a divisor that is tested
    against zero on the path, is a non-zero constant, or is the length of a collection tested to be non-empty."""
    rid = rep.rule("R02.6", "every FeelNumber division reachable from evaluation has a divisor proved non-zero (tested against zero on the path, non-zero constant, length of a non-empty collection)")
    div = re.compile(r"^<%s as core::ops::arith::(Div|DivAssign|Rem|RemAssign)(<.*>)?>::(div|div_assign|rem|rem_assign)$" % re.escape(NUM))

    def is_zero_call(d):
        return isinstance(d, tuple) and d and d[0] == "call" and (d[1] or "").endswith("FeelNumber::zero")

    def same_or_abs(x, d):
        while isinstance(x, tuple) and x and x[0] == "via":
            x = x[2]
        if x == d:
            return True
        return isinstance(x, tuple) and x and x[0] == "call" and (x[1] or "").endswith("FeelNumber::abs") and len(x[2]) == 1 and same_or_abs(x[2][0], d)

    def unvia(d):
        while isinstance(d, tuple) and d and d[0] in ("via",):
            d = d[2]
        if isinstance(d, tuple) and d and d[0] == "un" and d[1] == "*":
            return unvia(d[2])
        return d

    n = 0
    for name in sorted(seen):
        h = F.hir.get(name)
        if h is None or h.get("kind") not in ("fn", "method") or name.startswith(NUM) or ("<" + NUM) in name.split("::")[0]:
            continue
        if not h["_crate"].startswith(("dmntk_feel_evaluator", "dmntk_model_evaluator", "dmntk_feel.", "dmntk_feel_parser")) and not h["_crate"] == "dmntk_feel":
            continue
        fl = hirflow.Flow(h)
        k = 0
        for callee, args, cond, line, node in fl.ops:
            if not div.match(callee or "") or len(args) < 2:
                continue
            key = "%s:div#%d" % (name, k)
            k += 1
            n += 1
            d = unvia(args[1])
            why = None
            for cd, pat, taken in cond:
                if isinstance(cd, tuple) and cd and cd[0] == "bin" and cd[1] in ("==", "!="):
                    a, b = unvia(cd[2]), unvia(cd[3])
                    for x, z in ((a, b), (b, a)):
                        if is_zero_call(z) and same_or_abs(x, d) and taken == (cd[1] == "!="):
                            why = "divisor compared with zero on the path"
                if isinstance(cd, tuple) and cd and cd[0] == "call" and (cd[1] or "").endswith("FeelNumber::is_zero") and cd[2] and unvia(cd[2][0]) == d and taken is False:
                    why = "divisor.is_zero() is false on the path"
            if why is None and isinstance(d, tuple) and d and d[0] == "call" and (d[1] or "").endswith(NONZERO_CONSTANTS) and NUM.split("::")[-1] in (d[1] or "") and not d[2]:
                why = "non-zero constant %s" % d[1].split("::")[-1]
            if why is None and isinstance(d, tuple) and d and d[0] == "call" and re.search(r"Into(<[^>]*>)?>?::into$", d[1] or "") and d[2]:
                ln = unvia(d[2][0])
                if isinstance(ln, tuple) and ln[0] == "call" and (ln[1] or "").endswith("::len") and ln[2]:
                    coll = unvia(ln[2][0])
                    for cd, pat, taken in cond:
                        if isinstance(cd, tuple) and cd and cd[0] == "call" and (cd[1] or "").endswith("::is_empty") and cd[2] and unvia(cd[2][0]) == coll and taken is False:
                            why = "length of a collection tested to be non-empty"
            if why:
                rep.ok(rid, key, why)
            elif key in AUDITED_DIVISORS:
                rep.ok(rid, key, AUDITED_DIVISORS[key], how="audited")
            else:
                rep.violation(rid, key, "FeelNumber division at %s:%s: the divisor %s is not tested against zero on the path (conditions in force: %s); x / 0 must yield null, decNumber returns Infinity/NaN"
                              % (h["file"], line, str(d)[:80], [str(c[0])[:60] for c in cond][-3:]), "%s:%s" % (h["file"], line))
    rep.floor(rid, "FeelNumber divisions reachable from evaluation", n, 6)


# numeric built-ins of the property that are not a single FeelNumber operation: the formula the specification gives, over the positional arguments
# name -> (formula over the positional arguments, specification text, domain tests allowed on the path besides argument-kind patterns and the
# Some(..) of the number operation: canonical strings)
FORMULAS = {
    "dmntk_feel_evaluator::bifs::core::modulo": ("sub(arg0,mul(arg1,floor(div(arg0,arg1))))", "modulo(dividend, divisor) = dividend - divisor * floor(dividend / divisor) (DMN 1.3, 10.3.4.5)",
                                                 ["abs(arg1)!=0"]),
    "dmntk_feel_evaluator::bifs::core::abs": ("abs(arg0)", "abs(n)", []),
    "dmntk_feel_evaluator::bifs::core::ceiling": ("ceiling(arg0)", "ceiling(n)", []),
    "dmntk_feel_evaluator::bifs::core::floor": ("floor(arg0)", "floor(n)", []),
    "dmntk_feel_evaluator::bifs::core::exp": ("exp(arg0)", "exp(n) for every number (overflow is the number operation's business)", []),
    "dmntk_feel_evaluator::bifs::core::sqrt": ("sqrt(arg0)", "sqrt(n) for n >= 0", ["arg0>=0"]),
    "dmntk_feel_evaluator::bifs::core::log": ("ln(arg0)", "log(n) for n > 0", ["arg0>0"]),
    "dmntk_feel_evaluator::bifs::core::even": ("even(arg0)", "even(n)", []),
    "dmntk_feel_evaluator::bifs::core::odd": ("odd(arg0)", "odd(n)", []),
}


def formula_rule(F, rep):
    """R02.7: every number a formula-defined numeric built-in returns is computed by exactly the specified formula (no shortcut branch)."""
    rid = rep.rule("R02.7", "formula-defined numeric built-ins (modulo) return, on every path that yields a number, exactly the specification's formula over their arguments")

    def fml(d):
        while isinstance(d, tuple) and d and d[0] in ("via",):
            d = d[2]
        if not isinstance(d, tuple) or not d:
            return "?"
        if d[0] == "un" and d[1] in ("*", "&"):
            return fml(d[2])
        if d[0] == "unwrap" and d[1].endswith("Value::Number"):
            return fml(d[2])
        if d[0] == "arg":
            return "arg%d" % d[1]
        if d[0] == "bin":
            op = {"+": "add", "-": "sub", "*": "mul", "/": "div", "%": "rem"}.get(d[1], d[1])
            return "%s(%s,%s)" % (op, fml(d[2]), fml(d[3]))
        if d[0] == "call" and isinstance(d[1], str) and d[1].startswith(NUM + "::"):
            return "%s(%s)" % (d[1].split("::")[-1], ",".join(fml(x) for x in d[2]))
        if d[0] == "call" and isinstance(d[1], str):
            return "%s(%s)" % (d[1].split("::")[-1], ",".join(fml(x) for x in d[2]))
        return d[0]
    def domain_tests(cond):
        """canonical form of the tests on the path that are neither argument-kind patterns nor the Some(..) of a number operation"""
        out = []
        for t, pats, taken in cond:
            if any(isinstance(p2, str) and (p2.startswith("dmntk_feel::values::Value::") or p2.endswith(("Option::Some", "Option::None"))) for p2 in pats):
                continue
            if isinstance(t, tuple) and t and t[0] == "bin" and t[1] in ("==", "!=", "<", "<=", ">", ">="):
                a, b2, op = fml(t[2]), fml(t[3]), t[1]
                if not taken:
                    op = {"==": "!=", "!=": "==", "<": ">=", "<=": ">", ">": "<=", ">=": "<"}[op]
                b2 = "0" if b2 == "zero()" else b2
                a = "0" if a == "zero()" else a
                out.append("%s%s%s" % (a, op, b2))
            elif isinstance(t, tuple) and t and t[0] == "loop-enter":
                continue
            else:
                out.append("%s%s" % ("" if taken else "!", fml(t) if isinstance(t, tuple) else str(t)))
        return sorted(out)
    for name, (want, text, allowed) in FORMULAS.items():
        h = F.hir.get(name)
        if h is None:
            rep.missing_anchor(rid, name)
            continue
        fl = hirflow.Flow(h)
        k = 0
        for d, cond, line in fl.returns:
            if not (isinstance(d, tuple) and d and d[0] == "ctor" and d[1].endswith(("Value::Number", "Value::Boolean")) and d[2]):
                continue
            got = fml(d[2][0])
            key = "%s:result#%d" % (name.split("::")[-1], k)
            k += 1
            dt = domain_tests(cond)
            if got != want:
                rep.violation(rid, key, "%s returns %s at line %s; the specification defines %s" % (name.split("::")[-1], got, line, text), "%s:%s" % (h["file"], line))
            elif dt != sorted(allowed):
                rep.violation(rid, key, "%s yields its result only under the additional test(s) %s (the specification's domain is %s): arguments inside the domain are answered with null"
                              % (name.split("::")[-1], [x for x in dt if x not in allowed] or dt, allowed or "every number"), "%s:%s" % (h["file"], line))
            else:
                rep.ok(rid, key, text)
        if k == 0:
            rep.violation(rid, "%s:result" % name.split("::")[-1], "no path of %s returns a number built by a formula (shape not recognised)" % name, "%s:%s" % (h["file"], h["line"]))


def from_string_of_integer(F, h):
    """every dec_from_string argument in this function is format!("{}", <integer>)"""
    calls = [c for c, _ in find_hir(h["body"], lambda x: x.get("k") == "Call" and (x.get("callee") or "").endswith("dec::dec_from_string"))]
    if not calls:
        return False
    for c in calls:
        fm = [x for x, _ in find_hir(c, lambda x: x.get("k") == "Call" and x.get("callee") == "alloc::fmt::format")]
        if not fm:
            return False
        for f in fm:
            args = []
            for s, _ in find_hir(f, lambda x: x.get("k") == "LetStmt" and x.get("p", {}).get("name") == "args" and x.get("e", {}).get("k") == "Tup"):
                args += [strip(e) for e in s["e"]["es"]]
            for a, _ in find_hir(f, lambda x: x.get("k") == "Call" and "fmt::rt::Argument" in (x.get("callee") or "")):
                if a["args"] and a["args"][0].get("k") == "AddrOf":
                    args.append(strip(a["args"][0]))
            if not args:
                return False
            for a in args:
                t = F.ty(h, a.get("t")) if a.get("t") is not None else ""
                if t.replace("&", "") not in ("isize", "usize", "i128", "u128", "i64", "u64", "i32", "u32", "i16", "u16", "i8", "u8"):
                    return False
    return True


def short(n):
    n = n.replace("dmntk_feel_number::number::", "").replace("core::ops::arith::", "").replace("core::str::traits::", "").replace("core::convert::", "")
    return n


def subst_self_rhs(vs, argv):
    """instantiate a method's value-set (trees over self / rhs) with actual argument value-sets"""
    def sub(v):
        if v[0] == "self":
            return set(argv[0]) if argv else {("unknown", "self")}
        if v[0] == "rhs":
            return set(argv[1]) if len(argv) > 1 else {("unknown", "rhs")}
        if v[0] == "prim":
            ins = tuple(frozenset(x for y in s for x in sub(y)) for s in v[2])
            return {("prim", v[1], ins, v[3])}
        if v[0] == "test":
            return {("test", v[1], tuple(x for y in v[2] for x in sub(y)))}
        return {v}
    out = set()
    for v in vs:
        out |= sub(v)
    return out


def method_value(F, W, h, _stack=(), inline=True, returns=False, tests=None):
    """value-set (primitive trees over self/rhs) a FeelNumber method computes, ignoring control flow.
    Calls and overloaded operators that resolve to another FeelNumber operation (`*self = *self + rhs`) are inlined.
    returns=True: instead, the list of (line, value-set) of every value the method can return - the operand of each `return` and the tail
    expression of the body, split over if / match / block tails (closures are not entered)."""
    env = {}
    names = [p.get("name") for p in h["params"]]
    for i, nm in enumerate(names):
        if nm:
            env[nm] = {("self",) if i == 0 else ("rhs",)}
    acc = set()

    def sibling(cal, argv):
        hh = F.hir.get(cal)
        if not inline:
            return None
        if hh is None or not (NUM in cal or cal.startswith("dmntk_feel_number::number::")) or cal in _stack or hh is h or hh.get("kind") not in ("fn", "method"):
            return None
        if len(_stack) > 4:
            return None
        inner = method_value(F, W, hh, _stack + (cal,))
        if not inner:
            return None
        return subst_self_rhs(inner, argv)

    def val(e):
        e = strip(e)
        k = e.get("k")
        if k == "Field":
            return val(e["e"])
        if k == "Path":
            if e.get("res") == "local":
                return env.get(e["name"], {("local", e["name"])})
            return {("static", e.get("path", "").split("::")[-1])}
        if k == "Call":
            cal = e.get("callee") or ""
            if cal.startswith(DEC + "dec_"):
                w = W.sem(cal)
                argv = [val(a) for a in e.get("args", [])]
                if w and tests is not None:
                    # predicate wrappers (dec_is_finite, dec_is_integer ..) answer an opaque test; the primitive they apply, and to what, is recorded here
                    for q in w.get("prims", []):
                        tests.append(next(iter(subst_wrapper({"result": {q}}, argv))))
                return subst_wrapper(w, argv) if w else {("unknown", cal)}
            argv = [val(a) for a in e.get("args", [])]
            if not ("Ctor" in (e.get("dk") or "") or e.get("dk") == "SelfCtor"):
                sv = sibling(cal, argv)
                if sv is not None:
                    return sv
            out = set()
            for a in argv:
                out |= a
            return out
        if k == "MethodCall":
            argv = [val(e["recv"])] + [val(a) for a in e.get("args", [])]
            sv = sibling(e.get("callee") or "", argv)
            if sv is not None:
                return sv
            out = set()
            for a in argv:
                out |= a
            return out
        if k == "Closure":
            # the value a closure yields when called (`cond.then(|| Self(..))`, `map(|n| ..)`): its body's tail
            b = e.get("body")
            while isinstance(b, dict) and b.get("k") == "Block" and not b.get("b", {}).get("stmts") and b.get("b", {}).get("e") is not None:
                b = b["b"]["e"]
            return val(b) if isinstance(b, dict) else set()
        if k in ("Unary",):
            if e.get("callee"):
                sv = sibling(e["callee"], [val(e["a"])])
                if sv is not None:
                    return sv
            return val(e["a"])
        if k in ("Binary", "AssignOp"):
            argv = [val(e["a"]), val(e["b"])]
            if e.get("callee"):
                sv = sibling(e["callee"], argv)
                if sv is not None:
                    return sv
            return argv[0] | argv[1]
        return set()

    def visit(n, parents):
        if n.get("k") == "LetStmt" and n["p"].get("k") == "Bind" and "e" in n:
            env[n["p"]["name"]] = val(n["e"])
        if n.get("k") == "Call" or (n.get("k") in ("Binary", "Unary", "MethodCall", "AssignOp") and n.get("callee")):
            acc.update(val(n))
        return True
    from facts import walk_hir
    walk_hir(h["body"], visit)
    if returns:
        alts = []

        def tails(e):
            e0 = e
            while isinstance(e0, dict) and e0.get("k") in ("DropTemps", "Paren"):
                e0 = e0.get("e")
            if not isinstance(e0, dict):
                return
            k = e0.get("k")
            if k == "Block":
                if e0.get("b", {}).get("e") is not None:
                    tails(e0["b"]["e"])
            elif k == "If":
                tails(e0.get("then"))
                if e0.get("else") is not None:
                    tails(e0["else"])
            elif k == "Match":
                for a in e0.get("arms", []):
                    tails(a.get("b"))
            elif k == "Ret":
                pass    # collected below
            else:
                alts.append((e0.get("l"), val(e0)))

        def rets(n, parents):
            if n.get("k") == "Closure":
                return False
            if n.get("k") == "Ret" and n.get("e") is not None:
                tails(n["e"])
            return True
        tails(h["body"])
        walk_hir(h["body"], rets)
        return alts
    return acc



def context_privacy_rule(F, rep, r3):
    """R02.3 (also a premise of C07: text -> number conversion must not depend on an earlier conversion)"""
    # ---------------- R02.3
    nctx = 0
    deref_name = "<dmntk_feel_number::dec::DEFAULT_CONTEXT as core::ops::deref::Deref>::deref"
    for n, b in F.bodies.items():
        if not b["_crate"].startswith("dmntk_feel_number"):
            continue
        B = mirutil.Body(F, b)
        for bi, c in F.body_calls(b):
            ff = F.foreign.get(c["f"].get("p"))
            if ff is None and c["f"].get("k") == "fnptr" and c["f"].get("ty") is not None:
                # a library function applied through a typed `extern "C" fn` pointer (a generic helper taking the operation as a parameter)
                pty = F.ty(b, c["f"]["ty"])
                m = re.match(r'^(?:for<[^>]*>\s*)?(?:unsafe\s+)?extern "C" fn\((.*)\)(?:\s*->.*)?$', pty)
                if m:
                    ff = {"sym": "(library function passed as a parameter)", "inputs": [x.strip() for x in m.group(1).split(",")]}
            if ff is None or "inputs" not in ff:
                continue
            for i, (ty, arg) in enumerate(zip(ff["inputs"], c["args"])):
                if "DecContext" not in ty:
                    continue
                nctx += 1
                key = "%s:%s" % (n.split("::")[-1], ff["sym"])
                roots = B.pointer_root(arg)
                ok = bool(roots)
                why = ""
                for r in roots:
                    if r[0] != "local":
                        ok = False
                        why = "context pointer derives from %s" % (r,)
                        continue
                    src = B.local_value_sources(r[1])
                    if ff["sym"] == "decContextDefault":
                        if not all(s[0] == "call" and s[1].endswith("Default>::default") for s in src):
                            ok = False
                            why = "decContextDefault initialises %s" % sorted(src)
                        continue
                    if not src or not all(s[0] == "call" and s[1].endswith("DecContext as core::clone::Clone>::clone") for s in src):
                        ok = False
                        why = "context value comes from %s, not from a clone of the default context" % sorted(map(str, src))
                        continue
                    # the clone's receiver must be the lazily initialised default context
                    for (dbi, dsi, kind, st) in B.defs.get(r[1], []):
                        if kind == "call":
                            rr = B.pointer_root(st["args"][0]) if st["args"] else set()
                            if not rr or not all(x == ("call", deref_name) for x in rr):
                                ok = False
                                why = "clone of %s, not of DEFAULT_CONTEXT" % sorted(map(str, rr))
                if ok:
                    rep.ok(r3, key, "fresh clone of DEFAULT_CONTEXT")
                else:
                    rep.violation(r3, key, "%s calls %s with a context that is not a private pristine copy: %s" % (n, ff["sym"], why), "%s:%s" % (b["file"], c.get("line")))
        # writes to DecContext fields from Rust
        if "Default>::default" in n or "Clone>::clone" in n:
            continue
        for bl in b["blocks"]:
            for st in bl["s"]:
                if st[0] == "A" and len(st[1]) > 1:
                    base = B.local_ty(st[1][0])
                    if "DecContext" in base and any(isinstance(e, list) and e[0] == "." for e in st[1][1:]):
                        rep.violation(r3, "write:%s" % n, "%s writes a field of a DecContext (rounding/precision can be changed behind the library's back)" % n, "%s:%s" % (b["file"], st[3] if len(st) > 3 else b["line"]))
    # 30 on the pinned tree; the floor leaves room for wrappers being folded into generic helpers (each helper's call through the pointer is counted once)
    rep.floor(r3, "FFI context arguments", nctx, 18)
    init_fn = [n for n in F.hir if n.startswith("<dmntk_feel_number::dec::DEFAULT_CONTEXT as ") and n.endswith("__static_ref_initialize")]
    if not init_fn:
        rep.missing_anchor(r3, "initialiser of DEFAULT_CONTEXT")
    else:
        calls = [c.get("callee") for c, _ in find_hir(F.hir[init_fn[0]]["body"], lambda x: x.get("k") == "Call")]
        if calls == [DEC + "dec_context_default"]:
            h = F.hir.get(DEC + "dec_context_default")
            kinds = [strip(c["args"][1]) for c, _ in find_hir(h["body"], lambda x: x.get("k") == "Call" and (x.get("callee") or "").endswith("decContextDefault"))]
            if len(kinds) == 1 and kinds[0].get("k") == "Path" and kinds[0].get("path", "").endswith("DEC_INIT_DECQUAD"):
                rep.ok(r3, "DEFAULT_CONTEXT:init", "decContextDefault(.., DEC_INIT_DECQUAD)")
            else:
                rep.violation(r3, "DEFAULT_CONTEXT:init", "the default context is initialised with kind %s, not DEC_INIT_DECQUAD" % kinds, "feel-number/src/dec.rs")
        else:
            rep.violation(r3, "DEFAULT_CONTEXT:init", "DEFAULT_CONTEXT is initialised by %s" % calls, "feel-number/src/dec.rs")
