"""C01, R01.10: the cartesian iteration of for / some / every, folded on concrete iteration states, visits exactly the product of its domains in declaration order.

FeelIterator::run is evaluated by the folding engine (concrete `loop`, labelled break, elements of `iter_mut()` written back) on iterator states built by the library's own
add_range / add_list (folded as well) for tuples of non-empty domains: ascending, descending and one-element ranges and lists, one to three variables.  The handler is a
hook that records the iteration context it is called with.  Expected: the nested-loop product, the first declared variable outermost (the last one changes fastest).
(The empty domain is the business of R01.2, a known finding.)"""
import itertools

from hireval import Evaluator, State, TooManyPaths, mk_bool

IT = "dmntk_feel_evaluator::iterations::FeelIterator::"
CTX = "dmntk_feel::context::FeelContext"


def dom_values(d):
    if d[0] == "range":
        a, b = d[1], d[2]
        return list(range(a, b + 1)) if a <= b else list(range(a, b - 1, -1))
    return list(d[1])


DOMAINS = [("range", 1, 3), ("range", 3, 1), ("range", 2, 2), ("range", -1, 1), ("range", 0, -2), ("list", [7, 8]), ("list", [5]), ("list", [9, 4, 6])]


def make_ev(F, calls):
    box = {}

    def hook(c, a, st):
        ev = box["ev"]
        c = c or ""
        if c.startswith("local:") and c[6:] == "handler" or c.endswith("FnMut::call_mut") or c.endswith("FnMut<Args>>::call_mut"):
            ctx = a[-1] if a else None
            if isinstance(ctx, tuple) and ctx and ctx[0] == "tuple" and len(ctx[1]) == 1:
                ctx = ctx[1][0]
            calls.append(ctx)
            return ("unit",)
        if CTX in c and c.endswith("::default") and not a:
            return ("array", [])
        if c == CTX + "::set_entry" and len(a) == 3 and ev.as_seq(a[0]) is not None and a[1][0] == "lit":
            q = [kv for kv in ev.as_seq(a[0]) if kv[1][0] != a[1]] + [("tuple", [a[1], a[2]])]
            q.sort(key=lambda kv: kv[1][0][1])
            return {"put": ("array", q), "val": ("unit",)}
        if c in ("dmntk_feel::values::Values::as_vec",):
            return a[0]
        if c.endswith("slice::<impl [T]>::get") or c.endswith("Vec::<T, A>::get") or (c.split("::")[-1] == "get" and a and ev.as_seq(a[0]) is not None and len(a) == 2 and a[1][0] == "lit"):
            seq = ev.as_seq(a[0])
            if seq is not None and len(a) == 2 and a[1][0] == "lit" and isinstance(a[1][1], int):
                return ("v", "Some", [seq[a[1][1]]]) if 0 <= a[1][1] < len(seq) else ("v", "None", [])
        return None
    ev = Evaluator(F, call_hook=hook, ints=True, max_paths=2000)
    ev.vecs = True
    box["ev"] = ev
    return ev


def build_iterator(F, domains):
    """the iterator state after add_range / add_list for every domain, in declaration order (folded with the library's own constructors)"""
    state = ("rec", {"iteration_states": ("array", [])})
    for i, d in enumerate(domains):
        ev = make_ev(F, [])
        name = ("lit", "v%d" % i)
        if d[0] == "range":
            fn, args = IT + "add_range", [state, name, ("lit", d[1]), ("lit", d[2])]
        else:
            fn, args = IT + "add_list", [state, name, ("array", [("v", "Number", [("lit", x)]) for x in d[1]])]
        h = F.hir_fn(fn)
        ev.crate = h.get("_crate")
        st = State({})
        for p, a in zip(h["params"], args):
            ev.match(p, a, st.env)
        outs = list(ev.ev(h["body"], st))
        if len(outs) != 1 or outs[0][0].conds:
            return None
        state = outs[0][0].env.get("self")
        if not (isinstance(state, tuple) and state[0] == "rec"):
            return None
    return state


def fold_run(F, domains):
    state = build_iterator(F, domains)
    if state is None:
        return None, "the iterator state does not fold"
    calls = []
    ev = make_ev(F, calls)
    h = F.hir_fn(IT + "run")
    ev.crate = h.get("_crate")
    st = State({})
    args = [state, ("sym", "handler")]
    for p, a in zip(h["params"], args):
        ev.match(p, a, st.env)
    try:
        outs = list(ev.ev(h["body"], st))
    except (TooManyPaths, ValueError, KeyError, TypeError, IndexError, RecursionError) as x:
        return None, "%s: %s" % (type(x).__name__, str(x)[:80])
    if len(outs) != 1 or outs[0][0].conds:
        return None, "%d paths%s" % (len(outs), (": " + str(outs[0][0].conds[0])[:80]) if outs and outs[0][0].conds else "")
    got = []
    for c in calls:
        try:
            got.append(tuple(sorted((kv[1][0][1], kv[1][1][2][0][1]) for kv in c[1])))
        except (TypeError, IndexError, KeyError):
            return None, "an iteration context is not concrete"
    return got, ""


def expected(domains):
    names = ["v%d" % i for i in range(len(domains))]
    return [tuple(sorted(zip(names, combo))) for combo in itertools.product(*[dom_values(d) for d in domains])]


def run(F, rep, tier):
    rid = rep.rule("R01.10", "FeelIterator::run, folded on iterator states built for one to three non-empty domains (ascending, descending and one-element ranges, lists), calls its handler "
                             "for exactly the cartesian product of the domains, the first declared variable outermost")
    for m in ("run", "add_range", "add_list"):
        if F.hir.get(IT + m) is None:
            rep.missing_anchor(rid, IT + m)
            return
    h = F.hir[IT + "run"]
    where = "%s:%s" % (h["file"], h["line"])
    tuples = [(d,) for d in DOMAINS] + list(itertools.product(DOMAINS, repeat=2))
    if tier == "thorough":
        tuples += list(itertools.product(DOMAINS[:6], repeat=3))
    else:
        tuples += [(DOMAINS[0], DOMAINS[1], DOMAINS[5]), (DOMAINS[5], DOMAINS[2], DOMAINS[4]), (DOMAINS[1], DOMAINS[6], DOMAINS[1])]
    bad, unknown, ok = [], [], 0

    def label(ds):
        return ", ".join("v%d in %s" % (i, ("%d..%d" % (d[1], d[2])) if d[0] == "range" else str(d[1])) for i, d in enumerate(ds))
    for ds in tuples:
        got, note = fold_run(F, ds)
        if got is None:
            unknown.append("%s: %s" % (label(ds), note))
        elif got != expected(ds):
            want = expected(ds)
            bad.append("for %s: %d iterations %s.., the product has %d: %s.." % (label(ds), len(got), [tuple(v for _, v in g) for g in got[:4]], len(want), [tuple(v for _, v in g) for g in want[:4]]))
        else:
            ok += 1
    if bad:
        rep.violation(rid, "product:run", "the iteration is not the cartesian product of its domains in declaration order (%d of %d cases): %s" % (len(bad), len(tuples), "; ".join(bad[:2])), where)
    elif len(unknown) > len(tuples) // 4:
        rep.undecided(rid, "product:run", "%d of %d cases do not fold: %s" % (len(unknown), len(tuples), "; ".join(unknown[:2])))
    else:
        rep.ok(rid, "product:run", "%d tuples of domains fold to the cartesian product%s" % (ok, (" (%d do not fold)" % len(unknown)) if unknown else ""))
    rep.floor(rid, "tuples of domains folded", ok + len(bad), 60)
