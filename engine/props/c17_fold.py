"""C17, R17.10: the workspace, folded on histories of add / remove / replace / clear / deploy, holds what the statement says.

Workspace is given as a record of its four fields (the stored list and the three maps as sequences of (key, value) pairs); a model is a record (namespace, name, builds or not).
The methods add, remove, replace, clear and deploy are evaluated by the folding engine (`&mut self` methods write their receiver back; HashMap / Arc / ModelEvaluator::new are
modelled by hooks) on every history up to a bounded length over an alphabet of four models that share a namespace / a name pairwise, one of which does not build.  After every
step the state is compared with a reference written from the statement: the stored list, both indexes describing exactly the stored list, the verdict of add / replace, and -
after a deploy - evaluators for exactly the stored models that build.  (What the evaluators are after an operation that changes nothing is not compared: the statement does
not settle it.)"""
import itertools

from hireval import Evaluator, TooManyPaths, mk_bool

W = "dmntk_workspace::workspace::Workspace::"
MODELS = {"A": ("ns1", "n1", True), "B": ("ns1", "n2", True), "C": ("ns2", "n1", True), "D": ("ns3", "n3", False)}


def model(k):
    ns, nm, ok = MODELS[k]
    return ("rec", {"namespace": ("lit", ns), "name": ("lit", nm), "builds": ("bool", ok)})


def empty():
    return ("rec", {"definitions": ("array", []), "definitions_by_namespace": ("array", []), "definitions_by_name": ("array", []), "model_evaluators_by_name": ("array", [])})


def make_ev(F):
    box = {}

    def hook(c, a, st):
        ev = box["ev"]
        c = c or ""
        m = c.split("::")[-1]
        if "HashMap" in c and a and ev.as_seq(a[0]) is not None:
            seq = list(ev.as_seq(a[0]))
            key = a[1] if len(a) > 1 else None
            if m == "contains_key" and key is not None and key[0] == "lit":
                return mk_bool(any(kv[1][0] == key for kv in seq))
            if m == "get" and key is not None and key[0] == "lit":
                for kv in seq:
                    if kv[1][0] == key:
                        return ("v", "Some", [kv[1][1]])
                return ("v", "None", [])
            if m == "insert" and len(a) == 3 and key[0] == "lit":
                old = [kv for kv in seq if kv[1][0] == key]
                return {"put": ("array", [kv for kv in seq if kv[1][0] != key] + [("tuple", [key, a[2]])]), "val": ("v", "Some", [old[0][1][1]]) if old else ("v", "None", [])}
            if m == "remove" and key is not None and key[0] == "lit":
                old = [kv for kv in seq if kv[1][0] == key]
                return {"put": ("array", [kv for kv in seq if kv[1][0] != key]), "val": ("v", "Some", [old[0][1][1]]) if old else ("v", "None", [])}
            if m == "clear":
                return {"put": ("array", []), "val": ("unit",)}
            if m == "len":
                return ("lit", len(seq))
            if m == "is_empty":
                return mk_bool(not seq)
            if m == "extend" and len(a) == 2 and ev.as_seq(a[1]) is not None and all(kv[0] == "tuple" and len(kv[1]) == 2 and kv[1][0][0] == "lit" for kv in ev.as_seq(a[1])):
                out = list(seq)
                for kv in ev.as_seq(a[1]):
                    out = [x for x in out if x[1][0] != kv[1][0]] + [kv]
                return {"put": ("array", out), "val": ("unit",)}
            if m in ("iter", "keys", "values", "contains", "clone"):
                return ("unknown", "HashMap::%s is not modelled" % m)
            # anything else may change the map: its content is unknown from here on
            return {"put": ("unknown", "HashMap::%s is not modelled" % m), "val": ("unknown", "HashMap::%s is not modelled" % m)}
        if "HashMap" in c and m in ("new", "default") and not a:
            return ("array", [])
        if "sync::Arc" in c and m in ("new", "clone") and a:
            return a[0]
        if a and isinstance(a[0], tuple) and a[0] and a[0][0] == "rec" and "namespace" in a[0][1] and m in ("namespace", "name"):
            return a[0][1][m]
        if c.endswith("ModelEvaluator::new") and a and a[0][0] == "rec":
            return ("v", "Ok", [("rec", {"model": a[0][1]["name"]})]) if a[0][1]["builds"] == ("bool", True) else ("v", "Err", [("sym", "build error")])
        return None
    ev = Evaluator(F, call_hook=hook, ints=True, max_paths=200, inline={n for n in F.hir if n.startswith(W)})
    ev.vecs = True
    box["ev"] = ev
    return ev


def apply(F, state, op):
    """(new state, verdict 'Ok' / 'Err' / None) or (None, reason)"""
    kind, k = op
    ev = make_ev(F)
    if kind in ("add", "replace"):
        fn, args = W + kind, [state, model(k)]
    elif kind == "remove":
        fn, args = W + "remove", [state, ("lit", MODELS[k][0]), ("lit", MODELS[k][1])]
    else:
        fn, args = W + kind, [state]
    h = F.hir_fn(fn)
    ev.crate = h.get("_crate")
    from hireval import State
    st = State({})
    for p, a in zip(h["params"], args):
        ev.match(p, a, st.env)
    try:
        outs = [(s, v) for s, v in ev.ev(h["body"], st)]
    except (TooManyPaths, ValueError, KeyError, TypeError, IndexError, RecursionError) as x:
        return None, "%s: %s" % (type(x).__name__, str(x)[:80])
    if len(outs) != 1 or outs[0][0].conds:
        return None, "%d paths%s" % (len(outs), (": " + str(outs[0][0].conds[0])[:70]) if outs and outs[0][0].conds else "")
    s, v = outs[0]
    v = s.ret if s.ret is not None else v
    verdict = v[1] if isinstance(v, tuple) and v[0] == "v" and v[1] in ("Ok", "Err") else None
    return s.env.get("self"), verdict


def observe(state):
    """(stored list [(ns, name)], by_namespace {ns: name}, by_name {name: ns}, evaluators set) or None when something is unknown"""
    try:
        d = state[1]
        stored = [(x[1]["namespace"][1], x[1]["name"][1]) for x in d["definitions"][1]]
        by_ns = {kv[1][0][1]: kv[1][1][1]["name"][1] for kv in d["definitions_by_namespace"][1]}
        by_nm = {kv[1][0][1]: kv[1][1][1]["namespace"][1] for kv in d["definitions_by_name"][1]}
        evs = {kv[1][0][1] for kv in d["model_evaluators_by_name"][1]}
        return stored, by_ns, by_nm, evs
    except (TypeError, KeyError, IndexError):
        return None


def reference(hist):
    """the statement: stored list, verdicts, evaluators (None = not settled by the statement at this point)"""
    stored, evs, verdicts = [], set(), []
    for kind, k in hist:
        v = None
        if kind == "add":
            ns, nm, _ = MODELS[k]
            if any(s[0] == ns or s[1] == nm for s in stored):
                v = "Err"
            else:
                stored.append(MODELS[k])
                evs = set()
                v = "Ok"
        elif kind == "remove":
            ns, nm, _ = MODELS[k]
            if any(s[0] == ns and s[1] == nm for s in stored):
                stored = [s for s in stored if not (s[0] == ns and s[1] == nm)]
                evs = set()
            else:
                evs = None if evs else evs
        elif kind == "replace":
            ns, nm, _ = MODELS[k]
            was = any(s[0] == ns and s[1] == nm for s in stored)
            rest = [s for s in stored if not (s[0] == ns and s[1] == nm)]
            if any(s[0] == ns or s[1] == nm for s in rest):
                v = "Err"
                stored = rest
                evs = set() if was else (None if evs else evs)
            else:
                stored = rest + [MODELS[k]]
                evs = set()
                v = "Ok"
        elif kind == "clear":
            stored, evs = [], set()
        elif kind == "deploy":
            evs = {s[1] for s in stored if s[2]}
        verdicts.append(v)
        if evs is None:
            evs = None
    return [(s[0], s[1]) for s in stored], evs, verdicts


def ops():
    return [(k, m) for k in ("add", "remove", "replace") for m in sorted(MODELS)] + [("clear", None), ("deploy", None)]


def run(F, rep, tier):
    rid = rep.rule("R17.10", "the workspace methods, folded on every history of add / remove / replace / clear / deploy up to a bounded length over four models sharing namespaces and names, "
                             "leave the stored list, both indexes, the verdicts and the deployed evaluators the statement prescribes")
    for m in ("add", "remove", "replace", "clear", "deploy"):
        if F.hir.get(W + m) is None:
            rep.missing_anchor(rid, W + m)
            return
    depth = 4 if tier == "thorough" else 3
    alphabet = ops()
    bad, unknown, ok = {}, [], 0
    # breadth-first over histories, sharing the folded state of the common prefix
    level = [((), empty())]
    h0 = F.hir[W + "add"]
    where = "%s:%s" % (h0["file"], h0["line"])
    for _ in range(depth):
        nxt = []
        for hist, state in level:
            for op in alphabet:
                if tier != "thorough" and len(hist) >= 2 and op[0] in ("remove", "replace") and op[1] == "D":
                    continue          # (quick tier: the model that does not build is only added)
                new, verdict = apply(F, state, op)
                h2 = hist + (op,)
                label = " ".join("%s%s" % (k, ("(" + m + ")") if m else "") for k, m in h2)
                if new is None:
                    unknown.append("%s: %s" % (label, verdict))
                    continue
                obs = observe(new)
                if obs is None:
                    unknown.append("%s: state not concrete" % label)
                    continue
                stored, evs, verdicts = reference(h2)
                got_stored, by_ns, by_nm, got_evs = obs
                why = None
                if got_stored != stored:
                    why = "stored list %s, the statement: %s" % (got_stored, stored)
                elif by_ns != {s[0]: s[1] for s in stored} or by_nm != {s[1]: s[0] for s in stored}:
                    why = "indexes %s / %s do not describe the stored list %s (a stale reservation or a missing entry)" % (by_ns, by_nm, stored)
                elif verdicts[-1] is not None and verdict != verdicts[-1]:
                    why = "%s answered %s, the statement: %s" % (op[0], verdict, verdicts[-1])
                elif evs is not None and got_evs != evs:
                    why = "evaluators for %s, the statement: %s" % (sorted(got_evs), sorted(evs))
                if why:
                    bad.setdefault(op[0], []).append("after `%s`: %s" % (label, why))
                else:
                    ok += 1
                nxt.append((h2, new))
        level = nxt
    for kind, ex in sorted(bad.items()):
        rep.violation(rid, "history:%s" % kind, "Workspace::%s leaves the workspace in a state the statement does not allow (%d histories), e.g. %s" % (kind, len(ex), ex[0]), where)
    if len(unknown) > (ok + len(unknown)) // 4:
        rep.undecided(rid, "history:fold", "%d of %d histories do not fold: %s" % (len(unknown), ok + len(unknown), "; ".join(unknown[:2])))
    elif not bad:
        rep.ok(rid, "history:fold", "%d histories up to length %d fold to the state the statement prescribes%s" % (ok, depth, (" (%d do not fold)" % len(unknown)) if unknown else ""))
    rep.floor(rid, "histories folded", ok + sum(len(v) for v in bad.values()), 1500 if tier != "thorough" else 20000)
